"""C02 - MDIB version counters are monotonic, gap-free and referentially consistent.

Provider-only workload: seeded transaction histories (vf.mdibops) on the four sample MDIBs through the classic and the entity
interface; after every transaction the canonical snapshot is diffed against the previous one and the arithmetic / structural
invariants of the statement are evaluated (History oracle + structural walker).
"""
from __future__ import annotations

import random

from .. import core, mdibops
from ..history import History, first_difference, snap_equal, tolerant_equal, versions_of
from ..mdibharness import MDIB_FILES, load_mdib_bytes

MODULE = 'vf.props.c02'


def structural_problems(s: dict) -> list[tuple[str, str, dict]]:
    out = []
    descr = s['descr']
    for kind, h in s['dup']:
        out.append((f'struct.duplicate_{kind}', f'two {kind} objects for one handle in the table', {'handle': h}))
    for h, c in s['states'].items():
        if h not in descr:
            out.append(('struct.state_without_descriptor', 'a state refers to a descriptor that does not exist', {'handle': h}))
        else:
            dv = versions_of(descr[h])[0]
            if versions_of(c)[0] != dv:
                out.append(('struct.state_descriptor_version', "state does not carry its descriptor's current DescriptorVersion",
                            {'handle': h, 'state.DescriptorVersion': versions_of(c)[0], 'descriptor.DescriptorVersion': dv}))
    for h, c in s['ctx'].items():
        dh = dict(c[1]).get('DescriptorHandle')
        if dh not in descr:
            out.append(('struct.ctx_state_without_descriptor', 'a context state refers to a descriptor that does not exist', {'handle': h}))
        else:
            dv = versions_of(descr[dh])[0]
            if versions_of(c)[0] != dv:
                out.append(('struct.ctx_state_descriptor_version', "context state does not carry its descriptor's current DescriptorVersion",
                            {'handle': h, 'descriptor': dh, 'state.DescriptorVersion': versions_of(c)[0], 'descriptor.DescriptorVersion': dv}))
    for h, c in descr.items():
        parent = dict(c[2:]).get('parent') if len(c) > 2 else None
        parent = c[2][1]
        if parent is not None and parent not in descr:
            out.append(('struct.orphan_descriptor', 'a non-root descriptor has no existing parent', {'handle': h, 'parent': parent}))
    for p in s.get('index_problems', []):
        out.append(('struct.index', 'a lookup disagrees with a scan of the table', {'problem': p}))
    return out


def check_transition(ctx, before: dict, after: dict, ap: mdibops.Applied, hist_label: dict):
    """C02 rules for one transaction.  Returns the set of changed entities (kind, handle)."""
    op = ap.op
    vb, va = before['version'][0], after['version'][0]
    changed = set()
    for kind, key in (('descr', 'descr'), ('state', 'states'), ('ctx', 'ctx')):
        b, a = before[key], after[key]
        for h in set(b) | set(a):
            if h not in b or h not in a or not tolerant_equal(b[h], a[h]):
                changed.add((kind, h))
    detail = {'op': op, 'outcome': ap.outcome, 'mdib_version': [vb, va], **hist_label}
    if ap.tb:
        detail['raised_at'] = ap.tb
    opk = op['op'] + ('.' + op['sub'] if op.get('sub') else '')
    if ap.expect in ('empty', 'abort', 'reject') or ap.outcome != 'ok':
        if va != vb:
            ctx.witness(f'mdibversion.changed_by_{ap.expect}', f'MdibVersion changed by an {ap.expect} transaction', detail)
        # (content equality after aborts is C03's business)
        return changed
    if changed and va != vb + 1:
        ctx.witness(f'mdibversion.not_plus_one.{opk}', f'a committed transaction with changes moved MdibVersion from {vb} to {va}', detail)
    if not changed and va != vb:
        ctx.witness(f'mdibversion.changed_without_change.{opk}', 'MdibVersion changed although nothing in the MDIB changed', detail)
    # version counters of changed entities must increase; unchanged entities keep their version
    for kind, h in changed:
        key = {'descr': 'descr', 'state': 'states', 'ctx': 'ctx'}[kind]
        if h in before[key] and h in after[key]:
            vidx = 0 if kind == 'descr' else 1
            ob, oa = versions_of(before[key][h]), versions_of(after[key][h])
            if oa[vidx] <= ob[vidx]:
                # the only change may be the referenced DescriptorVersion of a state: then StateVersion must still increase
                ctx.witness(f'version.not_increased.{kind}.{opk}', f'published content of a {kind} changed but its version counter did not increase',
                            {**detail, 'handle': h, 'versions': [ob, oa], 'diff': first_difference(before[key][h], after[key][h])})
    # nothing else changed: changed entities must be touched by the harness' own record or coupled by the documented rules
    allowed = {('descr', h) for h in ap.touched_descr} | {('state', h) for h in ap.touched_states | ap.touched_descr} | \
              {('ctx', h) for h in ap.touched_ctx}
    # context states of an updated / re-versioned context descriptor follow it
    for kind, h in list(changed):
        if kind == 'ctx':
            c = after['ctx'].get(h) or before['ctx'].get(h)
            if dict(c[1]).get('DescriptorHandle') in ap.touched_descr:
                allowed.add((kind, h))
    extra = changed - allowed
    if extra:
        ctx.witness(f'unexpected_change.{opk}', 'an entity changed although the transaction did not touch it or one it is coupled to',
                    {**detail, 'unexpected': sorted(extra)[:5],
                     'diff': [first_difference(before[{'descr': 'descr', 'state': 'states', 'ctx': 'ctx'}[k]].get(h),
                                               after[{'descr': 'descr', 'state': 'states', 'ctx': 'ctx'}[k]].get(h)) for k, h in sorted(extra)[:2]]})
    return changed


WEIGHTS = dict(mdibops.DEFAULT_WEIGHTS, ctx_delete=2, exotic=1)   # provider only: removal of context states through the entity interface included


def w_histories(ctx: core.Ctx, arg):
    from sdc11073.mdib import ProviderMdib
    rng = ctx.rng('hist', arg['i'])
    for hno in range(arg['n']):
        mdib_file = MDIB_FILES[(arg['i'] + hno) % len(MDIB_FILES)]
        mdib = ProviderMdib.from_string(load_mdib_bytes(mdib_file))
        mdib.instance_id = 1
        hist = History(mdib)
        memo = {}
        shapes = []
        label = {'mdib_file': mdib_file, 'history': [arg['i'], hno]}
        ops_done = []
        for step in range(arg['len']):
            op = mdibops.gen_op(rng, mdib, memo, WEIGHTS)
            before = hist.last
            ap = mdibops.apply_op(mdib, op, memo)
            after = hist.record()
            ops_done.append(op)
            ctx.count(f'op.{op["op"]}')
            ctx.count(f'outcome.{ap.expect}.{ap.outcome.split(":")[0]}')
            if ap.expect == 'commit' and ap.outcome != 'ok':
                ctx.count(f'commit_raised.{op["op"]}.{ap.outcome}')
                ctx.extra.setdefault('commit_raised_samples', [])
                if len(ctx.extra['commit_raised_samples']) < 5:
                    ctx.extra['commit_raised_samples'].append({'op': op, 'outcome': ap.outcome, 'ex': repr(ap.exception)[:300], 'tb': ap.tb})
            changed = check_transition(ctx, before, after, ap, {**label, 'step': step})
            if changed:
                ctx.count('transitions.with_changes')
            old_problems = {(k, repr(d)) for k, _, d in structural_problems(before)}
            for key, what, det in structural_problems(after):
                if (key, repr(det)) in old_problems:
                    continue  # not introduced by this transaction (already reported, or present in the input file)
                ctx.witness(key + '.' + op['op'] + ('.' + op['sub'] if op.get('sub') else ''), what, {**det, 'op': op, **label, 'step': step})
            shapes.append(mdibops.op_shape(ap))
            ctx.case(('tr', mdib_file) + mdibops.op_shape(ap), nontrivial=bool(changed))
            if hist.problems:
                for key, what, det in hist.problems:
                    ctx.witness(key + '.' + op['op'] + ('.' + op['sub'] if op.get('sub') else ''), what, {**det, 'op': op, **label, 'step': step})
                hist.problems.clear()
        ctx.case(tuple(shapes), nontrivial=any(s[5] == 'ok' for s in shapes))
        if hno == 0 and arg['i'] == 0:
            ctx.sample({'mdib_file': mdib_file, 'ops': ops_done[:8], 'final_mdib_version': mdib.mdib_version})


def w_templates(ctx: core.Ctx, arg):
    """related objects in one transaction: {update parent, add child, remove child, update child, descriptor + its state} x order x
    interface, enumerated explicitly on every sample MDIB and every channel."""
    from sdc11073.mdib import ProviderMdib
    rng = ctx.rng('tmpl', arg['i'])
    mdib_file = MDIB_FILES[arg['i'] % len(MDIB_FILES)]
    base = load_mdib_bytes(mdib_file)
    subs = ['update_parent+add_child', 'add_child+update_parent', 'update_parent+update_child', 'update_child+update_parent',
            'update_parent+remove_child', 'remove_child+update_parent',
            'add_child+add_child+update_parent', 'add_child+remove_child+update_parent', 'remove_child+add_child+update_parent',
            'update_parent+add_child+add_child', 'add_child+update_parent+add_child', 'remove_child+remove_child+update_parent',
            'add_child+add_child+add_child+update_parent']
    probe = ProviderMdib.from_string(base)
    channels = mdibops.catalog(probe)['channel'][:arg.get('max_channels', 3)]
    for parent in channels:
        for sub in subs:
            for iface in ('classic', 'entity'):
                mdib = ProviderMdib.from_string(base)
                mdib.instance_id = 1
                hist = History(mdib)
                children = sorted(d.Handle for d in mdib.descriptions.parent_handle.get(parent, []))
                need = sub.count('update_child') + sub.count('remove_child')
                if need > len(children):
                    continue
                old_children = children[:need]
                new_children = [f'tmpl_new_child{i}' for i in range(sub.count('add_child'))]
                ops = [{'op': 'descr_parent_child', 'sub': sub, 'parent': parent, 'child': (old_children + new_children)[0], 'old_children': old_children,
                        'new_children': new_children, 'iface': iface, 'seed': rng.randrange(1 << 30)}]
                # follow-up transactions on the same objects (versions must keep increasing)
                ops.append({'op': 'descr_update', 'handles': [parent], 'iface': iface, 'seed': rng.randrange(1 << 30)})
                for step, op in enumerate(ops):
                    before = hist.last
                    ap = mdibops.apply_op(mdib, op, {})
                    after = hist.record()
                    ctx.count(f'template.{sub}.{iface}')
                    if ap.outcome != 'ok':
                        ctx.count(f'template_raised.{sub}.{iface}.{ap.outcome}')
                    label = {'mdib_file': mdib_file, 'template': sub, 'iface': iface, 'step': step}
                    check_transition(ctx, before, after, ap, label)
                    for key, what, det in structural_problems(after):
                        ctx.witness(key + '.descr_parent_child.' + sub, what, {**det, 'op': op, **label})
                    for key, what, det in hist.problems:
                        ctx.witness(key + '.descr_parent_child.' + sub, what, {**det, 'op': op, **label})
                    hist.problems.clear()
                ctx.case(('tmpl', mdib_file, parent, sub, iface))
    # a handle with a history is removed, its re-creation is aborted once, then committed: all counters continue where they were
    if channels:
        for iface in ('classic', 'entity'):
            for abort_at in ('start', 'middle', 'end'):
                mdib = ProviderMdib.from_string(base)
                mdib.instance_id = 1
                hist = History(mdib)
                x = 'tmpl_recreated'
                mk = lambda **kw: {'op': 'descr_create', 'parent': channels[0], 'handle': x, 'with_state': True, 'iface': iface,  # noqa: E731
                                   'seed': rng.randrange(1 << 30), **kw}
                ops = [mk(), {'op': 'metric', 'handles': [x], 'iface': iface, 'seed': 1}, {'op': 'descr_update', 'handles': [x], 'iface': iface, 'seed': 2},
                       {'op': 'metric', 'handles': [x], 'iface': 'classic', 'seed': 3}, {'op': 'descr_delete', 'handle': x, 'iface': iface, 'seed': 4},
                       mk(recreate=True, abort_at=abort_at), mk(recreate=True), {'op': 'metric', 'handles': [x], 'iface': iface, 'seed': 5},
                       {'op': 'descr_delete', 'handle': x, 'iface': 'classic', 'seed': 6}, mk(recreate=True)]
                for step, op in enumerate(ops):
                    before = hist.last
                    ap = mdibops.apply_op(mdib, op, {})
                    after = hist.record()
                    ctx.count('template.recreate_after_aborted_recreate')
                    label = {'mdib_file': mdib_file, 'template': 'recreate_after_aborted_recreate', 'iface': iface, 'abort_at': abort_at, 'step': step}
                    check_transition(ctx, before, after, ap, label)
                    for key, what, det in structural_problems(after) + hist.problems:
                        ctx.witness(key + '.descr_create.recreate_after_abort', what, {**det, 'op': op, **label})
                    hist.problems.clear()
                ctx.case(('tmpl3', mdib_file, iface, abort_at))
    for handle_kind in ('metric', 'alert'):
        for order in ('descr_first', 'state_after_mutation'):
            mdib = ProviderMdib.from_string(base)
            mdib.instance_id = 1
            hist = History(mdib)
            pool = mdibops.catalog(mdib)[handle_kind]
            if not pool:
                continue
            op = {'op': 'descr_with_state', 'handle': pool[0], 'order': order, 'seed': rng.randrange(1 << 30), 'iface': 'classic'}
            before = hist.last
            ap = mdibops.apply_op(mdib, op, {})
            after = hist.record()
            ctx.count(f'template.descr_with_state.{order}')
            check_transition(ctx, before, after, ap, {'mdib_file': mdib_file})
            for key, what, det in structural_problems(after) + hist.problems:
                ctx.witness(key + '.descr_with_state', what, {**det, 'op': op, 'mdib_file': mdib_file})
            ctx.case(('tmpl2', mdib_file, handle_kind, order))


def run(ctx: core.Ctx):
    ctx.rule = ('seeded transaction histories over the 4 sample MDIBs (state / context / rt / descriptor create-update-delete-recreate / '
                'parent+child and descriptor+state in one transaction in both orders / location / empty / aborted / rejected; classic and entity '
                'interface); distinct = sequence of (op kind, sub kind, interface, abort point, #handles, outcome); non-trivial = at least one '
                'transaction committed.  Plus the explicit template enumeration.')
    n_hist, length = (320, 30) if ctx.quick else (9600, 60)
    jobs = [['w_histories', {'i': k, 'n': n_hist // 16, 'len': length}] for k in range(16)]
    jobs += [['w_templates', {'i': k, 'max_channels': 2 if ctx.quick else 50}] for k in range(4)]
    core.fanout(ctx, MODULE, 'dispatch', jobs)
    ctx.floor('transitions.with_changes', 2000)
    for kind in ('metric', 'alert', 'component', 'operational', 'context', 'rt', 'descr_update', 'descr_create', 'descr_delete', 'descr_parent_child',
                 'descr_with_state', 'location'):
        ctx.floor(f'op.{kind}', 20)


def dispatch(ctx: core.Ctx, job):
    globals()[job[0]](ctx, job[1])
