"""C02 - MDIB version counters are monotonic, gap-free and referentially consistent.

Provider-only workload: seeded transaction histories (vf.mdibops) on the four sample MDIBs through the classic and the entity
interface; after every transaction the canonical snapshot is diffed against the previous one and the arithmetic / structural
invariants of the statement are evaluated (History oracle + structural walker).
"""
from __future__ import annotations

import random

from .. import c02_ops, core, mdibops
from ..history import History, first_difference, snap_equal, tolerant_equal, versions_of
from ..mdibharness import MDIB_FILES, load_mdib_bytes

MODULE = 'vf.props.c02'


def structural_problems(s: dict) -> list[tuple[str, str, dict]]:
    out = []
    descr = s['descr']
    for kind, h in s['dup']:
        out.append((f'struct.duplicate_{kind}', f'two {kind} objects for one handle in the table', {'handle': h}))
    for h, c in s['states'].items():
        if h not in descr:
            out.append(('struct.state_without_descriptor', 'a state refers to a descriptor that does not exist', {'handle': h}))
        else:
            dv = versions_of(descr[h])[0]
            if versions_of(c)[0] != dv:
                out.append(('struct.state_descriptor_version', "state does not carry its descriptor's current DescriptorVersion",
                            {'handle': h, 'state.DescriptorVersion': versions_of(c)[0], 'descriptor.DescriptorVersion': dv}))
    for h, c in s['ctx'].items():
        dh = dict(c[1]).get('DescriptorHandle')
        if dh not in descr:
            out.append(('struct.ctx_state_without_descriptor', 'a context state refers to a descriptor that does not exist', {'handle': h}))
        else:
            dv = versions_of(descr[dh])[0]
            if versions_of(c)[0] != dv:
                out.append(('struct.ctx_state_descriptor_version', "context state does not carry its descriptor's current DescriptorVersion",
                            {'handle': h, 'descriptor': dh, 'state.DescriptorVersion': versions_of(c)[0], 'descriptor.DescriptorVersion': dv}))
    for h, c in descr.items():
        parent = dict(c[2:]).get('parent') if len(c) > 2 else None
        parent = c[2][1]
        if parent is not None and parent not in descr:
            out.append(('struct.orphan_descriptor', 'a non-root descriptor has no existing parent', {'handle': h, 'parent': parent}))
    for p in s.get('index_problems', []):
        out.append(('struct.index', 'a lookup disagrees with a scan of the table', {'problem': p}))
    return out


def check_transition(ctx, before: dict, after: dict, ap: mdibops.Applied, hist_label: dict):
    """C02 rules for one transaction.  Returns the set of changed entities (kind, handle)."""
    op = ap.op
    vb, va = before['version'][0], after['version'][0]
    changed = set()
    for kind, key in (('descr', 'descr'), ('state', 'states'), ('ctx', 'ctx')):
        b, a = before[key], after[key]
        for h in set(b) | set(a):
            if h not in b or h not in a or not tolerant_equal(b[h], a[h]):
                changed.add((kind, h))
    detail = {'op': op, 'outcome': ap.outcome, 'mdib_version': [vb, va], **hist_label}
    if ap.tb:
        detail['raised_at'] = ap.tb
    opk = op['op'] + ('.' + op['sub'] if op.get('sub') else '')
    if ap.expect in ('empty', 'abort', 'reject') or ap.outcome != 'ok':
        if va != vb:
            # (round 4: the operations of vf.c02_ops name the operation in the key, the older keys stay as they are)
            ctx.witness(f'mdibversion.changed_by_{ap.expect}' + (f'.{opk}' if c02_ops.is_own(op) else ''),
                        f'MdibVersion changed by an {ap.expect} transaction' + (f' ({ap.outcome})' if ap.expect == 'commit' else ''), detail)
        # (content equality after aborts is C03's business)
        return changed
    if changed and va != vb + 1:
        ctx.witness(f'mdibversion.not_plus_one.{opk}', f'a committed transaction with changes moved MdibVersion from {vb} to {va}', detail)
    if not changed and va != vb:
        ctx.witness(f'mdibversion.changed_without_change.{opk}', 'MdibVersion changed although nothing in the MDIB changed', detail)
    # version counters of changed entities must increase; unchanged entities keep their version
    for kind, h in changed:
        key = {'descr': 'descr', 'state': 'states', 'ctx': 'ctx'}[kind]
        if h in before[key] and h in after[key]:
            vidx = 0 if kind == 'descr' else 1
            ob, oa = versions_of(before[key][h]), versions_of(after[key][h])
            if oa[vidx] <= ob[vidx]:
                # the only change may be the referenced DescriptorVersion of a state: then StateVersion must still increase
                ctx.witness(f'version.not_increased.{kind}.{opk}', f'published content of a {kind} changed but its version counter did not increase',
                            {**detail, 'handle': h, 'versions': [ob, oa], 'diff': first_difference(before[key][h], after[key][h])})
    # nothing else changed: changed entities must be touched by the harness' own record or coupled by the documented rules
    allowed = {('descr', h) for h in ap.touched_descr} | {('state', h) for h in ap.touched_states | ap.touched_descr} | \
              {('ctx', h) for h in ap.touched_ctx}
    # context states of an updated / re-versioned context descriptor follow it
    for kind, h in list(changed):
        if kind == 'ctx':
            c = after['ctx'].get(h) or before['ctx'].get(h)
            if dict(c[1]).get('DescriptorHandle') in ap.touched_descr:
                allowed.add((kind, h))
    extra = changed - allowed
    if extra:
        ctx.witness(f'unexpected_change.{opk}', 'an entity changed although the transaction did not touch it or one it is coupled to',
                    {**detail, 'unexpected': sorted(extra)[:5],
                     'diff': [first_difference(before[{'descr': 'descr', 'state': 'states', 'ctx': 'ctx'}[k]].get(h),
                                               after[{'descr': 'descr', 'state': 'states', 'ctx': 'ctx'}[k]].get(h)) for k, h in sorted(extra)[:2]]})
    return changed


WEIGHTS = dict(mdibops.DEFAULT_WEIGHTS, ctx_delete=2, exotic=1)   # provider only: removal of context states through the entity interface included
P_OWN = 0.35   # share of the operations of a random history that come from vf.c02_ops


def _apply(mdib, op, memo):
    return c02_ops.apply_op(mdib, op, memo) if c02_ops.is_own(op) else mdibops.apply_op(mdib, op, memo)


def w_histories(ctx: core.Ctx, arg):
    from sdc11073.mdib import ProviderMdib
    rng = ctx.rng('hist', arg['i'])
    rng2 = ctx.rng('hist.own', arg['i'])   # own stream: the operations of vf.mdibops are drawn as before
    for hno in range(arg['n']):
        mdib_file = MDIB_FILES[(arg['i'] + hno) % len(MDIB_FILES)]
        mdib = ProviderMdib.from_string(load_mdib_bytes(mdib_file))
        mdib.instance_id = 1
        hist = History(mdib)
        memo = {}
        shapes = []
        label = {'mdib_file': mdib_file, 'history': [arg['i'], hno]}
        ops_done = []
        for step in range(arg['len']):
            op = None
            # own operations only after the fixed prelude of vf.mdibops (its shapes must meet the objects they were written for)
            if '_prelude' in memo and not memo['_prelude'] and rng2.random() < P_OWN:
                dead_ctx = sorted(h for (k, h) in hist.high_water if k == 'ctx' and h not in hist.last['ctx'])
                op = c02_ops.gen_op(rng2, mdib, memo, dead_ctx)
            if op is None:
                op = mdibops.gen_op(rng, mdib, memo, WEIGHTS)
            before = hist.last
            seen = sum(ctx.witness_counts.values())
            ap = _apply(mdib, op, memo)
            after = hist.record()
            if c02_ops.is_own(op):
                ctx.count(f'c2.{"skipped" if "skipped" in op else ap.expect + "." + ap.outcome.split(":")[0]}.{op["op"]}')
            ops_done.append(op)
            ctx.count(f'op.{op["op"]}')
            ctx.count(f'outcome.{ap.expect}.{ap.outcome.split(":")[0]}')
            if ap.expect == 'commit' and ap.outcome != 'ok':
                ctx.count(f'commit_raised.{op["op"]}.{ap.outcome}')
                ctx.extra.setdefault('commit_raised_samples', [])
                if len(ctx.extra['commit_raised_samples']) < 5:
                    ctx.extra['commit_raised_samples'].append({'op': op, 'outcome': ap.outcome, 'ex': repr(ap.exception)[:300], 'tb': ap.tb})
            changed = check_transition(ctx, before, after, ap, {**label, 'step': step})
            if changed:
                ctx.count('transitions.with_changes')
            old_problems = {(k, repr(d)) for k, _, d in structural_problems(before)}
            for key, what, det in structural_problems(after):
                if (key, repr(det)) in old_problems:
                    continue  # not introduced by this transaction (already reported, or present in the input file)
                ctx.witness(key + '.' + op['op'] + ('.' + op['sub'] if op.get('sub') else ''), what, {**det, 'op': op, **label, 'step': step})
            shapes.append(mdibops.op_shape(ap))
            ctx.case(('tr', mdib_file) + mdibops.op_shape(ap), nontrivial=bool(changed))
            if hist.problems:
                for key, what, det in hist.problems:
                    ctx.witness(key + '.' + op['op'] + ('.' + op['sub'] if op.get('sub') else ''), what, {**det, 'op': op, **label, 'step': step})
                hist.problems.clear()
            if sum(ctx.witness_counts.values()) > seen:
                # the MDIB is no longer in a legal state: what follows could not be judged (and would only produce follow-up witnesses)
                ctx.count('histories.ended_at_violation')
                break
        ctx.case(tuple(shapes), nontrivial=any(s[5] == 'ok' for s in shapes))
        if hno == 0 and arg['i'] == 0:
            ctx.sample({'mdib_file': mdib_file, 'ops': ops_done[:8], 'final_mdib_version': mdib.mdib_version})


def w_templates(ctx: core.Ctx, arg):
    """related objects in one transaction: {update parent, add child, remove child, update child, descriptor + its state} x order x
    interface, enumerated explicitly on every sample MDIB and every channel."""
    from sdc11073.mdib import ProviderMdib
    rng = ctx.rng('tmpl', arg['i'])
    mdib_file = MDIB_FILES[arg['i'] % len(MDIB_FILES)]
    base = load_mdib_bytes(mdib_file)
    subs = ['update_parent+add_child', 'add_child+update_parent', 'update_parent+update_child', 'update_child+update_parent',
            'update_parent+remove_child', 'remove_child+update_parent',
            'add_child+add_child+update_parent', 'add_child+remove_child+update_parent', 'remove_child+add_child+update_parent',
            'update_parent+add_child+add_child', 'add_child+update_parent+add_child', 'remove_child+remove_child+update_parent',
            'add_child+add_child+add_child+update_parent']
    probe = ProviderMdib.from_string(base)
    channels = mdibops.catalog(probe)['channel'][:arg.get('max_channels', 3)]
    for parent in channels:
        for sub in subs:
            for iface in ('classic', 'entity'):
                mdib = ProviderMdib.from_string(base)
                mdib.instance_id = 1
                hist = History(mdib)
                children = sorted(d.Handle for d in mdib.descriptions.parent_handle.get(parent, []))
                need = sub.count('update_child') + sub.count('remove_child')
                if need > len(children):
                    continue
                old_children = children[:need]
                new_children = [f'tmpl_new_child{i}' for i in range(sub.count('add_child'))]
                ops = [{'op': 'descr_parent_child', 'sub': sub, 'parent': parent, 'child': (old_children + new_children)[0], 'old_children': old_children,
                        'new_children': new_children, 'iface': iface, 'seed': rng.randrange(1 << 30)}]
                # follow-up transactions on the same objects (versions must keep increasing)
                ops.append({'op': 'descr_update', 'handles': [parent], 'iface': iface, 'seed': rng.randrange(1 << 30)})
                for step, op in enumerate(ops):
                    before = hist.last
                    ap = mdibops.apply_op(mdib, op, {})
                    after = hist.record()
                    ctx.count(f'template.{sub}.{iface}')
                    if ap.outcome != 'ok':
                        ctx.count(f'template_raised.{sub}.{iface}.{ap.outcome}')
                    label = {'mdib_file': mdib_file, 'template': sub, 'iface': iface, 'step': step}
                    check_transition(ctx, before, after, ap, label)
                    for key, what, det in structural_problems(after):
                        ctx.witness(key + '.descr_parent_child.' + sub, what, {**det, 'op': op, **label})
                    for key, what, det in hist.problems:
                        ctx.witness(key + '.descr_parent_child.' + sub, what, {**det, 'op': op, **label})
                    hist.problems.clear()
                ctx.case(('tmpl', mdib_file, parent, sub, iface))
    # a handle with a history is removed, its re-creation is aborted once, then committed: all counters continue where they were
    if channels:
        for iface in ('classic', 'entity'):
            for abort_at in ('start', 'middle', 'end'):
                mdib = ProviderMdib.from_string(base)
                mdib.instance_id = 1
                hist = History(mdib)
                x = 'tmpl_recreated'
                mk = lambda **kw: {'op': 'descr_create', 'parent': channels[0], 'handle': x, 'with_state': True, 'iface': iface,  # noqa: E731
                                   'seed': rng.randrange(1 << 30), **kw}
                ops = [mk(), {'op': 'metric', 'handles': [x], 'iface': iface, 'seed': 1}, {'op': 'descr_update', 'handles': [x], 'iface': iface, 'seed': 2},
                       {'op': 'metric', 'handles': [x], 'iface': 'classic', 'seed': 3}, {'op': 'descr_delete', 'handle': x, 'iface': iface, 'seed': 4},
                       mk(recreate=True, abort_at=abort_at), mk(recreate=True), {'op': 'metric', 'handles': [x], 'iface': iface, 'seed': 5},
                       {'op': 'descr_delete', 'handle': x, 'iface': 'classic', 'seed': 6}, mk(recreate=True)]
                for step, op in enumerate(ops):
                    before = hist.last
                    ap = mdibops.apply_op(mdib, op, {})
                    after = hist.record()
                    ctx.count('template.recreate_after_aborted_recreate')
                    label = {'mdib_file': mdib_file, 'template': 'recreate_after_aborted_recreate', 'iface': iface, 'abort_at': abort_at, 'step': step}
                    check_transition(ctx, before, after, ap, label)
                    for key, what, det in structural_problems(after) + hist.problems:
                        ctx.witness(key + '.descr_create.recreate_after_abort', what, {**det, 'op': op, **label})
                    hist.problems.clear()
                ctx.case(('tmpl3', mdib_file, iface, abort_at))
    for handle_kind in ('metric', 'alert'):
        for order in ('descr_first', 'state_after_mutation'):
            mdib = ProviderMdib.from_string(base)
            mdib.instance_id = 1
            hist = History(mdib)
            pool = mdibops.catalog(mdib)[handle_kind]
            if not pool:
                continue
            op = {'op': 'descr_with_state', 'handle': pool[0], 'order': order, 'seed': rng.randrange(1 << 30), 'iface': 'classic'}
            before = hist.last
            ap = mdibops.apply_op(mdib, op, {})
            after = hist.record()
            ctx.count(f'template.descr_with_state.{order}')
            check_transition(ctx, before, after, ap, {'mdib_file': mdib_file})
            for key, what, det in structural_problems(after) + hist.problems:
                ctx.witness(key + '.descr_with_state', what, {**det, 'op': op, 'mdib_file': mdib_file})
            ctx.case(('tmpl2', mdib_file, handle_kind, order))


# ------------------------------------------------------------------------------------------------
# round 4: directed cases for the operation kinds of vf.c02_ops (always executed, they guarantee the reach floors)
# ------------------------------------------------------------------------------------------------
def _fresh(base):
    from sdc11073.mdib import ProviderMdib
    mdib = ProviderMdib.from_string(base)
    mdib.instance_id = 1
    return mdib, History(mdib), {}


def _opk(op):
    return op['op'] + ('.' + op['sub'] if op.get('sub') else '')


def run_ops(ctx, mdib, hist, memo, ops, label, family):
    """a directed sequence on one MDIB; every transaction is judged by all monitors.  Returns the number of new witnesses."""
    start = sum(ctx.witness_counts.values())
    for step, op in enumerate(ops):
        op.setdefault('seed', 7919 * (step + 1) + len(family))
        op.setdefault('iface', 'classic')
        before = hist.last
        ap = _apply(mdib, op, memo)
        after = hist.record()
        opk = _opk(op)
        lab = {**label, 'family': family, 'step': step, 'sequence': [_opk(o) for o in ops[:step + 1]]}
        ctx.count(f'op.{op["op"]}')
        if 'skipped' in op:
            ctx.count(f'c2.skipped.{op["op"]}')
            ctx.count(f'directed.{family}.skipped.{label.get("case")}.{op["skipped"]}')
        else:
            if c02_ops.is_own(op):
                ctx.count(f'c2.{ap.expect}.{ap.outcome.split(":")[0]}.{op["op"]}')
            ctx.count(f'directed.{family}.{ap.expect}.{ap.outcome.split(":")[0]}')
        if ap.expect == 'commit' and ap.outcome != 'ok':
            ctx.count(f'commit_raised.{opk}.{ap.outcome}')
        changed = check_transition(ctx, before, after, ap, lab)
        if changed:
            ctx.count('transitions.with_changes')
        old_problems = {(k, repr(d)) for k, _, d in structural_problems(before)}
        for key, what, det in structural_problems(after):
            if (key, repr(det)) not in old_problems:
                ctx.witness(key + '.' + opk, what, {**det, 'op': op, **lab})
        for key, what, det in hist.problems:
            ctx.witness(key + '.' + opk, what, {**det, 'op': op, **lab})
        hist.problems.clear()
        ctx.case(('directed', family, label.get('mdib_file'), label.get('case')) + mdibops.op_shape(ap), nontrivial=bool(changed))
        if sum(ctx.witness_counts.values()) > start:
            break   # what follows a violation cannot be judged
    return sum(ctx.witness_counts.values()) - start


def _pick_targets(mdib):
    """handles the directed cases work on: a leaf metric with state below a channel below a vmd, and a context descriptor"""
    cat = mdibops.catalog(mdib)
    t = {'cat': cat}
    for ch in cat['channel']:
        kids = sorted(d.Handle for d in mdib.descriptions.parent_handle.get(ch, []) if d.Handle in cat['metric']
                      and mdib.states.descriptor_handle.get_one(d.Handle, allow_none=True) is not None)
        numeric = [k for k in kids if mdib.descriptions.handle.get_one(k).NODETYPE.localname == 'NumericMetricDescriptor']
        if numeric:   # (the re-creation of vf.mdibops creates numeric metrics)
            up = c02_ops.ancestors(mdib, ch)
            t.update(metric=numeric[0], metric2=kids[-1] if kids[-1] != numeric[0] else kids[0], channel=ch, vmd=up[0], mds=up[-1])
            break
    t['other_kinds'], t['ancestors'] = [], {}
    for name, pool in (('alert', cat['alert']), ('operation', cat['operational'])):
        for h in reversed(pool):   # (alert conditions / signals are listed after their alert system)
            up = c02_ops.ancestors(mdib, h)
            if up and up[0] in pool + cat['component'] and up[0] not in cat['mds'] and not mdib.descriptions.parent_handle.get(h):
                t['other_kinds'].append((name, h))
                t['ancestors'][h] = up
                break
    if cat['context']:
        t['ctx'] = cat['context'][-1]   # PatientContext in all sample files
        t['ctx_other'] = cat['context'][0]
        up = c02_ops.ancestors(mdib, t['ctx'])
        t.update(sc=up[0], ctx_mds=up[-1])
    return t


def _ctx_prelude(t):
    """the context descriptor of the directed cases owns two states (one associated)"""
    return [{'op': 'context', 'sub': 'new', 'descr': t['ctx'], 'new_handle': 'c2_p1'},
            {'op': 'context', 'sub': 'new_assoc', 'descr': t['ctx'], 'new_handle': 'c2_p2'}]


def _between(kind, h, t):
    """transactions that happen between reading an entity and writing it"""
    if kind == 'classic_update_x2':
        return [{'op': 'descr_update', 'handles': [h], 'iface': 'classic'}, {'op': 'descr_update', 'handles': [h], 'iface': 'classic'}]
    if kind == 'entity_update':
        return [{'op': 'descr_update', 'handles': [h], 'iface': 'entity'}]
    if kind == 'state_update':
        return [{'op': t['_state_op'], 'handles': [h], 'iface': 'classic'}] if t['_state_op'] != 'context' else \
               [{'op': 'context', 'sub': 'update2', 'descr': h, 'handles': ['c2_p1', 'c2_p2'], 'new_handle': 'unused'}]
    if kind == 'child_added':
        return [{'op': 'descr_create', 'parent': h, 'handle': 'c2_kid', 'with_state': True, 'iface': 'classic'}]
    if kind == 'ctx_state_added_and_removed':
        return [{'op': 'context', 'sub': 'new', 'descr': h, 'new_handle': 'c2_p3'},
                {'op': 'ctx_delete', 'sub': 'delete', 'descr': h, 'victims': ['c2_p1'], 'other': None, 'new_handle': 'unused', 'iface': 'entity'}]
    if kind == 'deleted':
        return [{'op': 'descr_delete', 'handle': h, 'iface': 'classic'}]
    if kind == 'deleted_and_recreated_updated':   # (numeric metric only)
        return [{'op': 'descr_delete', 'handle': h, 'iface': 'classic'},
                {'op': 'descr_create', 'parent': t['channel'], 'handle': h, 'with_state': True, 'recreate': True, 'iface': 'classic'},
                {'op': 'descr_update', 'handles': [h], 'iface': 'classic'}]
    raise KeyError(kind)


def _stale_cases(t):
    cases = []
    targets = []
    if 'metric' in t:
        targets += [('metric', t['metric'], 'metric'), ('channel', t['channel'], 'component')]
    cat = t['cat']
    if cat['alert']:
        targets.append(('alert', cat['alert'][-1], 'alert'))
    if cat['operational']:
        targets.append(('operation', cat['operational'][0], 'operational'))
    if 'ctx' in t:
        targets.append(('context', t['ctx'], 'context'))
    for name, h, state_op in targets:
        between = ['classic_update_x2', 'entity_update', 'state_update']
        if name == 'channel':
            between.append('child_added')
        if name == 'context':
            between += ['ctx_state_added_and_removed', 'deleted']
        if name == 'metric':
            between += ['deleted', 'deleted_and_recreated_updated']
        for b in between:
            if name == 'context':
                trs = [('descriptor', None), ('context', 'update_state'), ('context', 'new_state'), ('context', 'update_and_new')]
                if b == 'deleted':
                    trs = trs[:1]
            else:
                trs = [('descriptor', None)] + ([('state', None)] if b != 'deleted' else [])
            for tr, variant in trs:
                for refresh in ([False, True] if name == 'context' and tr == 'descriptor' and b != 'deleted' else [False]):
                    cases.append({'case': f'{name}.{b}.{tr}{"." + variant if variant else ""}{".refreshed" if refresh else ""}',
                                  'h': h, 'state_op': state_op, 'between': b, 'tr': tr, 'variant': variant, 'refresh': refresh,
                                  'multi': name == 'context'})
    return cases


def w_directed_stale(ctx: core.Ctx, arg):
    """an entity is read, other transactions re-version / change / delete the object, then the kept entity object is written (twice)"""
    mdib_file = MDIB_FILES[arg['i'] % len(MDIB_FILES)]
    base = load_mdib_bytes(mdib_file)
    mdib, _, _ = _fresh(base)
    t = _pick_targets(mdib)
    for n, c in enumerate(_stale_cases(t)):
        if arg.get('thin') and n % 2 != arg['i'] % 2:
            continue
        mdib, hist, memo = _fresh(base)
        t['_state_op'] = c['state_op']
        h = c['h']

        def write(keep, mutate, k=c, hh=h, n2=[0]):  # noqa: B006
            n2[0] += 1
            op = {'op': 'c2_write_stale', 'handle': hh, 'tr': k['tr'], 'keep': keep, 'refresh': k['refresh'], 'mutate': mutate,
                  'sub': f'{k["tr"]}_tr.' + ('multi' if k['multi'] else 'single') + ('.' + k['variant'] if k['variant'] else '')}
            if k['variant']:
                op.update(variant=k['variant'], new_handle=f'c2_stale_new{n2[0]}')
            return op
        ops = (_ctx_prelude(t) if c['multi'] else []) + [{'op': 'c2_stash', 'handle': h}] + _between(c['between'], h, t)
        ops += [write(True, 'both'), write(True, 'descr' if c['tr'] == 'descriptor' else 'state'), write(False, 'none')]
        if c['between'] != 'deleted' or c['tr'] == 'descriptor':
            ops.append({'op': 'descr_update', 'handles': [h], 'iface': 'classic'})
        run_ops(ctx, mdib, hist, memo, ops, {'mdib_file': mdib_file, 'case': c['case']}, 'stale_entity')


def _subtree_cases(t):
    cases = []
    if 'metric' in t:
        m, m2, ch = t['metric'], t['metric2'], t['channel']
        variants = [('update.classic', [['update', m, 'classic']]), ('update.entity', [['update', m, 'entity']]),
                    ('update_with_state', [['update_with_state', m]]), ('entity_with_state', [['entity_with_state', m]]),
                    ('add_child.classic', [['add_child', 'c2_new_kid', ch, 'classic']]), ('add_child.entity', [['add_child', 'c2_new_kid', ch, 'entity']]),
                    ('mixed', [['update', m, 'classic'], ['add_child', 'c2_new_kid', ch, 'entity']] + ([['update_with_state', m2]] if m2 != m else []))]
        for level, anc in (('parent', ch), ('grandparent', t['vmd']), ('root', t['mds'])):
            for vname, steps in variants:
                for order in ('touch_first', 'remove_first'):
                    cases.append({'case': f'single.{level}.{vname}.{order}', 'anc': anc, 'steps': steps, 'order': order, 'ctx': False})
            if anc != ch:   # the channel itself (a component with state) is touched, something above it is removed
                for order in ('touch_first', 'remove_first'):
                    cases.append({'case': f'single.{level}.update_channel_with_state.{order}', 'anc': anc, 'steps': [['update_with_state', ch], ['update', m, 'entity']],
                                  'order': order, 'ctx': False})
    for name, h in t.get('other_kinds', []):   # alert condition below its alert system, operation below its sco: the other update dictionaries
        up = t['ancestors'][h]
        for level, anc in [('parent', up[0])] + ([('root', up[-1])] if len(up) > 1 else []):
            for vname, steps in (('update.classic', [['update', h, 'classic']]), ('update_with_state', [['update_with_state', h]]),
                                 ('entity_with_state', [['entity_with_state', h]])):
                for order in ('touch_first', 'remove_first'):
                    cases.append({'case': f'single.{name}.{level}.{vname}.{order}', 'anc': anc, 'steps': steps, 'order': order, 'ctx': False})
    if 'ctx' in t:
        cd = t['ctx']
        variants = [('update.classic', [['update', cd, 'classic']]), ('update.entity', [['update', cd, 'entity']]),
                    ('ctx_entity.update_state', [['ctx_entity', cd, 'update_state', None]]),
                    ('ctx_entity.add_state', [['ctx_entity', cd, 'add_state', 'c2_p9']]),
                    ('ctx_entity.update_descr_only', [['ctx_entity', cd, 'update_descr_only', None]])]
        if t['ctx_other'] != cd:
            variants.append(('two_context_descriptors', [['update', t['ctx_other'], 'classic'], ['ctx_entity', cd, 'update_state', None]]))
        for level, anc in (('parent', t['sc']), ('root', t['ctx_mds'])):
            for vname, steps in variants:
                for order in ('touch_first', 'remove_first'):
                    cases.append({'case': f'context.{level}.{vname}.{order}', 'anc': anc, 'steps': steps, 'order': order, 'ctx': True})
    return cases


def w_directed_subtree(ctx: core.Ctx, arg):
    """descendants are touched and an ancestor is removed in ONE descriptor transaction, both orders; then the survivors are used again"""
    mdib_file = MDIB_FILES[arg['i'] % len(MDIB_FILES)]
    base = load_mdib_bytes(mdib_file)
    mdib, _, _ = _fresh(base)
    t = _pick_targets(mdib)
    for n, c in enumerate(_subtree_cases(t)):
        if arg.get('thin') and n % 2 != arg['i'] % 2:
            continue
        mdib, hist, memo = _fresh(base)
        op = {'op': 'c2_subtree', 'anc': c['anc'], 'steps': c['steps'], 'order': c['order'], 'remove_iface': ('classic', 'entity')[n % 2],
              'context': c['ctx']}
        op['sub'] = c02_ops.subtree_sub(op)
        ops = (_ctx_prelude(t) + [{'op': 'context', 'sub': 'new', 'descr': t['ctx_other'], 'new_handle': 'c2_p4'}] if c['ctx'] else []) + [op]
        if run_ops(ctx, mdib, hist, memo, ops, {'mdib_file': mdib_file, 'case': c['case']}, 'subtree'):
            continue
        # the parent of the removed descriptor (if any) is alive: it and a surviving state are used again
        follow = []
        cat = mdibops.catalog(mdib)
        if cat['vmd']:
            follow.append({'op': 'descr_update', 'handles': [cat['vmd'][0]], 'iface': 'entity'})
        if cat['metric']:
            follow.append({'op': 'metric', 'handles': cat['metric'][:2], 'iface': 'classic'})
        run_ops(ctx, mdib, hist, memo, follow, {'mdib_file': mdib_file, 'case': c['case'] + '.follow_up'}, 'subtree')


def w_directed_recreate(ctx: core.Ctx, arg):
    """handles that the MDIB has seen before come back: context states (4 ways), a context descriptor with its states, a channel with its metrics"""
    mdib_file = MDIB_FILES[arg['i'] % len(MDIB_FILES)]
    base = load_mdib_bytes(mdib_file)
    mdib, _, _ = _fresh(base)
    t = _pick_targets(mdib)
    label = {'mdib_file': mdib_file}
    ways = ['mk_context_state', 'add_state', 'entity_ctx_tr', 'entity_descr_tr']
    if 'ctx' in t:
        cd, other = t['ctx'], t['ctx_other']
        upd = lambda hs: {'op': 'context', 'sub': 'update2', 'descr': cd, 'handles': hs, 'new_handle': 'unused'}  # noqa: E731
        removals = {'ctx_delete': lambda v: {'op': 'ctx_delete', 'sub': 'delete', 'descr': cd, 'victims': [v], 'other': None, 'new_handle': 'unused', 'iface': 'entity'},
                    'descr_ctx_entity.remove_state': lambda v: {'op': 'descr_ctx_entity', 'sub': 'remove_state', 'descr': cd, 'state': v, 'new_handle': 'unused',
                                                                'iface': 'entity'}}
        for rname, rm in removals.items():
            for wi, way in enumerate(ways):
                mdib, hist, memo = _fresh(base)
                again = ways[(wi + 1) % len(ways)]
                ops = _ctx_prelude(t) + [upd(['c2_p1', 'c2_p2']), upd(['c2_p1']), upd(['c2_p1']), rm('c2_p1'),
                                         {'op': 'c2_ctx_recreate', 'sub': way, 'descr': cd, 'handle': 'c2_p1', 'abort_at': 'end'},   # aborted once
                                         {'op': 'c2_ctx_recreate', 'sub': way, 'descr': cd, 'handle': 'c2_p1'},
                                         upd(['c2_p1']), rm('c2_p1'),
                                         {'op': 'c2_ctx_recreate', 'sub': again, 'descr': other, 'handle': 'c2_p1'},   # now below the other descriptor
                                         {'op': 'context', 'sub': 'update', 'descr': other, 'handles': ['c2_p1'], 'new_handle': 'unused'}]
                run_ops(ctx, mdib, hist, memo, ops, {**label, 'case': f'ctx_state.{rname}.{way}'}, 'recreate')
        # a context descriptor and its states, created / updated / removed / created again (both interfaces, also mixed)
        for i1 in ('classic', 'entity'):
            for i2 in ('classic', 'entity'):
                mdib, hist, memo = _fresh(base)
                mk = lambda iface, sub, **kw: {'op': 'c2_ctxdescr_create', 'sub': sub, 'parent': t['sc'], 'handle': 'c2_ens', 'states': ['c2_ens.s0', 'c2_ens.s1'],  # noqa: E731
                                               'iface': iface, **kw}
                upd2 = {'op': 'context', 'sub': 'update2', 'descr': 'c2_ens', 'handles': ['c2_ens.s0', 'c2_ens.s1'], 'new_handle': 'unused'}
                ops = [mk(i1, 'new'), upd2, dict(upd2), {'op': 'descr_update', 'handles': ['c2_ens'], 'iface': i2}, dict(upd2, handles=['c2_ens.s0']),
                       {'op': 'descr_delete', 'handle': 'c2_ens', 'iface': i2}, mk(i2, 'again', abort_at='middle'), mk(i2, 'again'), dict(upd2),
                       {'op': 'descr_delete', 'handle': 'c2_ens', 'iface': i1},
                       {'op': 'c2_ctx_recreate', 'sub': 'mk_context_state', 'descr': cd, 'handle': 'c2_ens.s1'}, mk(i1, 'again', states=['c2_ens.s0'])]
                run_ops(ctx, mdib, hist, memo, ops, {**label, 'case': f'ctx_descriptor.{i1}.{i2}'}, 'recreate')
    if 'vmd' in t:
        for iface in ('classic', 'entity'):
            mdib, hist, memo = _fresh(base)
            mk = lambda sub, **kw: {'op': 'c2_tree_create', 'sub': sub, 'vmd': t['vmd'], 'channel': 'c2_ch', 'metrics': ['c2_ch.m0', 'c2_ch.m1'], **kw}  # noqa: E731
            ops = [mk('new'), {'op': 'metric', 'handles': ['c2_ch.m0', 'c2_ch.m1'], 'iface': iface}, {'op': 'descr_update', 'handles': ['c2_ch', 'c2_ch.m0'], 'iface': iface},
                   {'op': 'component', 'handles': ['c2_ch'], 'iface': iface}, {'op': 'descr_delete', 'handle': 'c2_ch', 'iface': iface},
                   mk('again', abort_at='middle'), mk('again', abort_at='end'), mk('again'), {'op': 'metric', 'handles': ['c2_ch.m1'], 'iface': iface},
                   {'op': 'descr_delete', 'handle': 'c2_ch.m1', 'iface': iface}, {'op': 'descr_delete', 'handle': 'c2_ch', 'iface': 'classic'},
                   mk('again'), {'op': 'descr_update', 'handles': ['c2_ch.m1'], 'iface': iface}]
            run_ops(ctx, mdib, hist, memo, ops, {**label, 'case': f'tree.{iface}'}, 'recreate')


def w_directed_misc(ctx: core.Ctx, arg):
    """get_descriptor + get_state for every kind of single state descriptor; write_entities in arbitrary order"""
    mdib_file = MDIB_FILES[arg['i'] % len(MDIB_FILES)]
    base = load_mdib_bytes(mdib_file)
    mdib, hist, memo = _fresh(base)
    t = _pick_targets(mdib)
    cat = t['cat']
    label = {'mdib_file': mdib_file}
    ops = []
    for kind, pool in (('component', [h for h in (t.get('channel'), t.get('vmd')) if h]), ('operational', cat['operational'][:1]), ('rt', cat['rt'][:1]),
                       ('alert', cat['alert'][:1] + cat['alert'][-1:]), ('metric', cat['metric'][:1])):
        for h in pool:
            for order, iface in (('descr_first', 'classic'), ('state_after_mutation', 'classic'), ('descr_first', 'entity')):
                ops.append({'op': 'c2_descr_state', 'sub': f'{kind}.' + ('entity' if iface == 'entity' else order), 'handle': h, 'order': order, 'iface': iface})
            ops.append({'op': kind, 'handles': [h], 'iface': 'classic'})
    run_ops(ctx, mdib, hist, memo, ops, {**label, 'case': 'descr_state'}, 'descr_state')
    if 'metric' in t:
        # several related descriptors in ONE classic transaction (the shapes of vf.mdibops 'descr_multi', here not left to the random draw)
        m, m2, ch, vmd = t['metric'], t['metric2'], t['channel'], t['vmd']
        multi = {'two_children': [['create', 'c2_a', ch], ['create', 'c2_b', ch]],
                 'child_then_parent': [['delete', m], ['delete', ch]], 'parent_then_child': [['delete', ch], ['delete', m]],
                 'child_then_grandparent': [['delete', m], ['delete', vmd]], 'grandparent_then_child': [['delete', vmd], ['delete', m]],
                 'create_then_delete_parent': [['create', 'c2_a', ch], ['delete', ch]],
                 'create_and_delete_sibling': [['create', 'c2_a', ch], ['delete', m]], 'recreate_in_one': [['delete', m], ['create', m, ch]]}
        if m2 != m:
            multi['delete_two_siblings'] = [['delete', m], ['delete', m2]]
            multi['create_and_delete_sibling#2'] = [['delete', m2], ['create', 'c2_a', ch]]
        for sub, steps in multi.items():
            mdib, hist, memo = _fresh(base)
            ops = [{'op': 'descr_multi', 'sub': sub.split('#')[0], 'steps': steps, 'iface': 'classic'}]
            ops.append({'op': 'descr_update', 'handles': [[v for v in cat['vmd'] if v != vmd][-1]], 'iface': 'entity'})
            run_ops(ctx, mdib, hist, memo, ops, {**label, 'case': f'descr_multi.{sub}'}, 'descr_multi')
        mdib, hist, memo = _fresh(base)
        fam = [t['metric'], t['channel'], t['vmd']] + ([t['ctx']] if 'ctx' in t else []) + ([t['metric2']] if t['metric2'] != t['metric'] else [])
        rng = ctx.rng('we', arg['i'])
        ops = _ctx_prelude(t) if 'ctx' in t else []
        for _ in range(4):
            hs = fam[:]
            rng.shuffle(hs)
            ops.append({'op': 'c2_write_entities', 'sub': 'descriptor', 'handles': hs})
        ops.append({'op': 'c2_write_entities', 'sub': 'descriptor', 'handles': fam[:2], 'abort_at': 'end'})
        for kind in ('metric', 'alert', 'component', 'operational'):
            if len(cat[kind]) >= 2:
                ops.append({'op': 'c2_write_entities', 'sub': 'state', 'kind': kind, 'handles': cat[kind][:3]})
        run_ops(ctx, mdib, hist, memo, ops, {**label, 'case': 'write_entities'}, 'write_entities')


def w_writers(ctx: core.Ctx, arg):  # noqa: C901, PLR0915
    """two / four writer threads.  The statement is decided from inside every commit (observable ``transaction``, fired under the mdib lock)
    and at the end: n commits with changes = MdibVersion + n, every intermediate version seen exactly once, counters never fall."""
    import threading
    import time

    from sdc11073 import observableproperties as properties
    base = load_mdib_bytes('mdib_tns.xml')
    pairs = [('metric', 'metric'), ('metric', 'descriptor'), ('descriptor', 'context'), ('alert', 'component'), ('context', 'metric'),
             ('descriptor', 'descriptor')]
    rng = ctx.rng('writers')

    def body(mdib, kind, cat, slot, seed):
        """one transaction body of the given kind on objects that only this writer uses"""
        if kind == 'descriptor':
            return {'op': 'descr_update', 'handles': [cat['metric'][slot]], 'iface': 'classic', 'seed': seed}
        if kind == 'context':
            return {'op': 'context', 'sub': 'new', 'descr': cat['context'][0], 'new_handle': f'w{slot}_{seed}', 'iface': 'classic', 'seed': seed}
        return {'op': kind, 'handles': [cat[kind][slot]], 'iface': 'classic', 'seed': seed}

    def judge(mdib, hist, seen, v0, n_commits, label, key):
        final = hist.record()
        hist_versions = sorted(seen)
        if mdib.mdib_version != v0 + n_commits or hist_versions != list(range(v0 + 1, v0 + n_commits + 1)):
            ctx.witness(f'mdibversion.concurrent_writers.{key}', f'{n_commits} transactions with changes were committed by concurrent writers, '
                        f'MdibVersion went from {v0} to {mdib.mdib_version}', {**label, 'versions_seen_inside_the_commits': hist_versions})
        for k, what, det in structural_problems(final):
            ctx.witness(f'{k}.concurrent_writers.{key}', what, {**det, **label})
        for k, what, det in hist.problems:
            ctx.witness(f'{k}.concurrent_writers.{key}', what, {**det, **label})

    # (a) directed overlap: B starts its transaction while A is inside the body of its own
    for ka, kb in pairs:
        mdib, hist, _ = _fresh(base)
        cat = mdibops.catalog(mdib)
        v0 = mdib.mdib_version
        seen = []

        def on_commit(_result, hist=hist, seen=seen, mdib=mdib):
            seen.append(mdib.mdib_version)
            hist.record()
        properties.strongbind(mdib, transaction=on_commit)
        a_inside, b_trying = threading.Event(), threading.Event()
        op_a, op_b = body(mdib, ka, cat, 0, 11), body(mdib, kb, cat, 1, 12)
        outcomes = {}

        def run_a(mdib=mdib, op=op_a, outcomes=outcomes):
            # the body of A signals from inside the open transaction: pre_commit_handler runs inside the transaction, before the commit
            def pre_commit(_mdib, _tr):
                a_inside.set()
                b_trying.wait(20)      # safety net only, normally returns at once
                time.sleep(0.05)       # gives B the time to run into the lock (sensitivity only: the verdict never depends on it)
            mdib.pre_commit_handler = pre_commit
            outcomes['a'] = mdibops.apply_op(mdib, op, {}).outcome

        def run_b(mdib=mdib, op=op_b, outcomes=outcomes):
            a_inside.wait(20)
            b_trying.set()
            outcomes['b'] = mdibops.apply_op(mdib, op, {}).outcome
        ta, tb = threading.Thread(target=run_a, daemon=True), threading.Thread(target=run_b, daemon=True)
        ta.start()
        tb.start()
        ta.join(60)
        tb.join(60)
        if ta.is_alive() or tb.is_alive() or outcomes.get('a') != 'ok' or outcomes.get('b') != 'ok':
            ctx.not_decided(f'writer threads did not finish / raised ({ka},{kb}): {outcomes}')
            continue
        ctx.count('writers.overlap')
        judge(mdib, hist, seen, v0, 2, {'kinds': [ka, kb], 'case': 'overlap'}, 'overlap')
        ctx.case(('writers', 'overlap', ka, kb))
    # (c) "at all times": a reader that takes the mdib lock in the middle of a commit (descriptor already written / removed, its state not yet)
    #     must not get it before the commit is complete.  The writer stops at the hook for a moment (sensitivity only: on a correct tree
    #     the reader is blocked for the whole commit whatever the timing is, and then sees the committed MDIB).
    from ..history import snap
    for target, hook_name, opname in (('channel', 'update_object_no_lock', 'descr_update'), ('metric', 'update_object_no_lock', 'descr_update'),
                                      ('context', 'update_object_no_lock', 'descr_update'), ('channel', 'remove_object', 'descr_delete'),
                                      ('context', 'remove_object', 'descr_delete')):
        mdib, hist, _ = _fresh(base)
        cat = mdibops.catalog(mdib)
        h = cat[target][-1]
        if target == 'context' and not mdib.context_states.descriptor_handle.get(h):
            continue
        reader_go, reader_done = threading.Event(), threading.Event()
        found = []
        orig = getattr(mdib.descriptions, hook_name)

        def hooked(*a, orig=orig, reader_go=reader_go, reader_done=reader_done, **kw):
            r = orig(*a, **kw)
            if not reader_go.is_set():
                reader_go.set()
                reader_done.wait(0.2)
            return r
        setattr(mdib.descriptions, hook_name, hooked)

        def reader(mdib=mdib, found=found, reader_go=reader_go, reader_done=reader_done):
            reader_go.wait(20)
            with mdib.mdib_lock:
                found.append((mdib.mdib_version, structural_problems(snap(mdib))))
            reader_done.set()
        th = threading.Thread(target=reader, daemon=True)
        th.start()
        v_before = mdib.mdib_version
        op = {'op': opname, 'handles': [h], 'handle': h, 'iface': 'classic', 'seed': 5}
        out = mdibops.apply_op(mdib, op, {}).outcome
        th.join(60)
        if th.is_alive() or out != 'ok' or not found:
            ctx.not_decided(f'reader in the middle of a commit did not finish ({target}, {opname}): {out}')
            continue
        ctx.count('writers.reader_mid_commit')
        for k, what, det in found[0][1]:
            ctx.witness(f'{k}.reader_mid_commit.{opname}', what + ' (seen by a reader that holds the mdib lock while a commit is in progress)',
                        {**det, 'target': h, 'mdib_version_seen': found[0][0]})
        judge(mdib, hist, [mdib.mdib_version], v_before, 1, {'case': 'reader_mid_commit', 'target': h}, 'reader_mid_commit')
        ctx.case(('writers', 'reader', target, opname))
    # (b) free running: 4 writers, each with its own objects
    for rnd in range(arg['rounds']):
        mdib, hist, _ = _fresh(base)
        cat = mdibops.catalog(mdib)
        v0 = mdib.mdib_version
        seen = []

        def on_commit2(_result, hist=hist, seen=seen, mdib=mdib):
            seen.append(mdib.mdib_version)
            hist.record()
        properties.strongbind(mdib, transaction=on_commit2)
        plans = []
        for w in range(4):
            kinds = [rng.choice(['metric', 'metric', 'alert', 'component', 'descriptor', 'context']) for _ in range(arg['per_writer'])]
            plans.append([body(mdib, k, cat, w, rng.randrange(1 << 30)) for k in kinds])
        bad = []
        go = threading.Barrier(4)

        def writer(plan, mdib=mdib, bad=bad, go=go):
            go.wait(20)
            for op in plan:
                out = mdibops.apply_op(mdib, op, {}).outcome
                if out != 'ok':
                    bad.append((op, out))
        threads = [threading.Thread(target=writer, args=(p,), daemon=True) for p in plans]
        for th in threads:
            th.start()
        for th in threads:
            th.join(120)
        if any(th.is_alive() for th in threads) or bad:
            ctx.not_decided(f'free running writers did not finish / raised: {bad[:2]}')
            continue
        n = sum(len(p) for p in plans)
        ctx.count('writers.free_running_commits', n)
        judge(mdib, hist, seen, v0, n, {'case': 'free_running', 'round': rnd}, 'free_running')
        ctx.case(('writers', 'free', tuple(tuple(o['op'] for o in p) for p in plans)))


def run(ctx: core.Ctx):
    ctx.rule = ('seeded transaction histories over the 4 sample MDIBs (state / context / rt / descriptor create-update-delete-recreate / '
                'parent+child and descriptor+state in one transaction in both orders / location / empty / aborted / rejected; classic and entity '
                'interface; after the prelude a third of the operations from vf.c02_ops: kept entities written later in descriptor / context / state transactions, '
                'descendants touched + ancestor removed in one transaction, context state handles / context descriptors / channel subtrees created '
                'again, get_descriptor+get_state for every state kind, write_entities); a history ends at its first violation; '
                'distinct = sequence of (op kind, sub kind, interface, abort point, #handles, outcome); non-trivial = at least one '
                'transaction committed.  Plus the explicit template enumeration and the directed cases of round 4 (every case on a fresh MDIB), '
                'plus writer threads (overlapping and free running).')
    ctx.assumptions += ['callers that pass adjust_version_counter=False / adjust_*_version=False supply the versions themselves: not exercised',
                        '"at all times" is decided after every transaction and from inside every commit of the writer-thread cases (under the mdib lock)']
    n_hist, length = (320, 30) if ctx.quick else (9600, 60)
    jobs = [['w_histories', {'i': k, 'n': n_hist // 16, 'len': length}] for k in range(16)]
    jobs += [['w_templates', {'i': k, 'max_channels': 2 if ctx.quick else 50}] for k in range(4)]
    for k in range(4):
        thin = ctx.quick and k < 2   # the two 70041 files have the same structure: in the quick tier each runs every second case
        jobs += [['w_directed_stale', {'i': k, 'thin': thin}], ['w_directed_subtree', {'i': k, 'thin': thin}],
                 ['w_directed_recreate', {'i': k}], ['w_directed_misc', {'i': k}]]
    jobs.append(['w_writers', {'rounds': 3 if ctx.quick else 40, 'per_writer': 12}])
    core.fanout(ctx, MODULE, 'dispatch', jobs)
    ctx.floor('transitions.with_changes', 2000)
    for kind in ('metric', 'alert', 'component', 'operational', 'context', 'rt', 'descr_update', 'descr_create', 'descr_delete', 'descr_parent_child',
                 'descr_with_state', 'location'):
        ctx.floor(f'op.{kind}', 20)
    # round 4: every own operation kind was committed often enough, every directed family ran, the writers overlapped
    for kind, n in (('c2_write_stale', 150), ('c2_subtree', 60), ('c2_ctx_recreate', 40), ('c2_tree_create', 10), ('c2_ctxdescr_create', 10),
                    ('c2_descr_state', 30), ('c2_write_entities', 20)):
        ctx.floor(f'c2.commit.ok.{kind}', n)
    for family, n in (('stale_entity', 300), ('subtree', 100), ('recreate', 200), ('descr_state', 40), ('write_entities', 20), ('descr_multi', 40)):
        ctx.floor(f'directed.{family}.commit.ok', n)
    ctx.floor('writers.overlap', 6)
    ctx.floor('writers.reader_mid_commit', 5)
    ctx.floor('writers.free_running_commits', 100)


def dispatch(ctx: core.Ctx, job):
    globals()[job[0]](ctx, job[1])
