"""C16 - location scopes round-trip; location filtering tolerates foreign scopes.

Three monitors on the real ``sdc11073.location.SdcLocation`` / ``provider.scopesfactory.mk_scopes``:

A  round trip     from_scope_string(loc.scope_string) is the same location (7 attributes compared by the harness, not by __eq__)
B  containment    the sdc.ctxt.loc scope mk_scopes publishes for a ProviderMdib whose location was set with mdib.xtra.set_location
                  is inside the location, inside all 2^6 generalisations, and inside no location differing in a specified element
C  totality       filter_services_inside / _scope_string_matches return a bool / list for ANY scope string
D  variants       (round 4) every other way a location gets into a ProviderMdib: several MDS / location context descriptors with
                  location_context_descriptor_handle, validators, states that are already in the MDIB file (arbitrary identification roots,
                  several identifications, not associated states next to the associated one), from_sdc_location + add_state, entity.new_state,
                  LocationDetail None - judged as an equivalence: inside(F)  <=>  F encloses one of the associated locations
E  wire           (round 4) real SdcProvider.set_location / publish -> scopes factory -> real WSDiscovery Hello / ProbeMatches datagram -> real
                  consumer-side WSDiscovery -> search_sdc_device_services_in_location / filter_services_inside (vf/c16_wire.py), locations
                  updated several times, publish_now=False, foreign devices with hostile scopes in the same table
"""
from __future__ import annotations

import traceback
import warnings

from .. import c16_wire, core, urigen

MODULE = 'vf.props.c16'
ELEMENTS = ('fac', 'bldng', 'flr', 'poc', 'rm', 'bed')
DEFAULT_ROOT = 'sdc.ctxt.loc.detail'

MDIB_XML = b'''<?xml version="1.0" encoding="UTF-8"?>
<msg:GetMdibResponse xmlns:msg="http://standards.ieee.org/downloads/11073/11073-10207-2017/message" xmlns:pm="http://standards.ieee.org/downloads/11073/11073-10207-2017/participant" xmlns:ext="http://standards.ieee.org/downloads/11073/11073-10207-2017/extension" xmlns:xsi="http://www.w3.org/2001/XMLSchema-instance" MdibVersion="1" SequenceId="urn:uuid:00000000-0000-0000-0000-000000000001">
<msg:Mdib MdibVersion="1" SequenceId="urn:uuid:00000000-0000-0000-0000-000000000001">
<pm:MdDescription DescriptionVersion="0">
<pm:Mds Handle="mds0" DescriptorVersion="0" SafetyClassification="MedA">
<pm:Type Code="130535"><pm:ConceptDescription Lang="en-US">x</pm:ConceptDescription></pm:Type>
<pm:SystemContext Handle="sc" DescriptorVersion="0" SafetyClassification="MedA">
<pm:PatientContext Handle="pc" DescriptorVersion="0" SafetyClassification="MedA"/>
<pm:LocationContext Handle="lc" DescriptorVersion="0" SafetyClassification="MedA"/>
<pm:EnsembleContext Handle="ec" DescriptorVersion="0" SafetyClassification="MedA"/>
<pm:OperatorContext Handle="oc" DescriptorVersion="0" SafetyClassification="MedA"/>
<pm:WorkflowContext Handle="wc" DescriptorVersion="0" SafetyClassification="MedA"/>
<pm:MeansContext Handle="mc" DescriptorVersion="0" SafetyClassification="MedA"/>
</pm:SystemContext>
</pm:Mds>
</pm:MdDescription>
<pm:MdState StateVersion="0">
<pm:State xsi:type="pm:MdsState" DescriptorHandle="mds0" StateVersion="0"/>
<pm:State xsi:type="pm:SystemContextState" DescriptorHandle="sc" StateVersion="0"/>
</pm:MdState>
</msg:Mdib>
</msg:GetMdibResponse>'''


def _mk_mdib():
    from sdc11073.definitions_sdc import SdcV1Definitions  # noqa: F401  registers the protocol
    from sdc11073.mdib import ProviderMdib
    return ProviderMdib.from_string(MDIB_XML)


def _attrs(loc):
    """the seven values that make a location - read directly, independent of SdcLocation.__eq__."""
    return tuple(getattr(loc, e) for e in ELEMENTS) + (loc._root,)


def _mk_loc(values: dict, root=DEFAULT_ROOT):
    from sdc11073.location import SdcLocation
    return SdcLocation(root=root, **values)


def _innermost(exc):
    tb = traceback.extract_tb(exc.__traceback__)
    fr = tb[-1]
    return fr.filename.replace('\\', '/').rsplit('/', 1)[-1], fr.name, (fr.line or '').strip()


def _classify_raise(exc) -> str:
    """mechanism key part for an exception out of the location code: where it was raised, never the input."""
    fname, func, line = _innermost(exc)
    if fname == 'location.py' and func == 'from_scope_string' and 'split' in line:
        return 'path_segments'
    frames = [f.name for f in traceback.extract_tb(exc.__traceback__)]
    if 'urlsplit' in frames:
        return 'urlsplit'
    if fname == 'parse.py':
        return 'urllib.' + func
    return f'{type(exc).__name__}.{fname}.{func}'


def _random_values(rng, pool, mask=None):
    if mask is None:
        mask = rng.choice([63, 63, rng.randrange(64), rng.randrange(64), rng.randrange(1, 64)])
    return {e: urigen.pick_value(rng, pool) for i, e in enumerate(ELEMENTS) if mask >> i & 1}, mask


def _random_values_xml(rng, pool, mask=None):
    """like _random_values, but every value can be written to an XML document: a running provider reports its states as XML"""
    values, mask = _random_values(rng, pool, mask)
    for e in values:
        while not c16_wire.xml_ok(values[e]):
            values[e] = urigen.pick_value(rng, pool)
    return values, mask


# =============================================================================================
# A  round trip
# =============================================================================================
ROOTS_PLAIN = ['root', 'urn:oid:1.2.840.10004', 'biceps.uri.unk', 'a b', 'ä中\U0001F600', 'a%2Fb', 'a?b', 'a#b', 'a&b=c', '%', 'x' * 500, 'sdc.ctxt.loc',
               '1.2.3', 'a;b', 'a:b', '[::1]', 'a+b']
ROOTS_SLASH = ['http://example.com/loc', 'a/b', '/a', 'a/', 'urn:x/y/z', '/']


def w_roundtrip(ctx: core.Ctx, arg):
    warnings.simplefilter('ignore')
    from sdc11073.location import SdcLocation
    rng = ctx.rng('rt', arg['i'])
    pool = urigen.hyp_text_pool(arg['pool'], ctx.seed * 1000 + arg['i'], max_size=40)
    pool += urigen.hyp_text_pool(max(arg['pool'] // 20, 5), ctx.seed * 1000 + 500 + arg['i'], max_size=600)
    ctx.count('roundtrip.pool_values', len(pool))
    for case in range(arg['n']):
        if case < 64 * 3:  # directed: every present/absent combination, plain / reserved / hypothesis values
            mask = case % 64
            src = [['HOSP1', 'B', '3', 'CU1', 'R7', 'Bed42'], ['a/b', 'c?d', 'e#f', 'g&h=i', 'j+k l', '%2F;'], None][case // 64]
            values = {e: (src[i] if src else rng.choice(pool)) for i, e in enumerate(ELEMENTS) if mask >> i & 1}
        elif case < 64 * 3 + len(urigen.DIRECTED_VALUES):  # every directed value alone in one element
            v = urigen.DIRECTED_VALUES[case - 64 * 3]
            e = ELEMENTS[case % 6]
            values, mask = {e: v}, 1 << (case % 6)
        else:
            values, mask = _random_values(rng, pool)
        r = rng.random()
        droot = case - 400
        if 0 <= droot < len(ROOTS_PLAIN):  # directed roots, always executed
            root, rkind = ROOTS_PLAIN[droot], 'custom_root'
        elif 0 <= droot - len(ROOTS_PLAIN) < len(ROOTS_SLASH):
            root, rkind = ROOTS_SLASH[droot - len(ROOTS_PLAIN)], 'root_with_slash'
        elif r < 0.80:
            root, rkind = DEFAULT_ROOT, 'default_root'
        elif r < 0.93:
            root = rng.choice(ROOTS_PLAIN) if rng.random() < 0.6 else rng.choice(pool).replace('/', '_')
            rkind = 'custom_root'
        else:
            root = rng.choice(ROOTS_SLASH) if rng.random() < 0.7 else rng.choice(pool) + '/' + rng.choice(pool)
            rkind = 'root_with_slash'
        loc = _mk_loc(values, root)
        shape = (mask, rkind, urigen.coarse_classes(''.join(values.values())), urigen.coarse_classes(root) if rkind != 'default_root' else '')
        ctx.count(f'roundtrip.evaluated.{rkind}')
        ctx.case(('rt',) + shape)
        if case == 200 or (case == 0 and arg['i'] == 0):
            ctx.sample({'kind': 'round trip', 'elements': values, 'root': root})
        try:
            scope = loc.scope_string
        except Exception as ex:  # noqa: BLE001
            ctx.witness(f'roundtrip.scope_string_raises.{rkind}', f'scope_string raised {type(ex).__name__}: {ex}', {'elements': values, 'root': root})
            continue
        try:
            back = SdcLocation.from_scope_string(scope)
        except Exception as ex:  # noqa: BLE001
            ctx.witness(f'roundtrip.raises.{rkind}', f'from_scope_string(loc.scope_string) raised {type(ex).__name__}: {ex}',
                        {'elements': values, 'root': root, 'scope_string': scope, 'raised_in': _innermost(ex)})
            continue
        if _attrs(back) != _attrs(loc):
            diff = [n for n, a, b in zip(ELEMENTS + ('root',), _attrs(loc), _attrs(back)) if a != b]
            what = 'root' if diff == ['root'] else 'element'
            ctx.witness(f'roundtrip.differs.{what}.{rkind}', f'from_scope_string(loc.scope_string) differs from loc in {diff}',
                        {'elements': values, 'root': root, 'scope_string': scope, 'parsed_back': dict(zip(ELEMENTS + ('root',), _attrs(back)))})
            continue
        ctx.count('roundtrip.identical')
        if case % 5 == 1:  # the location is its CURRENT attribute values: built by assignment, changed after its scope string was read once
            try:
                built = SdcLocation()
                for e, v in values.items():
                    setattr(built, e, v)
                built.root = root  # (deprecated) setter
                other = {e: urigen.pick_value(rng, pool) for e in ELEMENTS if rng.random() < 0.5}
                changed = _mk_loc(values, root)
                changed.scope_string  # noqa: B018  read once before the change
                for e in ELEMENTS:
                    setattr(changed, e, other.get(e))
                ctx.count('roundtrip.after_attribute_change')
                for name, obj, want in (('assignment', built, _attrs(loc)), ('change', changed, tuple(other.get(e) for e in ELEMENTS) + (root,))):
                    got = _attrs(SdcLocation.from_scope_string(obj.scope_string))
                    if got != want:
                        ctx.witness(f'roundtrip.differs.after_{name}', f'the scope string of a location whose attributes were set by {name} does not '
                                    'parse back to its current attribute values', {'expected': dict(zip(ELEMENTS + ('root',), want)),
                                                                                   'parsed_back': dict(zip(ELEMENTS + ('root',), got))})
            except Exception as ex:  # noqa: BLE001
                ctx.witness(f'roundtrip.raises.{rkind}', f'scope string / parse of a location built by assignment raised {type(ex).__name__}: {ex}',
                            {'elements': values, 'root': root})
        if case % 3 == 0:  # what the application does with one parse result must not influence the next parse of the same string
            expected = _attrs(back)
            for e in ELEMENTS:
                setattr(back, e, None if getattr(back, e) is not None and rng.random() < 0.5 else 'changed_by_application')
            back._root = 'changed.root'
            try:
                again = SdcLocation.from_scope_string(scope)
                ctx.count('roundtrip.reparsed_after_mutation')
                if _attrs(again) != expected:
                    ctx.witness('roundtrip.second_parse_differs', 'parsing the same scope string again, after the application modified the first result, '
                                'gives a different location', {'elements': values, 'root': root, 'scope_string': scope,
                                                               'second_parse': dict(zip(ELEMENTS + ('root',), _attrs(again)))})
            except Exception as ex:  # noqa: BLE001
                ctx.witness(f'roundtrip.raises.{rkind}', f'second from_scope_string raised {type(ex).__name__}: {ex}', {'scope_string': scope})
            back = SdcLocation.from_scope_string(scope)
        if not (back == loc) or (back != loc):
            ctx.witness('roundtrip.eq_disagrees', 'all seven attributes are identical but SdcLocation.__eq__/__ne__ say the locations differ',
                        {'elements': values, 'root': root})
        nonascii = any(ord(c) > 127 for v in values.values() for c in v)
        reserved = any(c in urigen.RESERVED for v in values.values() for c in v)
        if nonascii:
            ctx.count('roundtrip.identical.non_ascii')
        if reserved:
            ctx.count('roundtrip.identical.reserved_chars')
        if any(ord(c) > 0xFFFF for v in values.values() for c in v):
            ctx.count('roundtrip.identical.astral')


# =============================================================================================
# B  containment lattice over what the provider really publishes
# =============================================================================================
def _inside(ctx, filt, svc, scope_text):
    """both entry points; returns bool or None if one raised (witness already recorded)."""
    try:
        a = filt._scope_string_matches(scope_text)
        b = filt.filter_services_inside([svc])
    except Exception as ex:  # noqa: BLE001
        ctx.witness('contain.raises.' + _classify_raise(ex), f'location filter raised {type(ex).__name__}: {ex} on a scope published by mk_scopes',
                    {'scope': scope_text, 'filter': dict(zip(ELEMENTS + ('root',), _attrs(filt)))})
        return None
    b = bool(b) and b[0] is svc
    if bool(a) != b:
        ctx.witness('contain.entry_points_disagree', '_scope_string_matches and filter_services_inside disagree',
                    {'scope': scope_text, 'filter': dict(zip(ELEMENTS, _attrs(filt))), 'scope_string_matches': a, 'filter_services_inside': b})
    return b


def w_contain(ctx: core.Ctx, arg):
    warnings.simplefilter('ignore')
    from sdc11073.provider.scopesfactory import mk_scopes
    from sdc11073.wsdiscovery.service import Service
    rng = ctx.rng('contain', arg['i'])
    pool = urigen.hyp_text_pool(arg['pool'], ctx.seed * 1000 + 100 + arg['i'], max_size=30)
    mdib = None
    for case in range(arg['n']):
        if mdib is None or case % 40 == 0:
            mdib = _mk_mdib()
        if case < 63:
            mask = case + 1
            values = {e: (rng.choice(pool) if case % 2 else ['HOSP1', 'B/1', '3?', 'CU 1', 'R&7', 'Bed#42'][i]) for i, e in enumerate(ELEMENTS) if mask >> i & 1}
        else:
            values, mask = _random_values(rng, pool, rng.choice([63, rng.randrange(1, 64), rng.randrange(1, 64)]))
        loc = _mk_loc(values)
        # how the associated location gets into the MDIB: a new state (set_location), or the associated state is updated in
        # place through a transaction / the entity interface (LocationContextStateContainer.update_from_sdc_location)
        how = 'set_location' if case % 40 == 0 else rng.choice(['set_location', 'update_state', 'update_state', 'update_entity'])
        try:
            if how == 'set_location':
                mdib.xtra.set_location(loc)
            else:
                cur = [st for st in mdib.context_states.objects
                       if st.NODETYPE.localname == 'LocationContextState' and st.ContextAssociation == 'Assoc']
                if how == 'update_state':
                    with mdib.context_state_transaction() as mgr:
                        st = mgr.get_context_state(cur[0].Handle)
                        st.update_from_sdc_location(loc)
                else:
                    ent = mdib.entities.by_handle(cur[0].DescriptorHandle)
                    ent.states[cur[0].Handle].update_from_sdc_location(loc)
                    with mdib.context_state_transaction() as mgr:
                        mgr.write_entity(ent, [cur[0].Handle])
            ctx.count(f'contain.published_via.{how}')
            scopes = mk_scopes(mdib)
        except Exception as ex:  # noqa: BLE001
            ctx.witness('publish.raises', f'{how} / mk_scopes raised {type(ex).__name__}: {ex}', {'elements': values, 'how': how})
            mdib = None
            continue
        loc_scopes = [s for s in scopes.text if s.lower().startswith('sdc.ctxt.loc:')]
        ctx.count('contain.locations')
        ctx.case(('contain', mask, urigen.coarse_classes(''.join(values.values()))))
        if case in (0, 70):
            ctx.sample({'kind': 'published location', 'elements': values, 'published_scopes': list(scopes.text)})
        if len(loc_scopes) != 1:
            ctx.witness('publish.location_scope_count', f'{len(loc_scopes)} sdc.ctxt.loc scopes published for one associated location',
                        {'elements': values, 'scopes': list(scopes.text), 'how': how})
            if not loc_scopes:
                continue
        scope_text = loc_scopes[0]
        svc = Service(None, scopes, ['http://10.0.0.1/x'], 'urn:uuid:dev', '1')
        # (0) read back, the published scope is the associated location: a parsed element that differs from the associated one would put the
        #     device inside a location that differs in that element (and outside its own); an element that was not set must not appear
        try:
            from sdc11073.location import SdcLocation
            parsed = SdcLocation.from_scope_string(scope_text)
            ctx.count('contain.published_parsed')
            want = tuple(values.get(e) for e in ELEMENTS) + (DEFAULT_ROOT,)
            if _attrs(parsed) != want:
                ctx.witness('contain.published_parse_differs', 'the published location scope, parsed back, is not the associated location',
                            {'elements': values, 'scope': scope_text, 'parsed': dict(zip(ELEMENTS + ('root',), _attrs(parsed))), 'how': how})
        except Exception as ex:  # noqa: BLE001
            ctx.witness('contain.raises.' + _classify_raise(ex), f'from_scope_string raised {type(ex).__name__}: {ex} on a scope published by mk_scopes',
                        {'scope': scope_text})
        # (1) inside itself and inside every generalisation (every subset of elements set to None) - 2^6
        for gmask in range(64):
            g = _mk_loc({e: values[e] for i, e in enumerate(ELEMENTS) if gmask >> i & 1 and e in values})
            ctx.count('contain.generalisation_checks')
            res = _inside(ctx, g, svc, scope_text)
            if res is False:
                key = 'contain.not_inside_self' if gmask & mask == mask else 'contain.not_inside_generalisation'
                ctx.witness(key, 'published location scope is not inside ' + ('its own location' if gmask & mask == mask else 'an enclosing location'),
                            {'elements': values, 'scope': scope_text, 'filter': dict(zip(ELEMENTS, _attrs(g))), 'how': how})
                break
        # (1b) the device publishes further location-like scopes BEFORE the scope of its associated location (a second location context
        #      descriptor, a foreign or empty sdc.ctxt.loc scope): it is still inside its location and inside every enclosing one
        import copy as _copy
        other_loc = _mk_loc({e: 'elsewhere' for e in ELEMENTS[:3]}, 'other.root')
        for extra in ([other_loc.scope_string], ['sdc.ctxt.loc:'], ['sdc.ctxt.loc:/x', other_loc.scope_string]):
            scopes2 = _copy.deepcopy(scopes)
            scopes2.text[:] = [t for t in scopes.text if t != scope_text] + extra + [scope_text] if case % 2 else extra + list(scopes.text)
            svc2 = Service(None, scopes2, ['http://10.0.0.1/x'], 'urn:uuid:dev', '1')
            for gmask in (63, mask, rng.randrange(64)):
                g = _mk_loc({e: values[e] for i, e in enumerate(ELEMENTS) if gmask >> i & 1 and e in values})
                ctx.count('contain.multi_scope_checks')
                try:
                    found = g.filter_services_inside([svc2])
                except Exception as ex:  # noqa: BLE001
                    ctx.witness('contain.raises.' + _classify_raise(ex), f'location filter raised {type(ex).__name__}: {ex}', {'scopes': list(scopes2.text)})
                    break
                if not (found and found[0] is svc2):
                    ctx.witness('contain.not_inside.other_location_scope_first', 'a device that publishes the scope of its location after another '
                                'sdc.ctxt.loc scope is not found inside its location', {'elements': values, 'scopes': list(scopes2.text),
                                                                                       'filter': dict(zip(ELEMENTS, _attrs(g)))})
                    break
        # (2) inside no location that differs in a specified element
        for i, e in enumerate(ELEMENTS):
            gmask = rng.randrange(64)  # the other elements: a random generalisation of loc (identical or None)
            base = {x: values[x] for j, x in enumerate(ELEMENTS) if x in values and gmask >> j & 1 and x != e}
            if e in values:
                alts = urigen.different_values(rng, values[e], pool)
                kind = 'differing_value'
            else:
                alts = [urigen.pick_value(rng, pool), 'x']
                kind = 'element_not_published'
            for alt in alts:
                other = _mk_loc({**base, e: alt})
                ctx.count(f'contain.negative_checks.{kind}')
                res = _inside(ctx, other, svc, scope_text)
                if res is True:
                    ctx.witness(f'contain.inside_{kind}', f'published location scope is reported inside a location whose "{e}" is different',
                                {'elements': values, 'scope': scope_text, 'filter': dict(zip(ELEMENTS, _attrs(other))), 'how': how})
                    break
        # (3) a filter location with a different root (the fallback instance identifier root is part of the location)
        for root in ('other.root', DEFAULT_ROOT + 'x', DEFAULT_ROOT.upper(), 'sdc.ctxt.loc'):
            other = _mk_loc(dict(values), root)
            ctx.count('contain.negative_checks.root')
            if _inside(ctx, other, svc, scope_text) is True:
                ctx.witness('contain.inside_differing_root', 'published location scope is reported inside a location with a different root',
                            {'elements': values, 'scope': scope_text, 'filter_root': root})
                break


# =============================================================================================
# C  totality of the filter
# =============================================================================================
def _check_total(ctx, filt, scope_texts, origin):
    """filter one service publishing scope_texts; any exception is a witness.  Returns True if nothing raised."""
    from sdc11073.wsdiscovery.service import Service
    from sdc11073.xml_types.wsd_types import ScopesType
    sc = ScopesType()
    sc.text.extend(scope_texts)
    svc = Service(None, sc, [], 'urn:uuid:foreign', '1')
    good = Service(None, ScopesType(filt.scope_string), [], 'urn:uuid:good', '1')
    ok = True
    for s in scope_texts:
        ctx.count('filter.scope_strings')
        try:
            r = filt._scope_string_matches(s)
            if r is not True and r is not False:
                ctx.witness('filter.not_bool', '_scope_string_matches returned a non-bool', {'scope': s, 'result': repr(r)})
            ctx.count('filter.answer.inside' if r else 'filter.answer.outside')
        except Exception as ex:  # noqa: BLE001
            ok = False
            mech = _classify_raise(ex)
            ctx.count('filter.raised.' + mech)
            ctx.count(f'filter.raised.{mech}.origin_{origin}')
            ctx.witness(f'filter.raises.{mech}', f'_scope_string_matches raised {type(ex).__name__}: {ex}',
                        {'scope': s, 'origin': origin, 'raised_in': _innermost(ex)})
    try:
        res = filt.filter_services_inside([good, svc, good])
        ctx.count('filter.services_filtered')
        if [x for x in res if x is good] != [good, good]:
            ctx.witness('filter.lost_good_service', 'a service inside the location was dropped because a foreign service was in the list', {'scopes': scope_texts})
    except Exception as ex:  # noqa: BLE001
        ok = False
        mech = _classify_raise(ex)
        ctx.witness(f'filter.raises.{mech}', f'filter_services_inside raised {type(ex).__name__}: {ex}; the services inside the location are lost with it',
                    {'scopes': scope_texts[:5], 'origin': origin, 'raised_in': _innermost(ex)})
    return ok


def _service_shapes(ctx, filters, rng, pool):
    """the list handed to the filter is what a discovery produced: services without Scopes element (scopes None), with an empty one, with a
    MatchBy attribute, without anything; handed over as list / tuple / generator / dict view; empty; long."""
    from sdc11073.wsdiscovery.service import Service
    from sdc11073.xml_types.wsd_types import ScopesType
    for filt in filters:
        good = Service(None, ScopesType(filt.scope_string), [], 'urn:uuid:good', '1')
        foreign = []
        foreign.append(('scopes_none', Service(None, None, None, 'urn:uuid:n', '1')))
        foreign.append(('scopes_empty', Service([], ScopesType(), [], '', 0)))
        foreign.append(('match_by', Service(None, ScopesType('http://[::1', match_by='http://docs.oasis-open.org/ws-dd/ns/discovery/2009/01/strcmp0'), [], 'e', '1')))
        many = ScopesType()
        many.text.extend(urigen.foreign_scope(rng, pool)[0] for _ in range(300))
        foreign.append(('many_scopes', Service(None, many, [], 'urn:uuid:m', '1')))
        dup = ScopesType()
        dup.text.extend(['sdc.ctxt.loc:/x', 'sdc.ctxt.loc:/x', '', ''])
        foreign.append(('duplicate_scopes', Service(None, dup, [], 'urn:uuid:d', '1')))
        services = [good] + [f for _, f in foreign] + [good]
        containers = {'list': lambda: list(services), 'tuple': lambda: tuple(services), 'generator': lambda: (x for x in services),
                      'iterator': lambda: iter(services), 'dict_values': lambda: {id(x): x for x in services[1:]}.values(),
                      'empty_list': list, 'empty_generator': lambda: iter(()), 'long_list': lambda: services * 200}
        for cname, mk in containers.items():
            ctx.count('filter.service_shapes')
            ctx.case(('shape', cname))
            try:
                res = filt.filter_services_inside(mk())
            except Exception as ex:  # noqa: BLE001
                ctx.witness(f'filter.raises.{_classify_raise(ex)}', f'filter_services_inside raised {type(ex).__name__}: {ex} for a service list of shape '
                            f'{cname}', {'container': cname, 'services': [n for n, _ in foreign], 'raised_in': _innermost(ex)})
                continue
            if not isinstance(res, list):
                ctx.witness('filter.not_a_list', 'filter_services_inside did not return a list', {'container': cname, 'result': repr(res)[:200]})
                continue
            want = {'empty_list': 0, 'empty_generator': 0, 'dict_values': 1, 'long_list': 400}.get(cname, 2)
            if [x for x in res if x is good] != [good] * want:
                ctx.witness('filter.lost_good_service', 'the services inside the location are not exactly the ones returned when the list contains '
                            'services without / with empty / with unusual Scopes', {'container': cname, 'returned': len(res), 'expected': want})
        for name, f in foreign[:3]:  # these three publish nothing that could be a location
            try:
                if filt.filter_services_inside([f]):
                    ctx.witness('filter.inside_without_location_scope', 'a service that publishes no location scope at all is reported inside a location',
                                {'service': name})
            except Exception as ex:  # noqa: BLE001
                ctx.witness(f'filter.raises.{_classify_raise(ex)}', f'filter_services_inside raised {type(ex).__name__}: {ex}', {'service': name})


def w_foreign(ctx: core.Ctx, arg):
    warnings.simplefilter('ignore')
    rng = ctx.rng('foreign', arg['i'])
    pool = urigen.hyp_text_pool(arg['pool'], ctx.seed * 1000 + 200 + arg['i'], max_size=30)
    filters = [_mk_loc({'fac': 'HOSP1', 'poc': 'CU1', 'bed': 'Bed42'}), _mk_loc({}), _mk_loc({'fac': 'a'}, 'root'),
               _mk_loc({e: 'x/y' for e in ELEMENTS})]
    directed = list(urigen.RAW) if arg['i'] == 0 else []
    if arg['i'] == 0:
        _service_shapes(ctx, filters, rng, pool)
    for case in range(arg['n']):
        if case < len(directed):
            s, shape = directed[case], ('raw', directed[case][:40])
        else:
            s, shape = urigen.foreign_scope(rng, pool)
        filt = filters[case % len(filters)]
        ctx.case(('foreign',) + shape)
        ok = _check_total(ctx, filt, [s], 'generated')
        if ok:
            ctx.count('filter.tolerated')
        if case in (3, 500):
            ctx.sample({'kind': 'foreign scope', 'scope': s, 'tolerated': ok})


def w_own_scopes(ctx: core.Ctx, arg):
    """every kind of scope mk_scopes itself emits (all context types, identifications with / without extension / root)."""
    warnings.simplefilter('ignore')
    from sdc11073.provider.scopesfactory import mk_scopes
    from sdc11073.xml_types import pm_types
    rng = ctx.rng('own', arg['i'])
    pool = urigen.hyp_text_pool(arg['pool'], ctx.seed * 1000 + 300 + arg['i'], max_size=20)
    filt = _mk_loc({'fac': 'HOSP1'})
    for case in range(arg['n']):
        mdib = _mk_mdib()
        plan = []
        with mdib.context_state_transaction() as mgr:
            for handle in ('lc', 'ec', 'oc', 'wc', 'mc'):
                if handle != 'lc' and rng.random() < 0.5:
                    continue
                st = mgr.mk_context_state(handle, set_associated=True)
                idents = []
                for _ in range(rng.choice([1, 1, 2, 3])):
                    root = rng.choice([None, DEFAULT_ROOT, DEFAULT_ROOT, 'urn:oid:1.2.3', 'http://x/y', '', urigen.pick_value(rng, pool)])
                    ext = rng.choice([None, None, '', 'ext', 'a/b/c', 'HOSP1///CU1//Bed42', urigen.pick_value(rng, pool)])
                    if case == 0:
                        root, ext = DEFAULT_ROOT, None  # the directed case of the design: identification without extension
                    idents.append(pm_types.InstanceIdentifier(root=root, extension_string=ext))
                    plan.append((handle, root, ext))
                st.Identification = idents
                if handle == 'lc':
                    kw = {k: urigen.pick_value(rng, pool) for k in ('poc', 'room', 'bed', 'facility', 'building', 'floor') if rng.random() < 0.5}
                    if case == 0:
                        kw = {'facility': 'HOSP1'}
                    st.LocationDetail = pm_types.LocationDetail(**kw)
        try:
            scopes = list(mk_scopes(mdib).text)
        except Exception as ex:  # noqa: BLE001
            ctx.witness('publish.raises', f'mk_scopes raised {type(ex).__name__}: {ex}', {'plan': plan})
            continue
        ctx.count('own.mdibs')
        ctx.count('own.scopes', len(scopes))
        ctx.count('own.loc_scopes_without_extension', sum(1 for h, r, e in plan if h == 'lc' and not e))
        ctx.case(('own', tuple(sorted((h, r is None, bool(e)) for h, r, e in plan))))
        ok = _check_total(ctx, filt, scopes, 'mk_scopes')
        if case == 0:
            ctx.sample({'kind': 'scopes emitted by mk_scopes', 'identifications': plan, 'scopes': scopes, 'tolerated': ok})


# =============================================================================================
# D / E  equivalence judge:  inside(F)  <=>  F encloses one of the published (associated) locations
# =============================================================================================
def _encloses(froot, fvals, model) -> bool:
    return any(r == froot and all(vals.get(e) == v for e, v in fvals.items()) for r, vals in model)


def _judge_lattice(ctx, tag, inside, model, rng, pool, *, previous=(), not_published=(), full=False, detail=None, suffix='', judge_positive=True):
    """model: [(root, {element: value})] = the locations the provider has published (one per associated state and identification).
    inside(root, values) -> True / False / None (None: the call raised; the caller recorded the witness).
    previous: locations that were associated earlier, not_published: locations that are in the MDIB but not associated / not yet on the wire.
    The expectation of EVERY question is computed from the whole model (a device with two locations is inside both)."""
    def ask(root, vals, cls):
        want = _encloses(root, vals, model)
        got = inside(root, vals)
        ctx.count(f'{tag}.checks.{cls}')
        ctx.count(f'{tag}.expected_inside' if want else f'{tag}.expected_outside')
        if got is None or got == want:
            return
        if want and not judge_positive:
            ctx.count(f'{tag}.positive_not_judged')
            return
        if want:
            key = 'not_inside_self' if any(r == root and v == vals for r, v in model) else 'not_inside_generalisation'
            what = 'the published location scope is not recognised inside ' + ('its own location' if key == 'not_inside_self' else 'an enclosing location')
        else:
            key = {'differing_value': 'inside_differing_value', 'element_not_published': 'inside_element_not_published', 'root': 'inside_differing_root',
                   'previous': 'inside_previous_location', 'not_published': 'inside_not_published_location'}.get(cls, 'inside_differing_value')
            what = f'the device is reported inside a location that differs in a specified element from every location it published ({cls})'
        ctx.witness(f'{tag}.{key}{suffix}', what, {**(detail or {}), 'published_locations': [{'root': r, **v} for r, v in model], 'filter': {'root': root, **vals}})

    for root, vals in model:
        masks = list(range(64)) if full else [63, 0] + [rng.randrange(64) for _ in range(5)]
        seen = set()
        for gmask in masks:
            g = {e: vals[e] for i, e in enumerate(ELEMENTS) if gmask >> i & 1 and e in vals}
            k = tuple(sorted(g))
            if k in seen:
                continue
            seen.add(k)
            ask(root, g, 'self' if g == vals else 'generalisation')
        for i, e in enumerate(ELEMENTS):
            if not full and rng.random() < 0.4:
                continue
            gmask = rng.randrange(64)
            base = {x: vals[x] for j, x in enumerate(ELEMENTS) if x in vals and gmask >> j & 1 and x != e}
            if e in vals:
                alts, cls = urigen.different_values(rng, vals[e], pool), 'differing_value'
                if not full:
                    alts = rng.sample(alts, min(3, len(alts)))
            else:
                alts, cls = [urigen.pick_value(rng, pool), 'x'], 'element_not_published'
            for alt in alts:
                ask(root, {**base, e: alt}, cls)
        for other_root in (root + 'x', 'other.root', root.upper(), DEFAULT_ROOT):
            if other_root != root:
                ask(other_root, dict(vals), 'root')
    for root, vals in previous:
        ask(root, dict(vals), 'previous')
    for root, vals in not_published:
        ask(root, dict(vals), 'not_published')


class _XmlOnly:
    """rng proxy: choice() from urigen.DIRECTED_VALUES never returns a string an XML document cannot carry"""

    def __init__(self, rng):
        self._rng = rng

    def __getattr__(self, name):
        return getattr(self._rng, name)

    def choice(self, seq):
        for _ in range(1000):
            v = self._rng.choice(seq)
            if not isinstance(v, str) or c16_wire.xml_ok(v):
                return v
        return 'x'


def _validators(rng, pool, xml=False):
    """what an application may pass as validators: they never are a location of the device."""
    from sdc11073.xml_types import pm_types
    if xml:
        pool = [v for v in pool if c16_wire.xml_ok(v)] or ['x']
        rng = _XmlOnly(rng)
    other = _mk_loc({'fac': 'VALIDATOR', 'bed': urigen.pick_value(rng, pool)})
    ext = '/'.join((getattr(other, e) or '') for e in ELEMENTS)
    return rng.choice([None, None, [], [pm_types.InstanceIdentifier(root=DEFAULT_ROOT, extension_string=ext)],
                       [pm_types.InstanceIdentifier(root='urn:oid:1.2.3'), pm_types.InstanceIdentifier(root=DEFAULT_ROOT, extension_string='x')],
                       (pm_types.InstanceIdentifier(root='sdc.ctxt.loc', extension_string=urigen.pick_value(rng, pool)),)])


def _scopes_inside(ctx, tag, scopes):
    """inside(root, values) on one service publishing ``scopes`` (both entry points must agree)."""
    from sdc11073.wsdiscovery.service import Service
    svc = Service(None, scopes, ['http://10.0.0.1/x'], 'urn:uuid:dev', '1')

    def inside(root, vals):
        filt = _mk_loc(vals, root)
        try:
            res = filt.filter_services_inside([svc])
            single = any(filt._scope_string_matches(t) for t in scopes.text)
        except Exception as ex:  # noqa: BLE001
            ctx.witness(f'{tag}.raises.' + _classify_raise(ex), f'location filter raised {type(ex).__name__}: {ex} on scopes published by mk_scopes',
                        {'scopes': list(scopes.text), 'filter': {'root': root, **vals}})
            return None
        got = bool(res) and res[0] is svc
        if got != single:
            ctx.witness(f'{tag}.entry_points_disagree', '_scope_string_matches and filter_services_inside disagree',
                        {'scopes': list(scopes.text), 'filter': {'root': root, **vals}})
        return got
    return inside


VARIANT_KINDS = ['multi_mds', 'from_file', 'from_sdc_location', 'entity_new_state', 'detail_none', 'validators', 'from_file', 'multi_mds']
ROOTS_FILE = [DEFAULT_ROOT, DEFAULT_ROOT, 'root', 'urn:oid:1.2.840.10004', 'biceps.uri.unk', 'http://example.com/loc', 'a/b', 'urn:x/y/z', 'a%2Fb', 'a?b', 'a#b',
              'a&b=c', 'sdc.ctxt.loc', 'a;b', 'a+b', 'ä中\U0001F600', 'x' * 300, '1.2.3', None, None]


DIRECTED_FILE_ROOTS = ['http://example.com/loc', None, 'a/b', 'urn:oid:1.2.840.10004', 'a%2Fb', 'urn:x/y/z', 'a?b', 'ä中\U0001F600', 'a#b', 'sdc.ctxt.loc']


def _loc_scope_count(ctx, tag, scopes, n_expected, detail):
    n = sum(1 for s in scopes.text if s.lower().startswith('sdc.ctxt.loc:'))
    ctx.count(f'{tag}.scope_count_checks')
    if n != n_expected:
        ctx.witness(f'{tag}.location_scope_count', f'{n} sdc.ctxt.loc scopes published for {n_expected} associated location(s)',
                    {**detail, 'scopes': list(scopes.text)})
        return False
    return True


def _variant_case(ctx, kind, rng, pool, xpool, case):
    from sdc11073.exceptions import ValidationError
    from sdc11073.provider.scopesfactory import mk_scopes
    tag = 'variant'
    sfx = '.' + kind
    if kind in ('multi_mds', 'validators'):
        n_mds = 1 if kind == 'validators' else 2 + (case // len(VARIANT_KINDS)) % 2
        mdib = c16_wire.mk_mdib(n_mds)
        handles = [f'lc{i}' for i in range(n_mds)]
        model, previous = {}, []
        plan = (['lc0', 'lc1', 'lc0', 'lc1'] if n_mds > 1 else ['lc0', 'lc0']) + [rng.choice(handles) for _ in range(rng.randrange(0, 3))]
        for step, h in enumerate(plan):
            values, mask = _random_values(rng, pool, rng.choice([63, rng.randrange(1, 64), rng.randrange(1, 64)]))
            validators = _validators(rng, pool)
            with_handle = n_mds > 1 or rng.random() < 0.5
            mdib.xtra.set_location(_mk_loc(values), validators, location_context_descriptor_handle=h if with_handle else None)
            ctx.count(f'variant.set_location.{"with" if with_handle else "without"}_handle')
            ctx.count('variant.set_location.validators_' + ('default' if validators is None else str(len(validators))))
            if h in model:
                previous.append((DEFAULT_ROOT, model[h]))
            model[h] = values
            scopes = mk_scopes(mdib)
            detail = {'kind': kind, 'step': step, 'descriptor': h, 'n_mds': n_mds}
            _loc_scope_count(ctx, tag, scopes, len(model), detail)
            last = step == len(plan) - 1
            _judge_lattice(ctx, tag, _scopes_inside(ctx, tag, scopes), [(DEFAULT_ROOT, v) for v in model.values()], rng, pool,
                           previous=previous[-4:], full=last and case % 3 == 0, detail=detail, suffix=sfx)
        ctx.case(('variant', kind, n_mds, len(plan)))
        if n_mds > 1:
            ctx.count('variant.multi_mds_worlds')
        return
    if kind == 'from_file':
        n_mds = rng.choice([1, 1, 2])
        states, model, not_assoc = [], [], []
        written, written_roots = {}, {}
        for i in range(n_mds):
            for j in range(rng.choice([1, 1, 2, 3])):
                assoc = 'Assoc' if j == 0 else rng.choice(['Dis', 'No', 'Pre', 'Dis'])
                mask = 0 if case % 16 == 1 and j == 0 else rng.choice([63, rng.randrange(64), rng.randrange(1, 64)])
                values = {e: rng.choice(xpool) if rng.random() < 0.8 else rng.choice(['HOSP1', 'a b', 'x/y', '50%25', 'a+b', ' lead', 'trail ', 'a\tb', 'l\nf'])
                          for k, e in enumerate(ELEMENTS) if mask >> k & 1}
                idents = []
                k = case // len(VARIANT_KINDS) * 2 + (case % len(VARIANT_KINDS) > 1)  # number of this from_file case inside the job
                for n_ident in range(rng.choice([1, 1, 2, 3])):
                    root = rng.choice(ROOTS_FILE) if rng.random() < 0.8 else rng.choice(xpool)
                    if i == 0 and j == 0 and n_ident == 0 and k < len(DIRECTED_FILE_ROOTS):
                        root = DIRECTED_FILE_ROOTS[k]  # directed: always executed
                    ext = rng.choice([None, 'ext', 'a/b/c', 'HOSP1///CU1//Bed42', rng.choice(xpool)])
                    idents.append((root, ext))
                hdl = f'st{i}_{j}'
                states.append({'descriptor': f'lc{i}', 'handle': hdl, 'assoc': assoc, 'idents': idents, 'detail': values,
                               'validators': [('v', 'w')] if rng.random() < 0.3 else []})
                written[hdl] = values
                written_roots[hdl] = [r for r, _ in idents]
                for root, _ in idents:
                    (model if assoc == 'Assoc' else not_assoc).append((root if root is not None else 'biceps.uri.unk', values))
        try:
            mdib = c16_wire.mk_mdib(n_mds, states)
        except ValidationError:
            ctx.count('variant.from_file.refused_by_schema')  # e.g. a root that libxml2 does not accept as xs:anyURI
            return
        for st in mdib.context_states.objects:  # the XML reader is not this property's business: judge only what arrived unchanged
            got = {e: getattr(st.LocationDetail, c16_wire.DETAIL_ATTR[e]) for e in ELEMENTS} if st.LocationDetail is not None else {}
            roots = [ident.Root for ident in st.Identification]
            if {e: v for e, v in got.items() if v is not None} != written[st.Handle] or roots != written_roots[st.Handle]:
                ctx.count('variant.from_file.value_changed_by_reader')
                return
        scopes = mk_scopes(mdib)
        ctx.count('variant.from_file.loaded')
        ctx.count('variant.from_file.identifications', len(model))
        ctx.count('variant.from_file.custom_roots', sum(1 for r, _ in model if r != DEFAULT_ROOT))
        detail = {'kind': kind, 'states': states}
        # the statement speaks about the scopes the provider publishes, not about how many: "inside" is owed for every identification only
        # if every identification of an associated state got its scope (the library does that: one scope per identification)
        n_loc = sum(1 for t in scopes.text if t.lower().startswith('sdc.ctxt.loc:'))
        if n_loc != len(model):
            ctx.count('variant.from_file.scope_count_differs')
        _judge_lattice(ctx, tag, _scopes_inside(ctx, tag, scopes), model, rng, pool, not_published=not_assoc[:4], full=case % 4 == 0, detail=detail, suffix=sfx,
                       judge_positive=n_loc == len(model))
        ctx.case(('variant', kind, n_mds, len(states), tuple(sorted({urigen.coarse_classes(r) for r, _ in model}))))
        if case in (1, 9):
            ctx.sample({'kind': 'location states of the MDIB file', 'states': states, 'published_scopes': list(scopes.text)})
        return
    # one MDS; the associated state is created without set_location
    n_mds = rng.choice([1, 2])
    mdib = c16_wire.mk_mdib(n_mds)
    h = f'lc{n_mds - 1}'
    values, _ = _random_values(rng, pool, rng.choice([63, rng.randrange(1, 64)]))
    values2, _ = _random_values(rng, pool, rng.randrange(1, 64))
    detail = {'kind': kind}
    if kind == 'from_sdc_location':
        from sdc11073.mdib.statecontainers import LocationContextStateContainer
        descr = mdib.descriptions.handle.get_one(h)
        st = LocationContextStateContainer.from_sdc_location(descr, 'loc_state_1', _mk_loc(values))
        with mdib.context_state_transaction() as mgr:
            mgr.add_state(st)
        scopes = mk_scopes(mdib)
        _loc_scope_count(ctx, tag, scopes, 1, detail)
        _judge_lattice(ctx, tag, _scopes_inside(ctx, tag, scopes), [(DEFAULT_ROOT, values)], rng, pool, detail=detail, suffix=sfx)
        st2 = LocationContextStateContainer.from_sdc_location(descr, 'loc_state_2', _mk_loc(values2))
        with mdib.context_state_transaction() as mgr:
            mgr.disassociate_all(h)
            mgr.add_state(st2)
    elif kind == 'entity_new_state':
        ent = mdib.entities.by_handle(h)
        st = ent.new_state()
        st.update_from_sdc_location(_mk_loc(values))
        with mdib.context_state_transaction() as mgr:
            mgr.write_entity(ent, [st.Handle])
        scopes = mk_scopes(mdib)
        _loc_scope_count(ctx, tag, scopes, 1, detail)
        _judge_lattice(ctx, tag, _scopes_inside(ctx, tag, scopes), [(DEFAULT_ROOT, values)], rng, pool, detail=detail, suffix=sfx)
        ent = mdib.entities.by_handle(h)
        ent.states[st.Handle].update_from_sdc_location(_mk_loc(values2))
        with mdib.context_state_transaction() as mgr:
            mgr.write_entity(ent, [st.Handle])
    else:  # detail_none: the application removed LocationDetail (allowed: it is optional), then the location is set again on the same state
        mdib.xtra.set_location(_mk_loc(values), location_context_descriptor_handle=h)
        cur = [s for s in mdib.context_states.objects if s.ContextAssociation == 'Assoc'][0]
        with mdib.context_state_transaction() as mgr:
            mgr.get_context_state(cur.Handle).LocationDetail = None
        try:
            mk_scopes(mdib)
            ctx.count('variant.detail_none.published_without_detail')
        except ValueError:
            ctx.count('variant.detail_none.refused_by_mk_scopes')  # documented behaviour of mk_scopes, not judged
        with mdib.context_state_transaction() as mgr:
            mgr.get_context_state(cur.Handle).update_from_sdc_location(_mk_loc(values2))
    scopes = mk_scopes(mdib)
    _loc_scope_count(ctx, tag, scopes, 1, detail)
    _judge_lattice(ctx, tag, _scopes_inside(ctx, tag, scopes), [(DEFAULT_ROOT, values2)], rng, pool, previous=[(DEFAULT_ROOT, values)],
                   full=case % 3 == 0, detail=detail, suffix=sfx)
    ctx.case(('variant', kind, n_mds, urigen.coarse_classes(''.join(values2.values()))))


def w_variants(ctx: core.Ctx, arg):
    warnings.simplefilter('ignore')
    import logging
    logging.disable(logging.CRITICAL)
    rng = ctx.rng('variants', arg['i'])
    pool = urigen.hyp_text_pool(arg['pool'], ctx.seed * 1000 + 400 + arg['i'], max_size=30)
    xpool = [v for v in pool if c16_wire.xml_ok(v)] or ['x']
    for case in range(arg['n']):
        kind = VARIANT_KINDS[case % len(VARIANT_KINDS)]
        ctx.count(f'variant.cases.{kind}')
        try:
            _variant_case(ctx, kind, rng, pool, xpool, case)
        except Exception as ex:  # noqa: BLE001
            ctx.witness(f'variant.raises.{kind}', f'associating / publishing a location raised {type(ex).__name__}: {ex}',
                        {'kind': kind, 'raised_in': _innermost(ex), 'trace': traceback.format_exc()[-1200:]})


# =============================================================================================
# E  the wire: SdcProvider -> WS-Discovery -> consumer-side filter
# =============================================================================================
WIRE_PRELUDE = ['set', 'set', 'foreign', 'inplace', 'set_nopublish', 'publish', 'clear', 'set_other', 'entity_inplace', 'foreign', 'disassociate', 'set']


def _wire_foreign(ctx, world, rng, pool):
    """devices of other vendors announce themselves to the consumer: Hello / ProbeMatches with whatever scopes survive an XML document."""
    n_before = world.wire.delivered
    for _ in range(rng.choice([1, 2, 4])):
        scopes = []
        for _ in range(rng.choice([0, 1, 1, 2, 3, 6])):
            s = urigen.foreign_scope(rng, pool)[0]
            if rng.random() < 0.5:
                s = ''.join(ch for ch in s if c16_wire.xml_ok(ch))  # otherwise the datagram is not XML at all
            scopes.append(s)
        if rng.random() < 0.3:  # looks like a neighbour: a location scope built by this library, next to unusual ones
            scopes.insert(rng.randrange(len(scopes) + 1), _mk_loc(_random_values(rng, pool)[0]).scope_string)
        data = c16_wire.raw_hello(rng, f'urn:uuid:foreign-{rng.randrange(12)}', None if rng.random() < 0.1 else scopes, types=rng.random() < 0.9,
                                  version=rng.choice([1, 1, 2, 5]), instance_id=rng.randrange(1, 1000), kind=rng.choice(['Hello', 'Hello', 'ProbeMatches']),
                                  match_by=rng.choice([None, None, None, 'http://docs.oasis-open.org/ws-dd/ns/discovery/2009/01/strcmp0', 'urn:x']))
        ctx.count('wire.foreign.datagrams')
        try:
            world.wire.inject(data, f'10.0.1.{rng.randrange(2, 250)}', world.cnode)
        except UnicodeEncodeError:
            ctx.count('wire.foreign.not_encodable')
    ctx.count('wire.foreign.delivered', world.wire.delivered - n_before)


def _wire_inside(ctx, world, rng, access_log):
    """inside(root, values) for the provider of ``world`` as seen by the consumer node."""
    cw = world.cnode.wsd
    state = {'n': 0}

    def inside(root, vals):
        filt = _mk_loc(vals, root)
        state['n'] += 1
        path = rng.choice(['search', 'table', 'table', 'generator']) if state['n'] <= 6 else 'table'
        try:
            if path == 'search':  # the real API: Probe, wait (the clock delivers the ProbeMatches), filter the table
                found = cw.search_sdc_device_services_in_location(filt, timeout=rng.choice([1, 3, 4]))
            elif path == 'table':
                found = filt.filter_services_inside(cw.get_found_remote_services())
            else:
                found = filt.filter_services_inside(s for s in list(cw._remote_services.values()))
        except Exception as ex:  # noqa: BLE001
            ctx.witness('wire.raises.' + _classify_raise(ex), f'filtering the discovered services raised {type(ex).__name__}: {ex}',
                        {'path': path, 'filter': {'root': root, **vals}, 'raised_in': _innermost(ex),
                         'scopes_in_table': [list(s.scopes.text)[:6] if s.scopes is not None else None for s in cw._remote_services.values()][:8]})
            return None
        ctx.count(f'wire.filter_calls.{path}')
        access_log.append(path)
        return any(s.epr == world.epr for s in found)
    return inside


def _wire_world(ctx, rng, pool, wi, steps):
    from sdc11073.xml_types import pm_types
    n_mds = [1, 2, 3, 1][wi] if wi < 4 else rng.choice([1, 1, 2, 3])
    world = c16_wire.WireWorld(n_mds)
    ctx.count('wire.worlds')
    ctx.count(f'wire.worlds.mds_{n_mds}')
    last_passed = None  # what SdcProvider.set_location got last (it ignores a call with an equal location)
    previous = []
    try:
        for step in range(steps):
            op = WIRE_PRELUDE[step] if step < len(WIRE_PRELUDE) else rng.choice(WIRE_PRELUDE + ['set', 'set', 'inplace'])
            assoc = [h for h in world.handles if h in world.mdib_model]
            if op in ('inplace', 'entity_inplace', 'disassociate') and not assoc:
                op = 'set'
            if op == 'set_other' and n_mds == 1:
                op = 'set'
            detail = {'step': step, 'op': op, 'n_mds': n_mds}
            if op in ('set', 'set_nopublish', 'set_other'):
                h = rng.choice(world.handles)
                if op == 'set_other':
                    h = rng.choice([x for x in world.handles if x not in world.mdib_model] or world.handles)
                while True:
                    values, _ = _random_values_xml(rng, pool, rng.choice([63, rng.randrange(1, 64), rng.randrange(1, 64)]))
                    if values != last_passed:
                        break
                last_passed = values
                kw = {}
                if n_mds > 1 or rng.random() < 0.4:
                    kw['location_context_descriptor_handle'] = h
                else:
                    h = world.handles[0]
                if rng.random() < 0.6:
                    kw['validators'] = _validators(rng, pool, xml=True)
                if op == 'set_nopublish':
                    kw['publish_now'] = False
                world.provider.set_location(_mk_loc(values), **kw)
                if h in world.mdib_model:
                    previous.append((DEFAULT_ROOT, world.mdib_model[h]))
                world.mdib_model[h] = values
                world.history.append(values)
                detail['descriptor'] = h
                if op != 'set_nopublish':
                    world.published()
            elif op in ('inplace', 'entity_inplace'):
                h = rng.choice(assoc)
                values, _ = _random_values_xml(rng, pool, rng.randrange(1, 64))
                cur = [s for s in world.mdib.context_states.objects if s.DescriptorHandle == h and s.ContextAssociation == 'Assoc'][0]
                if op == 'inplace':
                    with world.mdib.context_state_transaction() as mgr:
                        mgr.get_context_state(cur.Handle).update_from_sdc_location(_mk_loc(values))
                else:
                    ent = world.mdib.entities.by_handle(h)
                    ent.states[cur.Handle].update_from_sdc_location(_mk_loc(values))
                    with world.mdib.context_state_transaction() as mgr:
                        mgr.write_entity(ent, [cur.Handle])
                previous.append((DEFAULT_ROOT, world.mdib_model[h]))
                world.mdib_model[h] = values
                world.provider.publish()
                world.published()
            elif op == 'disassociate':
                h = rng.choice(assoc)
                cur = [s for s in world.mdib.context_states.objects if s.DescriptorHandle == h and s.ContextAssociation == 'Assoc'][0]
                with world.mdib.context_state_transaction() as mgr:
                    mgr.get_context_state(cur.Handle).ContextAssociation = pm_types.ContextAssociation.DISASSOCIATED
                previous.append((DEFAULT_ROOT, world.mdib_model.pop(h)))
                world.provider.publish()
                world.published()
            elif op == 'publish':
                world.provider.publish()
                world.published()
            elif op == 'foreign':
                _wire_foreign(ctx, world, rng, pool)
            elif op == 'clear':  # the consumer forgets everything: only the answers to its next Probe fill the table again
                world.cnode.wsd.clear_remote_services()
                world.cnode.wsd.search_sdc_services(timeout=1)
            ctx.count(f'wire.steps.{op}')
            # --- the datagram itself: one location scope per associated location
            if op not in ('foreign', 'clear', 'set_nopublish'):
                texts = world.last_hello_scopes() or []
                n = sum(1 for t in texts if t.lower().startswith('sdc.ctxt.loc:'))
                ctx.count('wire.hello_scope_count_checks')
                if n != len(world.pub_model or {}):
                    ctx.witness('wire.location_scope_count', f'the Hello carries {n} sdc.ctxt.loc scopes for {len(world.pub_model or {})} associated location(s)',
                                {**detail, 'scopes': texts})
            # --- the consumer's view
            pub = [(DEFAULT_ROOT, v) for v in (world.pub_model or {}).values()]
            unpublished = [(DEFAULT_ROOT, v) for h, v in world.mdib_model.items() if (world.pub_model or {}).get(h) != v]
            if world.pub_model is not None and op not in ('foreign', 'clear', 'set_nopublish'):
                # did the announcement arrive?  The consumer's table entry must carry the scopes of the provider's last Hello; if it does not,
                # that is reported once under its own mechanism key and the consumer asks again (Probe), so that the location logic is judged
                # on a table that is up to date
                ctx.count('wire.hello_applied_checks')
                entry = world.cnode.wsd._remote_services.get(world.epr)
                have = sorted(entry.scopes.text) if entry is not None and entry.scopes is not None else None
                if have != sorted(world.last_hello_scopes() or []):
                    ctx.witness('wire.hello_not_applied', 'after the provider announced a changed location (Hello), the consumer-side WSDiscovery still '
                                'holds the scopes of an earlier announcement: the device is searched for in the wrong location',
                                {**detail, 'table_entry_version': getattr(entry, 'metadata_version', None), 'table_entry_scopes': have,
                                 'hello_scopes': world.last_hello_scopes(),
                                 'provider_side_version': world.pnode.wsd._local_services[world.epr].metadata_version})
                    world.cnode.wsd.clear_remote_services()
                    world.cnode.wsd.search_sdc_services(timeout=1)
                    ctx.count('wire.resynchronised_by_probe')
            if world.pub_model is not None and world.epr not in world.cnode.wsd._remote_services:
                ctx.witness('wire.provider_not_discovered', 'the consumer-side WSDiscovery does not know the provider although its Hello / ProbeMatches '
                            'were delivered', detail)
                continue
            access = []
            _judge_lattice(ctx, 'wire', _wire_inside(ctx, world, rng, access), pub, rng, pool, previous=previous[-3:], not_published=unpublished,
                           detail=detail)
            if len(pub) > 1:
                ctx.count('wire.checks_with_several_locations')
            if unpublished:
                ctx.count('wire.checks_with_unpublished_location')
            ctx.case(('wire', n_mds, op, len(pub), bool(unpublished), len(world.cnode.wsd._remote_services) > 1))
            if wi == 1 and step == 1:
                ctx.sample({'kind': 'wire', 'associated': world.mdib_model, 'hello_scopes': world.last_hello_scopes(),
                            'datagrams': [(s, a) for s, a, _ in world.wire.log]})
        for kind, ex in world.wire.handler_errors:
            ctx.count('wire.datagram_handler_raised')  # not this property (C14/C15): kept visible
        ctx.count('wire.datagrams', len(world.wire.log))
        ctx.count('wire.datagrams_dropped_by_reader', world.wire.dropped)
    finally:
        world.stop()


def w_wire(ctx: core.Ctx, arg):
    warnings.simplefilter('ignore')
    import logging
    logging.disable(logging.CRITICAL)
    rng = ctx.rng('wire', arg['i'])
    pool = urigen.hyp_text_pool(arg['pool'], ctx.seed * 1000 + 600 + arg['i'], max_size=30)
    for wi in range(arg['worlds']):
        try:
            _wire_world(ctx, rng, pool, wi, arg['steps'])
        except Exception as ex:  # noqa: BLE001
            ctx.witness('wire.raises.harness_or_provider', f'set_location / publish / discovery raised {type(ex).__name__}: {ex}',
                        {'raised_in': _innermost(ex), 'trace': traceback.format_exc()[-1500:]})
    if arg['i'] == 0:
        _observations(ctx)


def _observations(ctx):
    """behaviour that is recorded, not judged (outside the reading of the statement this check uses - see assumptions)."""
    from sdc11073.provider.scopesfactory import mk_scopes
    from sdc11073.wsdiscovery.service import Service
    obs = []
    mdib = c16_wire.mk_mdib(1)
    loc = _mk_loc({'fac': 'HOSP1', 'bed': 'Bed42'}, 'my.root')
    mdib.xtra.set_location(loc)
    svc = Service(None, mk_scopes(mdib), [], 'urn:uuid:dev', '1')
    if not loc.filter_services_inside([svc]):
        obs.append('a location with a non-default root is published under the root sdc.ctxt.loc.detail: the device is not inside the SdcLocation it was given')
        ctx.count('observe.custom_root_not_inside_own_location')
    with warnings.catch_warnings():
        warnings.simplefilter('error')
        try:
            _mk_loc({'fac': 'HOSP1'}).filter_services_inside([svc])
        except Warning as ex:
            obs.append(f'with warnings turned into errors filter_services_inside raises {type(ex).__name__} for every well-formed location scope '
                       '(SdcLocation.__contains__ reads its own deprecated property root)')
            ctx.count('observe.filter_raises_under_warnings_as_errors')
    warnings.simplefilter('ignore')
    try:  # SdcProvider.set_location ignores a call whose location equals the previous one - also when it names another descriptor
        world = c16_wire.WireWorld(2)
        try:
            world.provider.set_location(_mk_loc({'fac': 'HOSP1'}), location_context_descriptor_handle='lc0')
            world.provider.set_location(_mk_loc({'fac': 'HOSP1'}), location_context_descriptor_handle='lc1')
            if not [st for st in world.mdib.context_states.objects if st.DescriptorHandle == 'lc1']:
                obs.append('SdcProvider.set_location(loc, location_context_descriptor_handle=lc1) is ignored when loc equals the location set before on lc0: '
                           'the second MDS gets no location')
                ctx.count('observe.set_location_same_location_other_descriptor_ignored')
        finally:
            world.stop()
    except Exception as ex:  # noqa: BLE001
        obs.append(f'observation run raised {type(ex).__name__}: {ex}')
    ctx.extra['observations'] = obs


def run(ctx: core.Ctx):
    ctx.rule = ('A: one case = one location (present/absent mask x element values x root) whose scope string is parsed back; B: one case = one location '
                'set on a real ProviderMdib, the published sdc.ctxt.loc scope filtered by all 64 generalisations and by locations differing in one element; '
                'C: one case = one foreign scope string (or the scope list of one generated MDIB, or one shape of service list) handed to the location filter; '
                'D: one case = one MDIB whose location(s) were associated in one of the other ways (several MDS, file, from_sdc_location, entity, validators), judged '
                'as inside(F) <=> F encloses a published location; E: one case = one step of a real SdcProvider + two real WSDiscovery nodes (set_location / in-place update / '
                'publish / disassociate / foreign announcements / consumer restart) followed by the same equivalence asked through the consumer node.  distinct = shape '
                '(mask, set of character classes occurring in the values, root kind / scheme, authority, number of segments, query and fragment class); non-trivial = every case')
    q = ctx.quick
    jobs = []
    for i in range(8 if q else 32):  # thorough: many short jobs, so that no worker comes near the wall-clock watchdog on a loaded machine
        jobs.append(['w_roundtrip', {'i': i, 'n': 1000 if q else 25000, 'pool': 400 if q else 2500}])
    for i in range(8 if q else 32):
        jobs.append(['w_contain', {'i': i, 'n': 250 if q else 3125, 'pool': 300 if q else 1500}])
    for i in range(8 if q else 32):
        jobs.append(['w_foreign', {'i': i, 'n': 1250 if q else 31250, 'pool': 300 if q else 1500}])
    for i in range(4 if q else 16):
        jobs.append(['w_own_scopes', {'i': i, 'n': 50 if q else 1000, 'pool': 100 if q else 1000}])
    for i in range(6 if q else 32):
        jobs.append(['w_variants', {'i': i, 'n': 48 if q else 480, 'pool': 200 if q else 1000}])
    for i in range(6 if q else 32):
        jobs.append(['w_wire', {'i': i, 'worlds': 4 if q else 16, 'steps': 14 if q else 24, 'pool': 200 if q else 1000}])
    core.fanout(ctx, MODULE, 'dispatch', jobs)
    ctx.floor('roundtrip.identical', 2000)
    ctx.floor('roundtrip.identical.non_ascii', 200)
    ctx.floor('roundtrip.identical.reserved_chars', 200)
    ctx.floor('contain.locations', 500)
    ctx.floor('contain.generalisation_checks', 500 * 60)
    ctx.floor('contain.negative_checks.differing_value', 2000)
    ctx.floor('filter.scope_strings', 5000)
    ctx.floor('filter.answer.outside', 1000)
    ctx.floor('own.scopes', 300)
    ctx.floor('contain.published_parsed', 500)
    ctx.floor('roundtrip.after_attribute_change', 300)
    ctx.floor('filter.service_shapes', 30)
    ctx.floor('variant.expected_inside', 2000)
    ctx.floor('variant.expected_outside', 4000)
    ctx.floor('variant.multi_mds_worlds', 30)
    ctx.floor('variant.from_file.loaded', 20)
    ctx.floor('variant.from_file.custom_roots', 20)
    ctx.floor('variant.checks.previous', 100)
    ctx.floor('variant.scope_count_checks', 200)
    ctx.floor('wire.worlds', 12)
    ctx.floor('wire.expected_inside', 500)
    ctx.floor('wire.expected_outside', 1500)
    ctx.floor('wire.filter_calls.search', 100)
    ctx.floor('wire.checks_with_several_locations', 10)
    ctx.floor('wire.checks_with_unpublished_location', 6)
    ctx.floor('wire.checks.previous', 100)
    ctx.floor('wire.hello_applied_checks', 60)
    ctx.floor('wire.foreign.delivered', 10)
    ctx.assumptions += [
        'element values are non-empty strings of Unicode scalar values (an empty string cannot be told from "absent" in the query form and is treated as absent; '
        'lone surrogates cannot be UTF-8 encoded)',
        'the root of a location counts as part of "the same location" (SdcLocation.__eq__ includes it); non-default roots are reported under their own keys',
        '"differs in a specified element" is read as: the filter location specifies element e = v and the published location has e != v (or does not publish e)',
        'the MDIB is a minimal generated one (B: one MDS, D/E: one to three MDS with one location context descriptor each); set_location requires at least one '
        'element, so the all-absent location is only part of the round-trip monitor and of the states read from an MDIB file',
        'D: for a location state with application-chosen identifications the location is (root of the identification - biceps.uri.unk if absent -, LocationDetail); '
        'roots / values of an MDIB file are limited to what the schema validation of ProviderMdib.from_string accepts and what the XML reader returns unchanged',
        'E: element values are limited to characters an XML document can carry (a running provider reports its context states as XML); a location given to '
        'SdcProvider.set_location always differs from the one given before (an equal one is documented to be ignored); what the consumer must see is what the '
        'provider announced last (publish_now=False: the earlier location); foreign announcements reach the consumer only if the datagram passes the schema '
        'validation of the receive loop (counted)',
        'recorded, not judged (ctx.extra observations): a SdcLocation with a non-default root is published under sdc.ctxt.loc.detail; the filter under '
        'warnings-as-errors',
    ]


def dispatch(ctx: core.Ctx, job):
    globals()[job[0]](ctx, job[1])
