"""C16 - location scopes round-trip; location filtering tolerates foreign scopes.

Three monitors on the real ``sdc11073.location.SdcLocation`` / ``provider.scopesfactory.mk_scopes``:

A  round trip     from_scope_string(loc.scope_string) is the same location (7 attributes compared by the harness, not by __eq__)
B  containment    the sdc.ctxt.loc scope mk_scopes publishes for a ProviderMdib whose location was set with mdib.xtra.set_location
                  is inside the location, inside all 2^6 generalisations, and inside no location differing in a specified element
C  totality       filter_services_inside / _scope_string_matches return a bool / list for ANY scope string
"""
from __future__ import annotations

import traceback
import warnings

from .. import core, urigen

MODULE = 'vf.props.c16'
ELEMENTS = ('fac', 'bldng', 'flr', 'poc', 'rm', 'bed')
DEFAULT_ROOT = 'sdc.ctxt.loc.detail'

MDIB_XML = b'''<?xml version="1.0" encoding="UTF-8"?>
<msg:GetMdibResponse xmlns:msg="http://standards.ieee.org/downloads/11073/11073-10207-2017/message" xmlns:pm="http://standards.ieee.org/downloads/11073/11073-10207-2017/participant" xmlns:ext="http://standards.ieee.org/downloads/11073/11073-10207-2017/extension" xmlns:xsi="http://www.w3.org/2001/XMLSchema-instance" MdibVersion="1" SequenceId="urn:uuid:00000000-0000-0000-0000-000000000001">
<msg:Mdib MdibVersion="1" SequenceId="urn:uuid:00000000-0000-0000-0000-000000000001">
<pm:MdDescription DescriptionVersion="0">
<pm:Mds Handle="mds0" DescriptorVersion="0" SafetyClassification="MedA">
<pm:Type Code="130535"><pm:ConceptDescription Lang="en-US">x</pm:ConceptDescription></pm:Type>
<pm:SystemContext Handle="sc" DescriptorVersion="0" SafetyClassification="MedA">
<pm:PatientContext Handle="pc" DescriptorVersion="0" SafetyClassification="MedA"/>
<pm:LocationContext Handle="lc" DescriptorVersion="0" SafetyClassification="MedA"/>
<pm:EnsembleContext Handle="ec" DescriptorVersion="0" SafetyClassification="MedA"/>
<pm:OperatorContext Handle="oc" DescriptorVersion="0" SafetyClassification="MedA"/>
<pm:WorkflowContext Handle="wc" DescriptorVersion="0" SafetyClassification="MedA"/>
<pm:MeansContext Handle="mc" DescriptorVersion="0" SafetyClassification="MedA"/>
</pm:SystemContext>
</pm:Mds>
</pm:MdDescription>
<pm:MdState StateVersion="0">
<pm:State xsi:type="pm:MdsState" DescriptorHandle="mds0" StateVersion="0"/>
<pm:State xsi:type="pm:SystemContextState" DescriptorHandle="sc" StateVersion="0"/>
</pm:MdState>
</msg:Mdib>
</msg:GetMdibResponse>'''


def _mk_mdib():
    from sdc11073.definitions_sdc import SdcV1Definitions  # noqa: F401  registers the protocol
    from sdc11073.mdib import ProviderMdib
    return ProviderMdib.from_string(MDIB_XML)


def _attrs(loc):
    """the seven values that make a location - read directly, independent of SdcLocation.__eq__."""
    return tuple(getattr(loc, e) for e in ELEMENTS) + (loc._root,)


def _mk_loc(values: dict, root=DEFAULT_ROOT):
    from sdc11073.location import SdcLocation
    return SdcLocation(root=root, **values)


def _innermost(exc):
    tb = traceback.extract_tb(exc.__traceback__)
    fr = tb[-1]
    return fr.filename.replace('\\', '/').rsplit('/', 1)[-1], fr.name, (fr.line or '').strip()


def _classify_raise(exc) -> str:
    """mechanism key part for an exception out of the location code: where it was raised, never the input."""
    fname, func, line = _innermost(exc)
    if fname == 'location.py' and func == 'from_scope_string' and 'split' in line:
        return 'path_segments'
    frames = [f.name for f in traceback.extract_tb(exc.__traceback__)]
    if 'urlsplit' in frames:
        return 'urlsplit'
    if fname == 'parse.py':
        return 'urllib.' + func
    return f'{type(exc).__name__}.{fname}.{func}'


def _random_values(rng, pool, mask=None):
    if mask is None:
        mask = rng.choice([63, 63, rng.randrange(64), rng.randrange(64), rng.randrange(1, 64)])
    return {e: urigen.pick_value(rng, pool) for i, e in enumerate(ELEMENTS) if mask >> i & 1}, mask


# =============================================================================================
# A  round trip
# =============================================================================================
ROOTS_PLAIN = ['root', 'urn:oid:1.2.840.10004', 'biceps.uri.unk', 'a b', 'ä中\U0001F600', 'a%2Fb', 'a?b', 'a#b', 'a&b=c', '%', 'x' * 500, 'sdc.ctxt.loc',
               '1.2.3', 'a;b', 'a:b', '[::1]', 'a+b']
ROOTS_SLASH = ['http://example.com/loc', 'a/b', '/a', 'a/', 'urn:x/y/z', '/']


def w_roundtrip(ctx: core.Ctx, arg):
    warnings.simplefilter('ignore')
    from sdc11073.location import SdcLocation
    rng = ctx.rng('rt', arg['i'])
    pool = urigen.hyp_text_pool(arg['pool'], ctx.seed * 1000 + arg['i'], max_size=40)
    pool += urigen.hyp_text_pool(max(arg['pool'] // 20, 5), ctx.seed * 1000 + 500 + arg['i'], max_size=600)
    ctx.count('roundtrip.pool_values', len(pool))
    for case in range(arg['n']):
        if case < 64 * 3:  # directed: every present/absent combination, plain / reserved / hypothesis values
            mask = case % 64
            src = [['HOSP1', 'B', '3', 'CU1', 'R7', 'Bed42'], ['a/b', 'c?d', 'e#f', 'g&h=i', 'j+k l', '%2F;'], None][case // 64]
            values = {e: (src[i] if src else rng.choice(pool)) for i, e in enumerate(ELEMENTS) if mask >> i & 1}
        elif case < 64 * 3 + len(urigen.DIRECTED_VALUES):  # every directed value alone in one element
            v = urigen.DIRECTED_VALUES[case - 64 * 3]
            e = ELEMENTS[case % 6]
            values, mask = {e: v}, 1 << (case % 6)
        else:
            values, mask = _random_values(rng, pool)
        r = rng.random()
        droot = case - 400
        if 0 <= droot < len(ROOTS_PLAIN):  # directed roots, always executed
            root, rkind = ROOTS_PLAIN[droot], 'custom_root'
        elif 0 <= droot - len(ROOTS_PLAIN) < len(ROOTS_SLASH):
            root, rkind = ROOTS_SLASH[droot - len(ROOTS_PLAIN)], 'root_with_slash'
        elif r < 0.80:
            root, rkind = DEFAULT_ROOT, 'default_root'
        elif r < 0.93:
            root = rng.choice(ROOTS_PLAIN) if rng.random() < 0.6 else rng.choice(pool).replace('/', '_')
            rkind = 'custom_root'
        else:
            root = rng.choice(ROOTS_SLASH) if rng.random() < 0.7 else rng.choice(pool) + '/' + rng.choice(pool)
            rkind = 'root_with_slash'
        loc = _mk_loc(values, root)
        shape = (mask, rkind, urigen.coarse_classes(''.join(values.values())), urigen.coarse_classes(root) if rkind != 'default_root' else '')
        ctx.count(f'roundtrip.evaluated.{rkind}')
        ctx.case(('rt',) + shape)
        if case == 200 or (case == 0 and arg['i'] == 0):
            ctx.sample({'kind': 'round trip', 'elements': values, 'root': root})
        try:
            scope = loc.scope_string
        except Exception as ex:  # noqa: BLE001
            ctx.witness(f'roundtrip.scope_string_raises.{rkind}', f'scope_string raised {type(ex).__name__}: {ex}', {'elements': values, 'root': root})
            continue
        try:
            back = SdcLocation.from_scope_string(scope)
        except Exception as ex:  # noqa: BLE001
            ctx.witness(f'roundtrip.raises.{rkind}', f'from_scope_string(loc.scope_string) raised {type(ex).__name__}: {ex}',
                        {'elements': values, 'root': root, 'scope_string': scope, 'raised_in': _innermost(ex)})
            continue
        if _attrs(back) != _attrs(loc):
            diff = [n for n, a, b in zip(ELEMENTS + ('root',), _attrs(loc), _attrs(back)) if a != b]
            what = 'root' if diff == ['root'] else 'element'
            ctx.witness(f'roundtrip.differs.{what}.{rkind}', f'from_scope_string(loc.scope_string) differs from loc in {diff}',
                        {'elements': values, 'root': root, 'scope_string': scope, 'parsed_back': dict(zip(ELEMENTS + ('root',), _attrs(back)))})
            continue
        ctx.count('roundtrip.identical')
        if case % 3 == 0:  # what the application does with one parse result must not influence the next parse of the same string
            expected = _attrs(back)
            for e in ELEMENTS:
                setattr(back, e, None if getattr(back, e) is not None and rng.random() < 0.5 else 'changed_by_application')
            back._root = 'changed.root'
            try:
                again = SdcLocation.from_scope_string(scope)
                ctx.count('roundtrip.reparsed_after_mutation')
                if _attrs(again) != expected:
                    ctx.witness('roundtrip.second_parse_differs', 'parsing the same scope string again, after the application modified the first result, '
                                'gives a different location', {'elements': values, 'root': root, 'scope_string': scope,
                                                               'second_parse': dict(zip(ELEMENTS + ('root',), _attrs(again)))})
            except Exception as ex:  # noqa: BLE001
                ctx.witness(f'roundtrip.raises.{rkind}', f'second from_scope_string raised {type(ex).__name__}: {ex}', {'scope_string': scope})
            back = SdcLocation.from_scope_string(scope)
        if not (back == loc) or (back != loc):
            ctx.witness('roundtrip.eq_disagrees', 'all seven attributes are identical but SdcLocation.__eq__/__ne__ say the locations differ',
                        {'elements': values, 'root': root})
        nonascii = any(ord(c) > 127 for v in values.values() for c in v)
        reserved = any(c in urigen.RESERVED for v in values.values() for c in v)
        if nonascii:
            ctx.count('roundtrip.identical.non_ascii')
        if reserved:
            ctx.count('roundtrip.identical.reserved_chars')
        if any(ord(c) > 0xFFFF for v in values.values() for c in v):
            ctx.count('roundtrip.identical.astral')


# =============================================================================================
# B  containment lattice over what the provider really publishes
# =============================================================================================
def _inside(ctx, filt, svc, scope_text):
    """both entry points; returns bool or None if one raised (witness already recorded)."""
    try:
        a = filt._scope_string_matches(scope_text)
        b = filt.filter_services_inside([svc])
    except Exception as ex:  # noqa: BLE001
        ctx.witness('contain.raises.' + _classify_raise(ex), f'location filter raised {type(ex).__name__}: {ex} on a scope published by mk_scopes',
                    {'scope': scope_text, 'filter': dict(zip(ELEMENTS + ('root',), _attrs(filt)))})
        return None
    b = bool(b) and b[0] is svc
    if bool(a) != b:
        ctx.witness('contain.entry_points_disagree', '_scope_string_matches and filter_services_inside disagree',
                    {'scope': scope_text, 'filter': dict(zip(ELEMENTS, _attrs(filt))), 'scope_string_matches': a, 'filter_services_inside': b})
    return b


def w_contain(ctx: core.Ctx, arg):
    warnings.simplefilter('ignore')
    from sdc11073.provider.scopesfactory import mk_scopes
    from sdc11073.wsdiscovery.service import Service
    rng = ctx.rng('contain', arg['i'])
    pool = urigen.hyp_text_pool(arg['pool'], ctx.seed * 1000 + 100 + arg['i'], max_size=30)
    mdib = None
    for case in range(arg['n']):
        if mdib is None or case % 40 == 0:
            mdib = _mk_mdib()
        if case < 63:
            mask = case + 1
            values = {e: (rng.choice(pool) if case % 2 else ['HOSP1', 'B/1', '3?', 'CU 1', 'R&7', 'Bed#42'][i]) for i, e in enumerate(ELEMENTS) if mask >> i & 1}
        else:
            values, mask = _random_values(rng, pool, rng.choice([63, rng.randrange(1, 64), rng.randrange(1, 64)]))
        loc = _mk_loc(values)
        # how the associated location gets into the MDIB: a new state (set_location), or the associated state is updated in
        # place through a transaction / the entity interface (LocationContextStateContainer.update_from_sdc_location)
        how = 'set_location' if case % 40 == 0 else rng.choice(['set_location', 'update_state', 'update_state', 'update_entity'])
        try:
            if how == 'set_location':
                mdib.xtra.set_location(loc)
            else:
                cur = [st for st in mdib.context_states.objects
                       if st.NODETYPE.localname == 'LocationContextState' and st.ContextAssociation == 'Assoc']
                if how == 'update_state':
                    with mdib.context_state_transaction() as mgr:
                        st = mgr.get_context_state(cur[0].Handle)
                        st.update_from_sdc_location(loc)
                else:
                    ent = mdib.entities.by_handle(cur[0].DescriptorHandle)
                    ent.states[cur[0].Handle].update_from_sdc_location(loc)
                    with mdib.context_state_transaction() as mgr:
                        mgr.write_entity(ent, [cur[0].Handle])
            ctx.count(f'contain.published_via.{how}')
            scopes = mk_scopes(mdib)
        except Exception as ex:  # noqa: BLE001
            ctx.witness('publish.raises', f'{how} / mk_scopes raised {type(ex).__name__}: {ex}', {'elements': values, 'how': how})
            mdib = None
            continue
        loc_scopes = [s for s in scopes.text if s.lower().startswith('sdc.ctxt.loc:')]
        ctx.count('contain.locations')
        ctx.case(('contain', mask, urigen.coarse_classes(''.join(values.values()))))
        if case in (0, 70):
            ctx.sample({'kind': 'published location', 'elements': values, 'published_scopes': list(scopes.text)})
        if len(loc_scopes) != 1:
            ctx.witness('publish.location_scope_count', f'{len(loc_scopes)} sdc.ctxt.loc scopes published for one associated location',
                        {'elements': values, 'scopes': list(scopes.text), 'how': how})
            if not loc_scopes:
                continue
        scope_text = loc_scopes[0]
        svc = Service(None, scopes, ['http://10.0.0.1/x'], 'urn:uuid:dev', '1')
        # (1) inside itself and inside every generalisation (every subset of elements set to None) - 2^6
        for gmask in range(64):
            g = _mk_loc({e: values[e] for i, e in enumerate(ELEMENTS) if gmask >> i & 1 and e in values})
            ctx.count('contain.generalisation_checks')
            res = _inside(ctx, g, svc, scope_text)
            if res is False:
                key = 'contain.not_inside_self' if gmask & mask == mask else 'contain.not_inside_generalisation'
                ctx.witness(key, 'published location scope is not inside ' + ('its own location' if gmask & mask == mask else 'an enclosing location'),
                            {'elements': values, 'scope': scope_text, 'filter': dict(zip(ELEMENTS, _attrs(g))), 'how': how})
                break
        # (1b) the device publishes further location-like scopes BEFORE the scope of its associated location (a second location context
        #      descriptor, a foreign or empty sdc.ctxt.loc scope): it is still inside its location and inside every enclosing one
        import copy as _copy
        other_loc = _mk_loc({e: 'elsewhere' for e in ELEMENTS[:3]}, 'other.root')
        for extra in ([other_loc.scope_string], ['sdc.ctxt.loc:'], ['sdc.ctxt.loc:/x', other_loc.scope_string]):
            scopes2 = _copy.deepcopy(scopes)
            scopes2.text[:] = [t for t in scopes.text if t != scope_text] + extra + [scope_text] if case % 2 else extra + list(scopes.text)
            svc2 = Service(None, scopes2, ['http://10.0.0.1/x'], 'urn:uuid:dev', '1')
            for gmask in (63, mask, rng.randrange(64)):
                g = _mk_loc({e: values[e] for i, e in enumerate(ELEMENTS) if gmask >> i & 1 and e in values})
                ctx.count('contain.multi_scope_checks')
                try:
                    found = g.filter_services_inside([svc2])
                except Exception as ex:  # noqa: BLE001
                    ctx.witness('contain.raises.' + _classify_raise(ex), f'location filter raised {type(ex).__name__}: {ex}', {'scopes': list(scopes2.text)})
                    break
                if not (found and found[0] is svc2):
                    ctx.witness('contain.not_inside.other_location_scope_first', 'a device that publishes the scope of its location after another '
                                'sdc.ctxt.loc scope is not found inside its location', {'elements': values, 'scopes': list(scopes2.text),
                                                                                       'filter': dict(zip(ELEMENTS, _attrs(g)))})
                    break
        # (2) inside no location that differs in a specified element
        for i, e in enumerate(ELEMENTS):
            gmask = rng.randrange(64)  # the other elements: a random generalisation of loc (identical or None)
            base = {x: values[x] for j, x in enumerate(ELEMENTS) if x in values and gmask >> j & 1 and x != e}
            if e in values:
                alts = urigen.different_values(rng, values[e], pool)
                kind = 'differing_value'
            else:
                alts = [urigen.pick_value(rng, pool), 'x']
                kind = 'element_not_published'
            for alt in alts:
                other = _mk_loc({**base, e: alt})
                ctx.count(f'contain.negative_checks.{kind}')
                res = _inside(ctx, other, svc, scope_text)
                if res is True:
                    ctx.witness(f'contain.inside_{kind}', f'published location scope is reported inside a location whose "{e}" is different',
                                {'elements': values, 'scope': scope_text, 'filter': dict(zip(ELEMENTS, _attrs(other))), 'how': how})
                    break
        # (3) a filter location with a different root (the fallback instance identifier root is part of the location)
        for root in ('other.root', DEFAULT_ROOT + 'x', DEFAULT_ROOT.upper(), 'sdc.ctxt.loc'):
            other = _mk_loc(dict(values), root)
            ctx.count('contain.negative_checks.root')
            if _inside(ctx, other, svc, scope_text) is True:
                ctx.witness('contain.inside_differing_root', 'published location scope is reported inside a location with a different root',
                            {'elements': values, 'scope': scope_text, 'filter_root': root})
                break


# =============================================================================================
# C  totality of the filter
# =============================================================================================
def _check_total(ctx, filt, scope_texts, origin):
    """filter one service publishing scope_texts; any exception is a witness.  Returns True if nothing raised."""
    from sdc11073.wsdiscovery.service import Service
    from sdc11073.xml_types.wsd_types import ScopesType
    sc = ScopesType()
    sc.text.extend(scope_texts)
    svc = Service(None, sc, [], 'urn:uuid:foreign', '1')
    good = Service(None, ScopesType(filt.scope_string), [], 'urn:uuid:good', '1')
    ok = True
    for s in scope_texts:
        ctx.count('filter.scope_strings')
        try:
            r = filt._scope_string_matches(s)
            if r is not True and r is not False:
                ctx.witness('filter.not_bool', '_scope_string_matches returned a non-bool', {'scope': s, 'result': repr(r)})
            ctx.count('filter.answer.inside' if r else 'filter.answer.outside')
        except Exception as ex:  # noqa: BLE001
            ok = False
            mech = _classify_raise(ex)
            ctx.count('filter.raised.' + mech)
            ctx.count(f'filter.raised.{mech}.origin_{origin}')
            ctx.witness(f'filter.raises.{mech}', f'_scope_string_matches raised {type(ex).__name__}: {ex}',
                        {'scope': s, 'origin': origin, 'raised_in': _innermost(ex)})
    try:
        res = filt.filter_services_inside([good, svc, good])
        ctx.count('filter.services_filtered')
        if [x for x in res if x is good] != [good, good]:
            ctx.witness('filter.lost_good_service', 'a service inside the location was dropped because a foreign service was in the list', {'scopes': scope_texts})
    except Exception as ex:  # noqa: BLE001
        ok = False
        mech = _classify_raise(ex)
        ctx.witness(f'filter.raises.{mech}', f'filter_services_inside raised {type(ex).__name__}: {ex}; the services inside the location are lost with it',
                    {'scopes': scope_texts[:5], 'origin': origin, 'raised_in': _innermost(ex)})
    return ok


def w_foreign(ctx: core.Ctx, arg):
    warnings.simplefilter('ignore')
    rng = ctx.rng('foreign', arg['i'])
    pool = urigen.hyp_text_pool(arg['pool'], ctx.seed * 1000 + 200 + arg['i'], max_size=30)
    filters = [_mk_loc({'fac': 'HOSP1', 'poc': 'CU1', 'bed': 'Bed42'}), _mk_loc({}), _mk_loc({'fac': 'a'}, 'root'),
               _mk_loc({e: 'x/y' for e in ELEMENTS})]
    directed = list(urigen.RAW) if arg['i'] == 0 else []
    for case in range(arg['n']):
        if case < len(directed):
            s, shape = directed[case], ('raw', directed[case][:40])
        else:
            s, shape = urigen.foreign_scope(rng, pool)
        filt = filters[case % len(filters)]
        ctx.case(('foreign',) + shape)
        ok = _check_total(ctx, filt, [s], 'generated')
        if ok:
            ctx.count('filter.tolerated')
        if case in (3, 500):
            ctx.sample({'kind': 'foreign scope', 'scope': s, 'tolerated': ok})


def w_own_scopes(ctx: core.Ctx, arg):
    """every kind of scope mk_scopes itself emits (all context types, identifications with / without extension / root)."""
    warnings.simplefilter('ignore')
    from sdc11073.provider.scopesfactory import mk_scopes
    from sdc11073.xml_types import pm_types
    rng = ctx.rng('own', arg['i'])
    pool = urigen.hyp_text_pool(arg['pool'], ctx.seed * 1000 + 300 + arg['i'], max_size=20)
    filt = _mk_loc({'fac': 'HOSP1'})
    for case in range(arg['n']):
        mdib = _mk_mdib()
        plan = []
        with mdib.context_state_transaction() as mgr:
            for handle in ('lc', 'ec', 'oc', 'wc', 'mc'):
                if handle != 'lc' and rng.random() < 0.5:
                    continue
                st = mgr.mk_context_state(handle, set_associated=True)
                idents = []
                for _ in range(rng.choice([1, 1, 2, 3])):
                    root = rng.choice([None, DEFAULT_ROOT, DEFAULT_ROOT, 'urn:oid:1.2.3', 'http://x/y', '', urigen.pick_value(rng, pool)])
                    ext = rng.choice([None, None, '', 'ext', 'a/b/c', 'HOSP1///CU1//Bed42', urigen.pick_value(rng, pool)])
                    if case == 0:
                        root, ext = DEFAULT_ROOT, None  # the directed case of the design: identification without extension
                    idents.append(pm_types.InstanceIdentifier(root=root, extension_string=ext))
                    plan.append((handle, root, ext))
                st.Identification = idents
                if handle == 'lc':
                    kw = {k: urigen.pick_value(rng, pool) for k in ('poc', 'room', 'bed', 'facility', 'building', 'floor') if rng.random() < 0.5}
                    if case == 0:
                        kw = {'facility': 'HOSP1'}
                    st.LocationDetail = pm_types.LocationDetail(**kw)
        try:
            scopes = list(mk_scopes(mdib).text)
        except Exception as ex:  # noqa: BLE001
            ctx.witness('publish.raises', f'mk_scopes raised {type(ex).__name__}: {ex}', {'plan': plan})
            continue
        ctx.count('own.mdibs')
        ctx.count('own.scopes', len(scopes))
        ctx.count('own.loc_scopes_without_extension', sum(1 for h, r, e in plan if h == 'lc' and not e))
        ctx.case(('own', tuple(sorted((h, r is None, bool(e)) for h, r, e in plan))))
        ok = _check_total(ctx, filt, scopes, 'mk_scopes')
        if case == 0:
            ctx.sample({'kind': 'scopes emitted by mk_scopes', 'identifications': plan, 'scopes': scopes, 'tolerated': ok})


def run(ctx: core.Ctx):
    ctx.rule = ('A: one case = one location (present/absent mask x element values x root) whose scope string is parsed back; B: one case = one location '
                'set on a real ProviderMdib, the published sdc.ctxt.loc scope filtered by all 64 generalisations and by locations differing in one element; '
                'C: one case = one foreign scope string (or the scope list of one generated MDIB) handed to the location filter.  distinct = shape '
                '(mask, set of character classes occurring in the values, root kind / scheme, authority, number of segments, query and fragment class); non-trivial = every case')
    q = ctx.quick
    jobs = []
    for i in range(8 if q else 32):  # thorough: many short jobs, so that no worker comes near the wall-clock watchdog on a loaded machine
        jobs.append(['w_roundtrip', {'i': i, 'n': 1000 if q else 25000, 'pool': 400 if q else 2500}])
    for i in range(8 if q else 32):
        jobs.append(['w_contain', {'i': i, 'n': 250 if q else 3125, 'pool': 300 if q else 1500}])
    for i in range(8 if q else 32):
        jobs.append(['w_foreign', {'i': i, 'n': 1250 if q else 31250, 'pool': 300 if q else 1500}])
    for i in range(4 if q else 16):
        jobs.append(['w_own_scopes', {'i': i, 'n': 50 if q else 1000, 'pool': 100 if q else 1000}])
    core.fanout(ctx, MODULE, 'dispatch', jobs)
    ctx.floor('roundtrip.identical', 2000)
    ctx.floor('roundtrip.identical.non_ascii', 200)
    ctx.floor('roundtrip.identical.reserved_chars', 200)
    ctx.floor('contain.locations', 500)
    ctx.floor('contain.generalisation_checks', 500 * 60)
    ctx.floor('contain.negative_checks.differing_value', 2000)
    ctx.floor('filter.scope_strings', 5000)
    ctx.floor('filter.answer.outside', 1000)
    ctx.floor('own.scopes', 300)
    ctx.assumptions += [
        'element values are non-empty strings of Unicode scalar values (an empty string cannot be told from "absent" in the query form and is treated as absent; '
        'lone surrogates cannot be UTF-8 encoded)',
        'the root of a location counts as part of "the same location" (SdcLocation.__eq__ includes it); non-default roots are reported under their own keys',
        '"differs in a specified element" is read as: the filter location specifies element e = v and the published location has e != v (or does not publish e)',
        'the MDIB is a minimal generated one (one MDS, all six context descriptors); set_location requires at least one element, so the all-absent location is '
        'only part of the round-trip monitor',
    ]


def dispatch(ctx: core.Ctx, job):
    globals()[job[0]](ctx, job[1])
