"""C09 - operation invocations follow the BICEPS invocation-state protocol end to end.

A real provider (tutorial role providers + harness operations registered through the real SCO registry: succeed, FinMod, return
Fail / Cnclld / CnclldMan, raise, blocked; each in queued and in direct mode) and 1-4 real consumers over the loop-back transport.

(live)   requests through the real consumer service clients, sequential and from concurrent consumer threads (1 or 3 threads per
         consumer), bursts against a blocked worker (harness operation or gated tutorial operation with its real handler; queue of
         10 -> queue.Full -> SOAP fault = "fault, no states"; sizes around the boundary 10/11/12 and seeded random sizes), unknown
         operation handles (never registered, withdrawn, existing non-operation handle, while the worker is blocked).
         Provider-side schedules: http_first (as it happens) and worker_first (the enqueuing HTTP thread is held until the worker
         has emitted everything: reports reach the consumers before the Wait response).  Sync and async subscription manager.
         Ids that appear ONLY in reports (their request got a fault) are judged too: nothing or a legal sequence.
         Wire monitors (responses + OperationInvokedReport bodies parsed with lxml only): TransactionId unique and increasing in
         real-time order; per transaction and subscriber the automaton of the statement; raising handler -> Fail + error info;
         unknown operation -> Fail / fault and snap(mdib) unchanged.  Future monitors: completes exactly once, final state, own
         parts only, all parts, in order.  Quiescence is decided logically (monitored worker queue: every item put was taken
         and the worker came back for the next one; sentinel through the consumer's deferred dispatcher), never by time.
(perm)   consumer side, deterministic: the OperationInvokedReport notifications addressed to the consumer under test are
         captured in the transport (the provider sees HTTP 200), the Set response is held in a transport observer, and the real
         messages are delivered to the real consumer endpoint in EVERY order (all permutations of the 1-3 reports x all
         groupings of consecutive reports into one multi-part message x every position of the response), interleaved with up
         to 40 foreign report parts (real reports of another consumer's transactions; bound: below the manager's 50 part
         buffer).  Oracle: reference model ``invocmodel.consumer_model`` (where the handle must complete and with which parts),
         bounded progress N = 0 delivered messages (synchronous dispatcher).
(sched)  lock-granularity explorer on the consumer manager: its dict / deque are scheduling points.  'caller' side: wherever the
         thread inside call_operation touches them without holding the manager lock, the pending reports are delivered right
         there (= the notification thread being scheduled).  'reporter' side: a helper thread delivering one report is parked at
         such a point, the caller gets its response and finishes call_operation, then the helper is resumed.  On the intact
         code there is no such point (dry runs and protected points are counted).
(yield)  sys.monitoring LINE yield injection (a) inside SdcProvider.generate_transaction_id under 4 concurrent direct-mode
         consumers, (b) inside SingleValueCollector.__init__ (the round-trip collector every notification sender binds to the
         soap client it shares with the other sending threads) under 3 concurrent consumers.
Observation point added from outside: exceptions leaving BicepsSubscription.send_notification_report that originate in that
collector.  Once one was seen the provider has dropped transactions and flagged subscriptions; everything the monitors see
afterwards in that rig is folded into the single witness ``notify.collector_race`` (the rig is abandoned).
"""
from __future__ import annotations

import concurrent.futures
import email.message
import io
import itertools
import sys
import threading
import time
import traceback
from collections import defaultdict, deque
from decimal import Decimal

import sdc11073.consumer.operations as cons_ops
from sdc11073.httpserver.httpreader import HTTPReader
from sdc11073.provider import operations as prov_ops
from sdc11073.provider.operations import ExecuteResult
from sdc11073.xml_types.msg_types import InvocationState

from .. import core
from .. import invocmodel as im
from ..history import snap, snap_equal
from ..loopback import Respond
from ..mdibharness import World

MODULE = 'vf.props.c09'
WATCHDOG_S = 20.0
FOREIGN_BOUND = 40  # documented bound: below OperationsManager._last_operation_invoked_reports maxlen (50)

OUTCOMES = {'ok': InvocationState.FINISHED, 'finmod': InvocationState.FINISHED_MOD, 'fail': InvocationState.FAILED,
            'cnclld': InvocationState.CANCELLED, 'cnclldman': InvocationState.CANCELLED_MANUALLY, 'raise': None}
OP_CLASSES = {'SetValue': prov_ops.SetValueOperation, 'SetString': prov_ops.SetStringOperation,
              'Activate': prov_ops.ActivateOperation, 'SetContextState': prov_ops.SetContextStateOperation,
              'SetMetricState': prov_ops.SetMetricStateOperation, 'SetAlertState': prov_ops.SetAlertStateOperation,
              'SetComponentState': prov_ops.SetComponentStateOperation}
KIND_OF_CLASS = {v.__name__: k for k, v in OP_CLASSES.items()}



RAISE_VARIANTS = [
    (RuntimeError, 'vf: handler of {op} raises'), (ValueError, 'a <b> & c ]]> "q"'), (RuntimeError, 'device said: \x00\x01\x02\x1f'),
    (KeyError, '{op}'), (RuntimeError, ''), (OSError, 'fehler: \u00e4\u4e2d\U0001F600'), (RuntimeError, 'lone surrogate \ud800'),
    (RuntimeError, 'x' * 5000), (ValueError, 'line1\nline2\r\n\ttabbed'), (RuntimeError, '\x7f\x85\ufffe\uffff'),
]


def urigen_class(text):
    if not text:
        return 'empty'
    if any(ord(c) < 0x20 and c not in '\t\n\r' for c in text) or any(0xD800 <= ord(c) <= 0xDFFF or ord(c) in (0xFFFE, 0xFFFF) for c in text):
        return 'not_xml_chars'
    if any(c in '<&>' for c in text):
        return 'markup'
    if any(ord(c) > 127 for c in text):
        return 'non_ascii'
    return 'long' if len(text) > 1000 else 'plain'

class Watchdog(Exception):
    pass


# ---------------------------------------------------------------------------------------------------------------------
# counting Future (module-level substitution in sdc11073.consumer.operations, like time / random elsewhere)
# ---------------------------------------------------------------------------------------------------------------------
CURSOR = {'fn': None}  # callable returning the number of events delivered so far to the consumer under test (perm part)


class CountingFuture(concurrent.futures.Future):
    def __init__(self):
        super().__init__()
        self.vf_sets = []

    def set_result(self, result):
        fn = CURSOR['fn']
        self.vf_sets.append((threading.current_thread().name, fn() if fn else None))
        super().set_result(result)


cons_ops.Future = CountingFuture

# ---------------------------------------------------------------------------------------------------------------------
# observation point: exceptions that leave BicepsSubscription.send_notification_report and originate in the round-trip
# collector (SingleValueCollector bound to the shared soap client by another thread)
# ---------------------------------------------------------------------------------------------------------------------
POISON: list[str] = []


def _watch_notification_sender():
    from sdc11073.provider import subscriptionmgr
    cls = subscriptionmgr.BicepsSubscription
    if getattr(cls, 'vf_watched', False):
        return
    orig = cls.send_notification_report

    def send_notification_report(self, body_node, action):
        try:
            return orig(self, body_node, action)
        except (AttributeError, TypeError) as ex:
            frames = traceback.extract_tb(ex.__traceback__)
            if any('valuecollector' in (f.filename or '') or 'roundtrip_time' in (f.line or '') for f in frames):
                POISON.append(f'{action.rsplit("/", 1)[-1]}: {ex!r}'[:200])
            raise
    cls.send_notification_report = send_notification_report
    cls.vf_watched = True


_watch_notification_sender()


# ---------------------------------------------------------------------------------------------------------------------
# transport tap: logical stamps, capture of notifications, injection
# ---------------------------------------------------------------------------------------------------------------------
def decode_request_body(entry) -> bytes:
    msg = email.message.Message()
    for k, v in entry.headers.items():
        msg[k] = v
    fake = type('Req', (), {'headers': msg, 'rfile': io.BytesIO(entry.raw_body)})()
    return HTTPReader.read_request_body(fake, None)


class Tap:
    def __init__(self, world):
        self.world = world
        self.net = world.network
        self._lock = threading.Lock()
        self._n = 0
        self.hold: dict[str, list] = {}  # netloc -> list of captured report messages
        self.tls = threading.local()
        self.on_set_done = None  # callable(entry), runs in the requesting thread after the provider answered, before the client sees it
        self.last_set_entry: dict[int, object] = {}
        self.provider_netloc = f'{world.provider_server.host}:{world.provider_server.port}'
        self.net.policy = self._policy
        self.net.observers.append(self._done)

    def tick(self):
        with self._lock:
            self._n += 1
            return self._n

    def _policy(self, entry):
        entry.extra['t0'] = self.tick()
        if getattr(self.tls, 'inject', False):
            entry.extra['vf_injected'] = True
            return None
        cap = self.hold.get(entry.netloc)
        if cap is not None and entry.method == 'POST':
            body = decode_request_body(entry)
            if im.is_report(body):
                entry.body = body
                entry.extra['held'] = True
                cap.append({'path': entry.path, 'headers': dict(entry.headers), 'raw': entry.raw_body, 'body': body,
                            'parts': im.parse_report(body)})
                return Respond(200, 'OK', b'', name='held')
        return None

    def _done(self, entry):
        entry.extra['t1'] = self.tick()
        if entry.netloc == self.provider_netloc and entry.method == 'POST':
            if entry.body and b'OperationHandleRef' in entry.body:
                self.last_set_entry[threading.get_ident()] = entry
                cb = self.on_set_done
                if cb is not None:
                    cb(entry)

    def inject(self, netloc, msg):
        """deliver a captured (or merged) report message to the consumer endpoint, in the calling thread."""
        self.tls.inject = True
        try:
            return self.net.transmit(netloc, 'POST', msg['path'], msg['headers'], msg['raw'])
        finally:
            self.tls.inject = False


def merged_message(msgs: list[dict]) -> dict:
    if len(msgs) == 1:
        return msgs[0]
    body = im.merge_reports([m['body'] for m in msgs])
    headers = {k: v for k, v in msgs[0]['headers'].items() if k.lower() not in ('content-encoding', 'content-length', 'transfer-encoding')}
    headers['Content-Length'] = str(len(body))
    return {'path': msgs[0]['path'], 'headers': headers, 'raw': body, 'body': body, 'parts': [p for m in msgs for p in m['parts']]}


# ---------------------------------------------------------------------------------------------------------------------
# the rig: world + harness operations + handler recorder + consumers
# ---------------------------------------------------------------------------------------------------------------------
def _message_id(soap_message):
    try:
        el = soap_message.header_node.find(f'{{{im.NS_WSA}}}MessageID')
        return el.text.strip()
    except Exception:  # noqa: BLE001
        return None


class Rig:
    def __init__(self, ctx, mdib_file, n_consumers=1, sync_dispatch=True, harness_kinds=None, async_mgr=False, worker_first=False):
        self.ctx = ctx
        self.mdib_file = mdib_file
        self.world = World(mdib_file, role_provider='no_waveform', async_mgr=async_mgr)
        if async_mgr:
            ctx.count('rig.async_subscription_manager')
        self.prov = self.world.provider
        self.mdib = self.world.mdib
        self.tap = Tap(self.world)
        self.handler_log: dict[str, tuple] = {}  # request MessageID -> ('raise', repr) | ('return', state) ; + mode
        self._raise_no = 0
        self.gates: dict[str, threading.Event] = {}
        self.entered = defaultdict(int)
        self.sync_dispatch = sync_dispatch
        # background threads of the tutorial role providers would touch the MDIB: stop them (operations do not need them)
        for product in self.prov.product_lookup.values():
            for rp in getattr(product, '_ordered_role_providers', []):
                if hasattr(rp, '_stop_worker'):
                    try:
                        rp.stop()
                    except Exception:  # noqa: BLE001
                        pass
        self.queues = {}
        for sco_handle, reg in self.prov._sco_operations_registries.items():
            if reg._worker is not None:
                q = reg._worker._operations_queue
                q.__class__ = im.MonitoredQueue
                q.vf_worker_first = bool(worker_first)
                self.queues[sco_handle] = q
        self.tutorial_ops = []  # specs
        self.harness_ops = {}  # (kind, outcome, mode) -> spec
        self._templates = {}
        self._register_harness_ops(harness_kinds or list(OP_CLASSES))
        self._collect_tutorial_ops()
        # the harness' own record of what is registered (the oracle for "unknown operation" must not ask the library)
        self.known_handles = {h for reg in self.prov._sco_operations_registries.values() for h in reg._registered_operations}  # noqa: SLF001
        self.withdrawn = set()
        for reg in self.prov._sco_operations_registries.values():
            for op in reg._registered_operations.values():
                self._wrap_handler(op)
        self.consumers = []
        for _ in range(n_consumers):
            c, _m = self.world.add_consumer(sync_dispatch=sync_dispatch, with_mdib=False)
            self.consumers.append(c)
        self.netlocs = [f'{c.vf_server.host}:{c.vf_server.port}' for c in self.consumers]
        self.calls = []  # call records
        self.calls_lock = threading.Lock()
        self.consequences = defaultdict(int)
        self.poison_reported = False
        del POISON[:]
        self.seen_ids = {}  # txid -> request summary (all evaluations of this rig)
        self.tx_hist = {}  # txid -> what was evaluated for it in earlier windows (response state, report states per subscriber)
        self.max_done = (-1, None)  # highest id whose response had returned, its request

    # -- witnesses ------------------------------------------------------------------------------------------------
    INDEPENDENT = ('transaction_id.', 'automaton.final_mismatch.direct.response_Fin', 'unknown_op.')

    def witness(self, key, what, detail=None):
        """once a notification sender was hit by the collector race, the provider's subscriptions are flagged and transactions
        were dropped: whatever the monitors see from then on in this rig is a consequence and is folded into ONE witness."""
        if POISON and not key.startswith(self.INDEPENDENT):
            self.consequences[key] += 1
            return
        self.ctx.witness(key, what, detail)

    @property
    def poisoned(self):
        return bool(POISON)

    def flush_poison(self):
        if POISON and not self.poison_reported:
            self.poison_reported = True
            self.ctx.count('race.collector_exceptions', len(POISON))
            self.ctx.witness('notify.collector_race',
                             'a notification sender raised AttributeError/TypeError out of SingleValueCollector (bound to the shared '
                             'soap client by another sending thread before its fields were initialised); transactions lost their '
                             'remaining reports',
                             {'exceptions': POISON[:6], 'n_exceptions': len(POISON), 'consequences_seen_by_the_monitors': dict(self.consequences),
                              'mdib_file': self.mdib_file})

    # -- operations -----------------------------------------------------------------------------------------------
    def _first_of(self, *localnames):
        for d in self.mdib.descriptions.objects:
            if d.NODETYPE.localname in localnames:
                return d
        return None

    def _register_harness_ops(self, kinds):
        sco_handle = next(h for h in self.prov._sco_operations_registries if h in self.queues)
        reg = self.prov._sco_operations_registries[sco_handle]
        self.harness_sco = sco_handle
        mds = self._first_of('MdsDescriptor')
        metric = self._first_of('NumericMetricDescriptor')
        strmetric = self._first_of('StringMetricDescriptor') or metric
        alert = self._first_of('AlertSignalDescriptor', 'AlertConditionDescriptor', 'LimitAlertConditionDescriptor')
        patient = self._first_of('PatientContextDescriptor')
        targets = {'SetValue': metric, 'SetString': strmetric, 'Activate': mds, 'SetContextState': patient,
                   'SetMetricState': metric, 'SetAlertState': alert, 'SetComponentState': mds}
        for kind in kinds:
            target = targets[kind]
            if target is None:
                continue
            for outcome in OUTCOMES:
                for mode in ('queued', 'direct'):
                    handle = f'vf.{kind}.{outcome}.{mode[0]}'
                    op = OP_CLASSES[kind](handle, target.Handle, self._mk_handler(outcome), delayed_processing=(mode == 'queued'))
                    reg.register_operation(op)
                    self.harness_ops[(kind, outcome, mode)] = {'op': handle, 'kind': kind, 'outcome': outcome, 'mode': mode,
                                                               'target': target.Handle, 'origin': 'harness'}
        # operation kinds the sample MDIBs do not offer, with the tutorial handlers
        product = self.prov.product_lookup.get(sco_handle)
        rps = {type(rp).__name__: rp for rp in getattr(product, '_ordered_role_providers', [])}
        extra = []
        if 'GenericMetricProvider' in rps and metric is not None and 'SetMetricState' in kinds:
            extra.append(('SetMetricState', metric, rps['GenericMetricProvider']._set_metric_state))
        if 'GenericSetComponentStateOperationProvider' in rps and mds is not None and 'SetComponentState' in kinds:
            extra.append(('SetComponentState', mds, rps['GenericSetComponentStateOperationProvider']._set_component_state))
        self._extra_tutorial = []
        for kind, target, handler in extra:
            handle = f'vf.{kind}.tutorial'
            reg.register_operation(OP_CLASSES[kind](handle, target.Handle, handler))
            self._extra_tutorial.append(handle)
        # a blocked operation and a barrier per SCO
        blocked = prov_ops.SetStringOperation('vf.blocked', strmetric.Handle, self._blocked_handler)
        reg.register_operation(blocked)
        self.blocked_spec = {'op': 'vf.blocked', 'kind': 'SetString', 'outcome': 'ok', 'mode': 'queued', 'target': strmetric.Handle,
                             'origin': 'harness'}

    def _mk_handler(self, outcome):
        state = OUTCOMES[outcome]

        def handler(params):
            if state is None:
                # what a handler may put into its exception: plain text, markup, control characters / NUL (echoed device bytes), non-ASCII,
                # a lone surrogate, nothing at all, a long text; different exception types
                self._raise_no += 1
                exc_cls, text = RAISE_VARIANTS[self._raise_no % len(RAISE_VARIANTS)]
                self.ctx.count(f'raise.variant.{exc_cls.__name__}.{urigen_class(text)}')
                raise exc_cls(text.replace('{op}', params.operation_instance.handle))
            return ExecuteResult(params.operation_instance.operation_target_handle, state)
        return handler

    def _blocked_handler(self, params):
        self.entered['vf.blocked'] += 1
        gate = self.gates.setdefault('vf.blocked', threading.Event())
        if not gate.wait(WATCHDOG_S):
            self.ctx.not_decided('blocked handler: gate never opened (watchdog)')
        return ExecuteResult(params.operation_instance.operation_target_handle, InvocationState.FINISHED)

    def _collect_tutorial_ops(self):
        for reg in self.prov._sco_operations_registries.values():
            for handle, op in reg._registered_operations.items():
                if handle.startswith('vf.') and handle not in self._extra_tutorial:
                    continue
                kind = KIND_OF_CLASS.get(type(op).__name__)
                if kind is None:
                    continue
                self.tutorial_ops.append({'op': handle, 'kind': kind, 'outcome': 'tutorial', 'mode': 'queued',
                                          'target': op.operation_target_handle, 'origin': 'tutorial'})

    def set_tutorial_mode(self, mode):
        """only at a quiescent point."""
        for spec in self.tutorial_ops:
            op = self.prov.get_operation_by_handle(spec['op'])
            op.delayed_processing = (mode == 'queued')
            spec['mode'] = mode

    def _wrap_handler(self, op):
        orig = op._operation_handler
        log = self.handler_log

        def handler(params):
            mid = _message_id(params.soap_message)
            mode = 'queued' if params.operation_instance.delayed_processing else 'direct'
            try:
                res = orig(params)
            except BaseException as ex:
                log[mid] = ('raise', repr(ex)[:200], mode)
                raise
            log[mid] = ('return', getattr(res.invocation_state, 'value', repr(res.invocation_state)), mode)
            return res
        op._operation_handler = handler

    # -- arguments ------------------------------------------------------------------------------------------------
    def _state_template(self, target):
        st = self._templates.get(target)
        if st is None:
            with self.mdib.mdib_lock:
                st = self.mdib.states.descriptor_handle.get_one(target).mk_copy()
            self._templates[target] = st
        return st.mk_copy()

    def _context_state(self, target, variant):
        descr = self.mdib.descriptions.handle.get_one(target)
        cls = self.mdib.data_model.get_state_container_class(descr.STATE_QNAME)
        st = cls(descriptor_container=descr)
        st.Handle = target if variant != 'unknown_state_handle' else 'vf.no.such.state'
        return st

    def issue(self, ci, spec, n=0, variant=None):
        """one request through the real service client of consumer ci -> call record."""
        cons = self.consumers[ci]
        set_c, ctx_c = cons.client('Set'), cons.client('Context')
        kind, handle = spec['kind'], spec['op']
        rec = {'ci': ci, 'spec': dict(spec), 'variant': variant, 'future': None, 'exc': None, 'entry': None}
        ident = threading.get_ident()
        self.tap.last_set_entry.pop(ident, None)
        try:
            if kind == 'SetValue':
                fut = set_c.set_numeric_value(handle, Decimal(n % 97))
            elif kind == 'SetString':
                fut = set_c.set_string(handle, f'vf{n}')
            elif kind == 'Activate':
                fut = set_c.activate(handle, arguments=None)
            elif kind == 'SetContextState':
                fut = ctx_c.set_context_state(handle, [self._context_state(spec['target'], variant)])
            elif kind == 'SetMetricState':
                fut = set_c.set_metric_state(handle, [self._state_template(spec['target'])])
            elif kind == 'SetAlertState':
                fut = set_c.set_alert_state(handle, self._state_template(spec['target']))
            elif kind == 'SetComponentState':
                fut = set_c.set_component_state(handle, [self._state_template(spec['target'])])
            else:
                raise ValueError(kind)
            rec['future'] = fut
        except Exception as ex:  # noqa: BLE001
            rec['exc'] = repr(ex)[:200]
        rec['entry'] = self.tap.last_set_entry.get(ident)
        with self.calls_lock:
            self.calls.append(rec)
        return rec

    # -- quiescence -----------------------------------------------------------------------------------------------
    def quiesce(self):
        """every accepted operation completely processed by its worker, every notification handled by the consumers."""
        t_end = time.time() + WATCHDOG_S
        for q in self.queues.values():
            while not q.vf_quiescent():
                if time.time() > t_end:
                    raise Watchdog('operation worker did not come back to its queue')
                time.sleep(0.0005)
        if not self.sync_dispatch:
            for c in self.consumers:
                evt = threading.Event()
                c._services_dispatcher._queue.put((lambda _req, _e=evt: _e.set(), None, 'vf-barrier'))
                if not evt.wait(max(0.1, t_end - time.time())):
                    raise Watchdog('deferred dispatcher of a consumer did not reach the barrier')

    def stop(self):
        for g in self.gates.values():
            g.set()
        for q in self.queues.values():
            self.ctx.count('sched.worker_first_puts', q.vf_worker_first_waits)
            if q.vf_worker_first_timeouts:
                self.ctx.not_decided(f'worker-first schedule: {q.vf_worker_first_timeouts} enqueuing thread(s) gave up waiting for the worker (hang guard)')
        self.world.stop()

    # -- wire evaluation ------------------------------------------------------------------------------------------
    def wire_view(self):
        requests, reports = [], defaultdict(list)
        for e in list(self.net_log()):
            if e.netloc == self.tap.provider_netloc and e.method == 'POST':
                req = im.parse_request(e.body) if e.body else None
                if req is None:
                    continue
                if e.status is None or 't1' not in e.extra:
                    continue  # still in flight
                resp = im.parse_response(e.response or b'')
                requests.append({'seq': e.seq, 't0': e.extra.get('t0'), 't1': e.extra.get('t1'), 'req': req, 'resp': resp,
                                 'status': e.status, 'thread': e.thread})
            elif e.netloc in self.netlocs and e.method == 'POST' and not e.extra.get('vf_injected'):
                body = e.body
                if body is None:
                    continue
                parts = im.parse_report(body)
                if parts:
                    reports[e.netloc].append({'seq': e.seq, 't0': e.extra.get('t0'), 'parts': parts})
        return requests, reports

    def net_log(self):
        return self.world.network.log

    def evaluate_wire(self, where='live'):
        """the provider-side monitors over everything on the wire since the last call.  Only called at quiescent points (no
        request in flight, every accepted operation completely processed); the wire log is emptied afterwards."""
        ctx = self.ctx
        complete = True
        with self.world.network.lock:
            requests, reports = self.wire_view()
            del self.world.network.log[:]
        ok = [r for r in requests if not r['resp'].get('fault')]
        # (a) ids unique, increasing in real-time order
        seen = self.seen_ids
        for r in ok:
            txid = r['resp']['txid']
            ctx.count('wire.responses_with_id')
            if txid is None:
                self.witness('transaction_id.missing', 'a Set response carries no TransactionId', {'request': r['req']})
                continue
            if txid in seen:
                self.witness('transaction_id.not_unique', 'two requests got the same TransactionId',
                            {'txid': txid, 'a': seen[txid]['req'], 'b': r['req'], 'threads': [seen[txid]['thread'], r['thread']]})
            seen[txid] = {'req': r['req'], 'thread': r['thread']}
        events = []
        for r in ok:
            if r['resp']['txid'] is not None:
                events.append((r['t0'], 0, r))
                events.append((r['t1'], 1, r))
        events.sort(key=lambda x: (x[0], x[1]))
        (max_done, max_done_req), pairs = self.max_done, 0
        for _t, what, r in events:
            if what == 0:
                if max_done_req is not None:
                    pairs += 1
                    if r['resp']['txid'] <= max_done:
                        self.witness('transaction_id.not_increasing',
                                    'request B was issued after the response of A had returned, but id_B <= id_A',
                                    {'id_a': max_done, 'id_b': r['resp']['txid'], 'a': max_done_req['req'], 'b': r['req']})
            elif r['resp']['txid'] > max_done:
                max_done, max_done_req = r['resp']['txid'], r
        self.max_done = (max_done, max_done_req)
        ctx.count('wire.realtime_ordered_pairs', pairs)
        # (b) automaton per transaction and subscriber
        by_tx = defaultdict(lambda: defaultdict(list))  # txid -> netloc -> [part]
        for netloc, msgs in reports.items():
            for m in sorted(msgs, key=lambda x: x['seq']):
                for p in m['parts']:
                    by_tx[p['txid']][netloc].append({**p, 't0': m['t0']})
        resp_by_tx = {r['resp']['txid']: r for r in ok}
        faulted = [r for r in requests if r['resp'].get('fault')]
        ctx.count('wire.faulted_requests_judged', len(faulted))
        for txid in by_tx:
            if txid not in resp_by_tx:
                ctx.count('obs.report_for_transaction_without_response')
                self._judge_unanswered(txid, by_tx[txid], faulted, where)
        result = {}
        for r in ok:
            txid = r['resp']['txid']
            if txid is None:
                continue
            hl = self.handler_log.get(r['req']['message_id'])
            known = r['req']['op_handle'] in self.known_handles and r['req']['op_handle'] not in self.withdrawn
            mode = hl[2] if hl else ('unknown_op' if not known else 'nohandler')
            views = by_tx.get(txid, {})
            all_msgs = [r['resp']] + [p for v in views.values() for p in v]
            final_states = set()
            subs = list(views.items()) or [(None, [])]
            emitted = set()
            for netloc, parts in subs:
                states = [p['state'] for p in parts]
                problems = im.check_sequence(r['resp']['state'], states, complete)
                ctx.count('automaton.sequences_checked')
                ctx.count(f'automaton.shape.{mode}.{r["resp"]["state"]}+{"-".join(states) or "none"}')
                for suffix, text in problems:
                    key = f'automaton.{suffix}.{mode}'
                    if suffix == 'final_mismatch':
                        key += f'.response_{r["resp"]["state"]}'
                    if (key, text) in emitted:
                        continue  # the other subscribers saw the same
                    emitted.add((key, text))
                    self.witness(key, text, {'where': where, 'txid': txid, 'request': r['req'], 'response_state': r['resp']['state'],
                                            'report_states': states, 'handler': hl, 'subscriber': netloc, 'mdib_file': self.mdib_file})
                final_states.update(s for s in [r['resp']['state']] + states if s in im.FINAL)
            result[txid] = {'final': sorted(final_states), 'views': views, 'resp': r['resp'], 'mode': mode}
            self.tx_hist[txid] = {'resp_state': r['resp']['state'], 'mode': mode, 'req': r['req'],
                                  'views': {n: [p['state'] for p in v] for n, v in views.items()}}
            if r['resp']['state'] == 'Wait' and views:
                # which schedule was it: the final report on the wire before / after the Wait response had returned
                early = any(p['state'] in im.FINAL and p['t0'] is not None and p['t0'] < r['t1'] for v in views.values() for p in v)
                ctx.count('wire.queued.final_report_' + ('before' if early else 'after') + '_response')
            missing_subs = [n for n in self.netlocs if n not in views] if views else []
            if missing_subs:
                ctx.count('obs.subscriber_without_reports', len(missing_subs))
            # (c) raising handler -> Fail + error information
            if hl and hl[0] == 'raise':
                ctx.count(f'raise.checked.{mode}')
                if final_states != {'Fail'}:
                    self.witness(f'raise.not_fail.{mode}', 'the handler raised, the transaction does not end in Fail (only)',
                                {'txid': txid, 'request': r['req'], 'finals': sorted(final_states), 'handler': hl})
                if not any(m.get('error') or any(m.get('error_msgs') or []) for m in all_msgs):
                    self.witness(f'raise.no_error_info.{mode}', 'the handler raised, no message of the transaction carries '
                                'InvocationError / InvocationErrorMessage', {'txid': txid, 'request': r['req'], 'handler': hl})
            elif hl and hl[0] == 'return':
                ctx.count(f'handler_returned.{hl[1]}.{mode}')
                if final_states and final_states != {hl[1]}:
                    ctx.count(f'obs.reported_final_differs_from_handler_state.{mode}')
            # (d) unknown operation
            if not known:
                ctx.count('unknown_op.responses')
                if r['resp']['state'] != 'Fail' or any(p['state'] != 'Fail' for v in views.values() for p in v):
                    self.witness(f'unknown_op.not_fail.{r["req"]["kind"]}', 'request for an unknown operation handle did not fail',
                                {'request': r['req'], 'response': r['resp']})
        for r in requests:
            if r['resp'].get('fault'):
                ctx.count(f'obs.fault_no_states.{r["req"]["kind"]}.http{r["status"]}')
        return result, reports, requests

    def _judge_unanswered(self, txid, views, faulted, where):
        """states reported for a transaction id that no Set response of this window announced.  Every window is closed at a quiescent
        point, so either the id belongs to a transaction that was evaluated in an earlier window (then the automaton is run again over
        everything reported for it so far), or its request was answered with a fault / not at all: then whatever IS reported for it
        must still be a legal sequence (the statement's 'Wait, Start, one final state' or one final state) - 'fault, no states' is the
        legal normal case and does not come here at all."""
        ctx = self.ctx
        detail = {'where': where, 'txid': txid, 'mdib_file': self.mdib_file,
                  'faulted_requests_in_this_window': [r['req'] for r in faulted][:5], 'n_faulted': len(faulted)}
        hist = self.tx_hist.get(txid)
        if hist is None:
            hist = self.tx_hist[txid] = {'resp_state': None, 'mode': 'unanswered', 'req': None, 'views': {}}
            self.seen_ids.setdefault(txid, {'req': 'reports only (request answered with a fault)', 'thread': None})
        else:
            ctx.count('late_reports.transactions_rejudged')
            detail['note'] = 'the last report(s) arrived after the worker had gone back to its queue (earlier quiescent point)'
        emitted = set()
        for netloc, parts in views.items():
            states = hist['views'].get(netloc, []) + [p['state'] for p in parts]
            hist['views'][netloc] = states
            if hist['resp_state'] is None:
                ctx.count('unanswered.sequences_judged')
                ctx.count(f'unanswered.shape.{"-".join(str(x) for x in states)}')
                if len(states) == 1 and states[0] in im.FINAL:
                    problems = []  # directly one final state
                else:
                    problems = im.check_sequence('Wait', states, True)
                if not problems:
                    ctx.count('obs.unanswered_transaction_with_complete_sequence')
                what = ('states were reported for a transaction id that no Set response announced (request answered with a fault), '
                        'and they are not a legal sequence: ')
            else:
                problems = im.check_sequence(hist['resp_state'], states, True)
                what = ''
            for suffix, text in problems:
                key = f'automaton.{suffix}.{hist["mode"]}'
                if suffix == 'final_mismatch':
                    key += f'.response_{hist["resp_state"]}'
                if (key, text) in emitted:
                    continue
                emitted.add((key, text))
                self.witness(key, what + text, {**detail, 'response_state': hist['resp_state'], 'report_states': states, 'subscriber': netloc,
                                                'request': hist['req']})

    def evaluate_futures(self, wire_result, reports, where='live'):
        """consumer-side monitors for the live part (exact delivery order unknown: interleaving keeps W,S,F order)."""
        ctx = self.ctx
        with self.calls_lock:
            calls, self.calls = self.calls, []
        for rec in calls:
            fut, entry = rec['future'], rec['entry']
            detail = {'where': where, 'spec': rec['spec'], 'variant': rec['variant'], 'mdib_file': self.mdib_file}
            if fut is None:
                ctx.count('future.call_raised')
                resp = im.parse_response(entry.response or b'') if entry is not None and entry.status is not None else None
                if resp is not None and not resp.get('fault'):
                    self.witness('future.call_raised_on_valid_response', 'the service client raised although the provider '
                                'answered with a Set response', {**detail, 'exc': rec['exc'], 'response': resp})
                continue
            ctx.count('future.returned')
            resp = im.parse_response(entry.response or b'') if entry is not None else {}
            txid = resp.get('txid')
            detail['txid'] = txid
            detail['response_state'] = resp.get('state')
            if not fut.done():
                self.witness(f'future.not_completed.{where}', 'all messages of the transaction were delivered and handled, the '
                            'result handle is not completed', {**detail, 'wire': wire_result.get(txid, {}).get('final')})
                continue
            if len(fut.vf_sets) != 1:
                self.witness('future.completed_twice', f'set_result called {len(fut.vf_sets)} times', detail)
            res = fut.result()
            self.check_result_object(res, txid, detail)
            want = [p['state'] for p in wire_result.get(txid, {}).get('views', {}).get(self.netlocs[rec['ci']], [])]
            first_final = next((i for i, st in enumerate(want) if st in im.FINAL), None)
            if first_final is not None:
                want = want[:first_final + 1]  # whatever a provider sends after the final state cannot be demanded
            got = [p.InvocationInfo.InvocationState.value for p in res.report_parts]
            if resp.get('state') in im.IMMEDIATE_FINAL_RESPONSE:
                ctx.count('obs.immediate_final_response.parts_' + ('empty' if not got else 'present'))
                continue
            ctx.count('future.parts_compared')
            if got != want:
                # bound: own parts that waited in the buffer while more than FOREIGN_BOUND foreign parts arrived
                self._classify_parts(got, want, detail, where, rec, txid, reports)

    def _classify_parts(self, got, want, detail, where, rec, txid, reports):
        ctx = self.ctx
        detail = {**detail, 'got': got, 'want': want}
        msgs = sorted(reports.get(self.netlocs[rec['ci']], []), key=lambda m: m['t0'])
        own_t0 = [m['t0'] for m in msgs if any(p['txid'] == txid for p in m['parts'])]
        t1 = rec['entry'].extra.get('t1', 0) if rec['entry'] is not None else 0
        foreign_between = sum(len(m['parts']) for m in msgs if own_t0 and own_t0[0] < m['t0'] < t1)
        if foreign_between > FOREIGN_BOUND:
            ctx.count('obs.parts_differ_beyond_buffer_bound')
            return
        if any(got.count(s) > want.count(s) for s in set(got)):
            self.witness('future.parts_duplicated', 'a report part appears more often in the result than it was delivered', detail)
        elif _is_subsequence(got, want):
            self.witness(f'future.parts_missing.{where}', 'the result lacks report parts of its transaction that were delivered '
                        'before it completed', detail)
        else:
            self.witness('future.parts_out_of_order', 'report parts of the result are not in delivery order', detail)

    def check_result_object(self, res, txid, detail):
        ctx = self.ctx
        state = getattr(res.InvocationInfo.InvocationState, 'value', None)
        if state not in im.FINAL:
            self.witness('future.nonfinal_result', f'the result handle completed with the state {state}', detail)
        if txid is not None:
            if res.InvocationInfo.TransactionId != txid:
                self.witness('future.wrong_transaction_result', 'InvocationInfo of the result belongs to another transaction',
                            {**detail, 'result_txid': res.InvocationInfo.TransactionId})
            foreign = [p.InvocationInfo.TransactionId for p in res.report_parts if p.InvocationInfo.TransactionId != txid]
            if foreign:
                self.witness('future.wrong_transaction_parts', 'the result carries report parts of other transactions',
                            {**detail, 'foreign_txids': foreign})
        return state


def _is_subsequence(a, b):
    it = iter(b)
    return all(x in it for x in a)


# ---------------------------------------------------------------------------------------------------------------------
# (live) workers
# ---------------------------------------------------------------------------------------------------------------------
def _all_specs(rig, modes=('queued', 'direct')):
    specs = [s for (k, o, m), s in sorted(rig.harness_ops.items()) if m in modes]
    return specs


def w_live_sequential(ctx: core.Ctx, arg):
    """every operation kind / handler outcome / mode once or more, one consumer, one request at a time."""
    rig = Rig(ctx, arg['mdib_file'], n_consumers=arg.get('n_consumers', 2), sync_dispatch=arg.get('sync', True),
              async_mgr=bool(arg.get('async_mgr')), worker_first=bool(arg.get('worker_first')))
    sched_tag = ('worker_first' if arg.get('worker_first') else 'http_first', 'async_mgr' if arg.get('async_mgr') else 'sync_mgr',
                 'sync_disp' if arg.get('sync', True) else 'deferred_disp')
    try:
        n = itertools.count()
        # unknown operation handles, every request kind; MDIB must stay as it is.  Done first: once a tutorial operation with an
        # InvocationEffectiveTimeout was called, the idle worker runs its timeout handler, which legitimately writes to the MDIB
        rig.quiesce()
        before = snap(rig.mdib)
        for kind, base in sorted(rig.harness_ops.items()):
            if kind[1] != 'ok' or kind[2] != 'queued':
                continue
            spec = dict(base, op=f'vf.no.such.operation.{kind[0]}', outcome='unknown', origin='unknown')
            rig.issue(0, spec, next(n))
            ctx.case(('live.unknown_op', arg['mdib_file'], kind[0]))
            # a handle that exists in the MDIB, but is not an operation (the target of the request kind)
            rig.issue(0, dict(spec, op=base['target']), next(n))
            ctx.count('unknown_op.existing_non_operation_handle')
            ctx.case(('live.unknown_op.non_operation_handle', arg['mdib_file'], kind[0]))
        rig.quiesce()
        diff = snap_equal(before, snap(rig.mdib))
        ctx.count('unknown_op.snapshots_compared')
        if diff:
            ctx.witness('unknown_op.mdib_changed', 'requests for unknown operation handles changed the MDIB', {'diff': diff[:5]})
        result, reports, _ = rig.evaluate_wire(where='live.unknown')
        rig.evaluate_futures(result, reports, where='live')
        for mode in ('queued', 'direct'):
            rig.set_tutorial_mode(mode)
            specs = [s for s in _all_specs(rig) if s['mode'] == mode] + list(rig.tutorial_ops)
            for rep in range(arg.get('reps', 1)):
                for spec in specs:
                    variants = [None]
                    if spec['origin'] == 'tutorial' and spec['kind'] == 'SetContextState':
                        variants.append('unknown_state_handle')  # the tutorial handler raises ValueError
                    for variant in variants:
                        ci = next(n) % len(rig.consumers)
                        rig.issue(ci, spec, next(n), variant)
                        ctx.case(('live.seq', arg['mdib_file'], spec['kind'], spec['outcome'], spec['mode'], spec['origin'], variant, sched_tag))
                        if arg.get('worker_first') and spec['mode'] == 'queued':
                            ctx.count('live.queued_requests_worker_first')
                        ctx.count(f'live.requests.{spec["mode"]}.{spec["kind"]}.{spec["outcome"]}')
                rig.quiesce()
                result, reports, _ = rig.evaluate_wire(where='live.seq')
                rig.evaluate_futures(result, reports, where='live')
                rig.flush_poison()
            if rig.poisoned:
                break
        # operations withdrawn at run time (ScoOperationsRegistry.unregister_operation_by_handle) after they were used: from then on they are
        # unknown operations - the request must fail and leave the MDIB alone
        if not rig.poisoned:
            rig.quiesce()
            withdrawn_specs = [rig.harness_ops[k] for k in (('SetString', 'ok', 'queued'), ('Activate', 'ok', 'direct'), ('SetValue', 'ok', 'queued'))
                               if k in rig.harness_ops]
            for spec in withdrawn_specs:
                rig.issue(0, spec, next(n))      # used once more right before it is withdrawn
            rig.quiesce()
            rig.evaluate_futures(*rig.evaluate_wire(where='live.seq')[:2], where='live')
            for spec in withdrawn_specs:
                for reg in rig.prov._sco_operations_registries.values():  # noqa: SLF001
                    if spec['op'] in reg._registered_operations:  # noqa: SLF001
                        reg.unregister_operation_by_handle(spec['op'])
                        rig.withdrawn.add(spec['op'])
                        ctx.count('unknown_op.withdrawn_operations')
            before = snap(rig.mdib)
            for spec in withdrawn_specs:
                rig.issue(1 % len(rig.consumers), dict(spec, outcome='unknown', origin='unknown'), next(n))
                ctx.case(('live.withdrawn_op', arg['mdib_file'], spec['kind'], spec['mode']))
            rig.quiesce()
            diff = snap_equal(before, snap(rig.mdib))
            ctx.count('unknown_op.snapshots_compared')
            if diff:
                ctx.witness('unknown_op.mdib_changed.withdrawn', 'a request for an operation that was unregistered before changed the MDIB', {'diff': diff[:5]})
            result, reports, _ = rig.evaluate_wire(where='live.withdrawn')
            rig.evaluate_futures(result, reports, where='live')
        if arg.get('sample'):
            ctx.sample({'kind': 'live sequential', 'mdib_file': arg['mdib_file'],
                        'operations': [s['op'] for s in rig.tutorial_ops] + [f'{len(rig.harness_ops)} harness operations'],
                        'transactions': len(result)})
    except Watchdog as ex:
        ctx.not_decided(f'watchdog (live sequential): {ex}')
    finally:
        rig.stop()


def w_live_concurrent(ctx: core.Ctx, arg):
    """1-4 consumers, one thread each, random operations (both modes, all outcomes) concurrently."""
    rng = ctx.rng('conc', arg['i'])
    old_switch = sys.getswitchinterval()
    rig = Rig(ctx, arg['mdib_file'], n_consumers=arg['n_consumers'], sync_dispatch=arg.get('sync', True),
              async_mgr=bool(arg.get('async_mgr')), worker_first=bool(arg.get('worker_first')))
    uninstall = None
    try:
        if arg.get('yield_injection'):
            uninstall = _install_yield(type(rig.prov).generate_transaction_id.__code__, ctx)
        if arg.get('yield_collector'):
            from sdc11073.observableproperties.valuecollector import SingleValueCollector
            uninstall = _install_yield(SingleValueCollector.__init__.__code__, ctx)
        if arg.get('tiny_switch'):
            sys.setswitchinterval(1e-5)
        for rnd in range(arg['rounds']):
            mode_t = rng.choice(['queued', 'direct'])
            rig.set_tutorial_mode(mode_t)
            pool = _all_specs(rig, ('direct',) if arg.get('direct_only') else ('queued', 'direct'))
            if not arg.get('direct_only'):
                pool = pool + list(rig.tutorial_ops) * 2
            # threads_per_consumer > 1: several calls of ONE consumer in flight at the same time through the real stack (one shared
            # OperationsManager, responses and reports of its transactions interleave as the scheduler likes)
            tpc = arg.get('threads_per_consumer', 1)
            owners = [ci for ci in range(len(rig.consumers)) for _ in range(tpc)]
            plans = [[(rng.choice(pool), rng.randrange(1000)) for _ in range(max(2, arg['per_thread'] // tpc))] for _ in owners]
            start = threading.Barrier(len(owners))

            def body(ci, plan):
                start.wait(WATCHDOG_S)
                for spec, n in plan:
                    rig.issue(ci, spec, n)
                    if tpc > 1:
                        ctx.count('live.shared_consumer_requests')
            threads = [threading.Thread(target=body, args=(ci, plan), name=f'vf-consumer-{ci}.{k}')
                       for k, (ci, plan) in enumerate(zip(owners, plans))]
            for t in threads:
                t.start()
            for t in threads:
                t.join(WATCHDOG_S * 3)
                if t.is_alive():
                    raise Watchdog('consumer thread did not finish')
            rig.quiesce()
            result, reports, _ = rig.evaluate_wire(where='live.conc')
            rig.evaluate_futures(result, reports, where='live')
            ctx.count('live.concurrent_rounds')
            rig.flush_poison()
            for plan in plans:
                for spec, _n in plan:
                    ctx.case(('live.conc', arg['n_consumers'], spec['kind'], spec['outcome'], spec['mode'], bool(arg.get('yield_injection')),
                              bool(arg.get('yield_collector')), bool(arg.get('worker_first')), bool(arg.get('async_mgr')),
                              arg.get('threads_per_consumer', 1)))
            if rig.poisoned:
                break  # subscriptions are flagged, transactions dropped: this rig says nothing more
    except Watchdog as ex:
        ctx.not_decided(f'watchdog (live concurrent): {ex}')
    finally:
        sys.setswitchinterval(old_switch)
        if uninstall:
            uninstall()
        rig.stop()


def _install_yield(code, ctx):
    """yield injection: the executing thread gives up the GIL at every line of the given code object."""
    mon = sys.monitoring
    tool = 4
    mon.use_tool_id(tool, 'vf-c09-yield')

    def on_line(_code, _line):
        ctx.count('yield.injected')
        time.sleep(0.0002)
    mon.register_callback(tool, mon.events.LINE, on_line)
    mon.set_local_events(tool, code, mon.events.LINE)

    def uninstall():
        mon.set_local_events(tool, code, 0)
        mon.register_callback(tool, mon.events.LINE, None)
        mon.free_tool_id(tool)
    return uninstall


def w_live_burst(ctx: core.Ctx, arg):
    """bursts against a blocked worker: queue of 10 fills, further requests fail with a SOAP fault after an id was consumed.

    gate = 'harness': the blocked operation is the harness' vf.blocked; gate = 'tutorial': an operation of the tutorial role providers
    with its REAL handler behind a gate (possibly in another SCO - own worker, own queue - than the harness operations).
    Every request of a burst is judged: answered ones by the automaton, the ones answered with a fault by ``_judge_unanswered``
    (nothing, or a legal sequence, may be reported for their ids)."""
    mixed = bool(arg.get('mixed'))
    kinds = ['SetString', 'Activate'] + (['SetValue', 'SetContextState', 'SetAlertState'] if mixed else [])
    rig = Rig(ctx, arg['mdib_file'], n_consumers=arg['n_consumers'], sync_dispatch=arg.get('sync', True), harness_kinds=kinds,
              async_mgr=bool(arg.get('async_mgr')))
    rng = ctx.rng('burst', arg.get('i', 0))
    try:
        for q in rig.queues.values():
            q.vf_fast_full = not arg.get('real_timeout')
        gate_key = 'vf.blocked'
        blocked_spec = rig.blocked_spec
        if arg.get('gate') == 'tutorial':
            rig.set_tutorial_mode('queued')
            cands = sorted((s for s in rig.tutorial_ops if s['kind'] in ('SetString', 'SetValue', 'Activate')), key=lambda s: s['op'])
            blocked_spec = cands[arg.get('gate_op', 0) % len(cands)]
            gate_key = blocked_spec['op']
            op = rig.prov.get_operation_by_handle(gate_key)
            inner = op._operation_handler  # noqa: SLF001  (the recording wrapper around the real tutorial handler)

            def gated(params, _inner=inner, _key=gate_key):
                rig.entered[_key] += 1
                if not rig.gates.setdefault(_key, threading.Event()).wait(WATCHDOG_S):
                    ctx.not_decided('gated tutorial handler: gate never opened (watchdog)')
                return _inner(params)
            op._operation_handler = gated  # noqa: SLF001
            ctx.count('burst.gated_tutorial_operation')
        gate_sco = next(h for h, reg in rig.prov._sco_operations_registries.items() if gate_key in reg._registered_operations)  # noqa: SLF001
        q = rig.queues[gate_sco]
        same_sco_tutorial = [s for s in rig.tutorial_ops
                             if s['op'] in rig.prov._sco_operations_registries[gate_sco]._registered_operations]  # noqa: SLF001
        full0 = 0
        for burst in arg['bursts']:
            if burst == 'random':
                burst = rng.randrange(8, 31)
            gate = rig.gates.setdefault(gate_key, threading.Event())
            gate.clear()
            entered0 = rig.entered[gate_key]
            rig.issue(0, blocked_spec, 0)
            t_end = time.time() + WATCHDOG_S
            while rig.entered[gate_key] == entered0:  # the worker is now inside the blocked handler
                if time.time() > t_end:
                    raise Watchdog('blocked handler never entered')
                time.sleep(0.0005)
            if arg.get('gate') == 'tutorial':
                specs = [blocked_spec] + ([s for s in same_sco_tutorial if s['op'] != gate_key] if mixed else [])
            else:
                specs = [rig.harness_ops[('SetString', o, 'queued')] for o in ('ok', 'raise', 'fail', 'finmod')]
                if mixed:
                    specs += [rig.harness_ops[k] for k in (('SetValue', 'ok', 'queued'), ('SetContextState', 'raise', 'queued'),
                                                           ('SetAlertState', 'cnclld', 'queued'), ('SetContextState', 'ok', 'queued'))
                              if k in rig.harness_ops]
            if mixed or arg.get('gate') != 'tutorial':
                specs += [rig.harness_ops[('Activate', 'ok', 'direct')], rig.harness_ops[('Activate', 'raise', 'direct')]]
            per = [[] for _ in rig.consumers]
            for k in range(burst):
                per[k % len(per)].append((specs[k % len(specs)] if mixed else specs[0], k))

            def body(ci, plan):
                for spec, n in plan:
                    rig.issue(ci, spec, n)
            threads = [threading.Thread(target=body, args=(ci, plan), name=f'vf-consumer-{ci}') for ci, plan in enumerate(per)]
            for t in threads:
                t.start()
            for t in threads:
                t.join(WATCHDOG_S * 3)
                if t.is_alive():
                    raise Watchdog('burst thread did not finish')
            ctx.count('burst.queue_full_raised', q.vf_full_raised - full0)
            full0 = q.vf_full_raised
            if arg.get('unknown_while_blocked'):
                # the worker sits in the blocked handler, its queue is (possibly) full, no other request is in flight: requests for unknown
                # operation handles must fail at once and leave the MDIB alone
                before = snap(rig.mdib)
                for kind in ('SetString', 'Activate'):
                    base = rig.harness_ops[(kind, 'ok', 'queued')]
                    rig.issue(0, dict(base, op=f'vf.no.such.operation.{kind}', outcome='unknown', origin='unknown'), 1)
                diff = snap_equal(before, snap(rig.mdib))
                ctx.count('unknown_op.snapshots_compared')
                ctx.count('unknown_op.while_worker_blocked', 2)
                if diff:
                    ctx.witness('unknown_op.mdib_changed.blocked_worker', 'requests for unknown operation handles (worker blocked, queue '
                                'filled) changed the MDIB', {'diff': diff[:5]})
            gate.set()
            rig.quiesce()
            result, reports, requests = rig.evaluate_wire(where='live.burst')
            n_faults = sum(1 for r in requests if r['resp'].get('fault'))
            ctx.count('burst.faults', n_faults)
            ctx.count('burst.overflowing' if n_faults else 'burst.not_overflowing')
            rig.evaluate_futures(result, reports, where='live')
            ctx.case(('live.burst', min(burst, 12), len(rig.consumers), mixed, bool(arg.get('real_timeout')), arg.get('gate', 'harness'),
                      bool(arg.get('sync', True)), bool(arg.get('async_mgr'))))
            ctx.count('burst.done')
            rig.flush_poison()
            if rig.poisoned:
                break
    except Watchdog as ex:
        ctx.not_decided(f'watchdog (live burst): {ex}')
    finally:
        rig.stop()


# ---------------------------------------------------------------------------------------------------------------------
# (perm) every ordering of the response and the reports at the consumer
# ---------------------------------------------------------------------------------------------------------------------
def compositions(n):
    """all ways to cut a sequence of n items into consecutive groups: lists of group sizes."""
    if n == 0:
        return [[]]
    out = []
    for first in range(1, n + 1):
        for rest in compositions(n - first):
            out.append([first] + rest)
    return out


class PermDriver:
    """one consumer under test (index 0), one producer of foreign traffic (index 1)."""

    def __init__(self, ctx, rig):
        self.ctx, self.rig, self.tap = ctx, rig, rig.tap
        self.netloc = rig.netlocs[0]
        self.cap = []
        self.tap.hold[self.netloc] = self.cap
        self.foreign_pool = deque()
        self.events = []  # delivered to the consumer under test: ('R',) | ('P', txid, state, uid)
        self.uid = itertools.count()
        CURSOR['fn'] = lambda: len(self.events)
        self.mgr = rig.consumers[0].operations_manager

    # -- foreign traffic ------------------------------------------------------------------------------------------
    def need_foreign(self, n, rng):
        guard = 0
        while len(self.foreign_pool) < n:
            guard += 1
            if guard > 200:
                raise Watchdog('could not produce foreign reports')
            outcome = rng.choice(['ok', 'fail', 'ok', 'finmod'])
            mode = rng.choice(['direct', 'direct', 'queued'])
            spec = self.rig.harness_ops[('Activate', outcome, mode)] if ('Activate', outcome, mode) in self.rig.harness_ops \
                else next(iter(self.rig.harness_ops.values()))
            self.rig.issue(1, spec, guard)
            self.rig.quiesce()
            self.foreign_pool.extend(self.cap)
            del self.cap[:]
        with self.rig.calls_lock:
            self.rig.calls.clear()  # foreign calls are judged by the live part, not here

    # -- delivery -------------------------------------------------------------------------------------------------
    delivering = 0

    def deliver(self, msg):
        for p in msg['parts']:
            self.events.append(('P', p['txid'], p['state'], next(self.uid)))
        self.delivering += 1
        try:
            entry = self.tap.inject(self.netloc, msg)
        finally:
            self.delivering -= 1
        self.ctx.count('perm.messages_delivered')
        if entry.status not in (200, 202):
            self.ctx.witness('consumer.report_rejected', f'the consumer answered HTTP {entry.status} to an OperationInvokedReport',
                             {'parts': msg['parts'], 'response': (entry.response or b'')[-300:]})

    def run_case(self, spec, order, groups, r_pos, n_foreign, rng, variant=None, sched=None):
        """order: permutation of the own report indices; groups: sizes of consecutive groups merged into one message each;
        r_pos: number of own messages delivered before the response; sched: (point index, how many pending to deliver)."""
        ctx, rig = self.ctx, self.rig
        del self.cap[:]
        self.events = []
        n_fresh = n_foreign if n_foreign <= 3 else 2
        self.need_foreign(n_foreign - n_fresh, rng)
        foreign = [self.foreign_pool.popleft() for _ in range(n_foreign - n_fresh)]
        state = {'own': None, 'post': None, 'plan': None, 'error': None, 'entry': None}

        def on_set_done(entry):
            # runs in the consumer's thread: the provider has answered, the client has not seen the response yet
            state['entry'] = entry
            try:
                rig.quiesce()  # the worker has emitted everything for this transaction (captured, not delivered)
                own = list(self.cap)
                del self.cap[:]
                state['own'] = own
                # foreign transactions started AFTER this one (higher ids), their reports overtake the response
                if n_fresh:
                    self.tap.on_set_done = None
                    for k in range(n_fresh):
                        rig.issue(1, rig.harness_ops[('Activate', ('ok', 'fail')[k % 2], 'direct')], k)
                    rig.quiesce()
                    foreign.extend(self.cap)
                    del self.cap[:]
                    ctx.count('perm.foreign_parts_with_higher_id', n_fresh)
                n = len(own)
                perm = [own[i] for i in order if i < n] + [own[i] for i in range(n) if i not in order]
                msgs, k = [], 0
                for size in groups:
                    grp = perm[k:k + size]
                    k += size
                    if grp:
                        msgs.append(merged_message(grp))
                msgs += perm[k:]
                pre, post = msgs[:r_pos], msgs[r_pos:]
                # foreign messages at seeded slots
                rng.shuffle(foreign)
                slots_pre = [rng.randrange(len(pre) + 1) for _ in range(len(foreign) // 2 + len(foreign) % 2)] if foreign else []
                slots_post = [rng.randrange(len(post) + 1) for _ in range(len(foreign) // 2)] if foreign else []
                f_iter = iter(foreign)
                pre = _interleave(pre, slots_pre, f_iter)
                post = _interleave(post, slots_post, f_iter)
                state['plan'] = {'pre': [[(p['txid'], p['state']) for p in m['parts']] for m in pre],
                                 'post': [[(p['txid'], p['state']) for p in m['parts']] for m in post]}
                state['post'] = post
                for m in pre:
                    self.deliver(m)
                exp = state.get('explorer')
                if exp is not None and exp.side == 'reporter' and post:
                    exp.start_reporter(post.pop(0))  # its delivery starts before the response is handed over
                self.events.append(('R',))
            except Exception as ex:  # noqa: BLE001
                state['error'] = ex

        self.tap.on_set_done = on_set_done
        explorer = None
        if sched is not None:
            explorer = Explorer(self, state, sched)
            state['explorer'] = explorer
        self.last_explorer = explorer
        try:
            rec = rig.issue(0, spec, 0, variant)
        finally:
            self.tap.on_set_done = None
            if explorer:
                try:
                    explorer.finish_reporter()
                finally:
                    explorer.detach()
        with rig.calls_lock:
            rig.calls.clear()
        if isinstance(state['error'], Watchdog):
            raise state['error']
        if state['error'] is not None:
            raise state['error']
        entry = state.get('entry')  # (nested foreign requests of the same thread overwrite the per-thread slot)
        resp = im.parse_response(entry.response or b'') if entry is not None else {'fault': True}
        if resp.get('fault') or rec['future'] is None:
            ctx.count('perm.call_without_future')
            if not resp.get('fault'):
                ctx.witness('future.call_raised_on_valid_response', 'the service client raised although the provider answered '
                            'with a Set response', {'spec': spec, 'exc': rec['exc'], 'plan': state['plan']})
            return None
        fut, txid = rec['future'], resp['txid']
        detail = {'where': 'perm', 'spec': {k: spec[k] for k in ('op', 'kind', 'outcome', 'mode')}, 'txid': txid,
                  'response_state': resp['state'], 'order': list(order), 'groups': list(groups), 'response_after_n_messages': r_pos,
                  'foreign_parts': n_foreign, 'plan': state['plan'], 'sched': sched and list(sched)}
        post = state['post'] or []
        if explorer:
            post = [m for m in post if not m.get('vf_delivered')]
        for m in post:
            self.deliver(m)
        # -- oracle ---------------------------------------------------------------------------------------------
        model = im.consumer_model(txid, resp['state'], self.events)
        ctx.count('perm.cases')
        ctx.count(f'perm.completed_by.{model["by"]}')
        if len(fut.vf_sets) > 1:
            ctx.witness('future.completed_twice', f'set_result called {len(fut.vf_sets)} times', detail)
        if model['at'] is None:
            ctx.count('perm.no_final_delivered')
            if fut.done():
                ctx.witness('future.completed_without_final', 'the result handle completed although no final state was delivered', detail)
            return model
        if not fut.done():
            ctx.witness('future.not_completed.perm', 'the response and the final report of the transaction were delivered and '
                        'handled (synchronous dispatcher, N = 0), the result handle is not completed',
                        {**detail, 'model': {k: model[k] for k in ('at', 'by', 'state')}})
            return model
        cursor = fut.vf_sets[0][1]
        # cursor = number of events handed to the consumer when set_result ran (the parts of a message are all entered before
        # the message is delivered); the deciding event of the model must be among them
        if cursor is not None and cursor <= model['at']:
            ctx.witness('future.completed_early', 'the result handle completed before a final state of its transaction (and the '
                        'response) had been delivered', {**detail, 'events_delivered_at_completion': cursor, 'model_at': model['at']})
        res = fut.result()
        state_got = rig.check_result_object(res, txid, detail)
        if state_got in im.FINAL and state_got != model['state']:
            ctx.witness('future.wrong_final_state', f'result state {state_got}, the delivered final state is {model["state"]}', detail)
        if model['parts'] is None:
            ctx.count('obs.immediate_final_response.parts_' + ('empty' if not res.report_parts else 'present'))
            return model
        uid_state = {e[3]: e[2] for e in self.events if e[0] == 'P'}
        want = [uid_state[u] for u in model['parts']]
        got = [p.InvocationInfo.InvocationState.value for p in res.report_parts if p.InvocationInfo.TransactionId == txid]
        ctx.count('future.parts_compared')
        if got != want:
            d2 = {**detail, 'got': got, 'want': want}
            if any(got.count(s) > want.count(s) for s in set(got)):
                ctx.witness('future.parts_duplicated', 'a report part appears more often in the result than it was delivered', d2)
            elif _is_subsequence(got, want):
                ctx.witness('future.parts_missing.perm', 'the result lacks report parts of its transaction that were delivered '
                            'before it completed', d2)
            elif sorted(got) == sorted(want):
                ctx.witness('future.parts_out_of_order', 'report parts of the result are not in delivery order', d2)
            else:
                ctx.witness('future.parts_differ', 'report parts of the result differ from the delivered ones', d2)
        return model


def _interleave(msgs, slots, f_iter):
    out = list(msgs)
    for s in sorted(slots, reverse=True):
        try:
            out.insert(s, next(f_iter))
        except StopIteration:
            break
    return out


# -- lock-granularity explorer on the consumer manager ---------------------------------------------------------------
class _OwnedLock:
    vf_hook = None

    def __init__(self, real):
        self.real, self.owner = real, None

    def acquire(self, *a, **kw):
        if self.vf_hook is not None and self.owner != threading.get_ident():
            self.vf_hook('lock.acquire')   # the moment before the critical section is entered is a scheduling point too
        ok = self.real.acquire(*a, **kw)
        if ok:
            self.owner = threading.get_ident()
        return ok

    def release(self):
        self.owner = None
        self.real.release()

    def __enter__(self):
        self.acquire()
        return self

    def __exit__(self, *a):
        self.release()

    def locked(self):
        return self.real.locked()


class _GuardDict(dict):
    vf_hook = None

    def __contains__(self, k):
        self.vf_hook('transactions.contains')
        return super().__contains__(k)

    def __getitem__(self, k):
        self.vf_hook('transactions.getitem')
        return super().__getitem__(k)

    def __setitem__(self, k, v):
        self.vf_hook('transactions.setitem')
        super().__setitem__(k, v)

    def pop(self, *a):
        self.vf_hook('transactions.pop')
        return super().pop(*a)


class _GuardDeque(deque):
    vf_hook = None

    def __iter__(self):
        self.vf_hook('buffer.iter')
        return super().__iter__()

    def append(self, x):
        self.vf_hook('buffer.append')
        super().append(x)


class Explorer:
    """scheduling points = accesses of the manager's dict / deque by the calling thread; at an access made WITHOUT the manager
    lock the notification thread could run: deliver the next pending report(s) right there."""

    def __init__(self, driver, state, sched):
        self.driver, self.state = driver, state
        self.side, self.target, self.how_many = sched
        # 'caller': the observed thread is the one inside call_operation, the pending reports are delivered at its unprotected
        # points.  'reporter': the observed thread is a helper delivering one report; at its unprotected point it is paused,
        # the caller receives the response and finishes call_operation, then the helper is resumed.
        self.thread = threading.get_ident() if self.side == 'caller' else None
        self.paused, self.resume, self.helper_done = threading.Event(), threading.Event(), threading.Event()
        self.helper = None
        self.in_hook = False
        self.unprotected = []
        self.protected = 0
        mgr = driver.mgr
        self.mgr = mgr
        self.saved = (mgr._transactions_lock, mgr._transactions, mgr._last_operation_invoked_reports)
        self.lock = _OwnedLock(mgr._transactions_lock)
        gd = _GuardDict(mgr._transactions)
        gq = _GuardDeque(mgr._last_operation_invoked_reports, mgr._last_operation_invoked_reports.maxlen)
        gd.vf_hook = gq.vf_hook = self.lock.vf_hook = self.point
        mgr._transactions_lock, mgr._transactions, mgr._last_operation_invoked_reports = self.lock, gd, gq

    def point(self, name):
        if self.in_hook or threading.get_ident() != self.thread or self.state.get('post') is None:
            return
        if self.lock.owner == self.thread:
            self.protected += 1
            return
        if self.side == 'caller' and self.driver.delivering:
            return   # the harness itself is delivering a report in this thread: not a point of the caller's call_operation
        self.unprotected.append(name)
        if len(self.unprotected) - 1 != self.target:
            return
        if self.side == 'reporter':
            self.driver.ctx.count('sched.reporter_paused_at_unprotected_point')
            self.paused.set()
            if not self.resume.wait(WATCHDOG_S):
                self.driver.ctx.not_decided('explorer: paused reporter thread was never resumed (watchdog)')
            return
        self.in_hook = True
        try:
            pending = [m for m in self.state['post'] if not m.get('vf_delivered')][:self.how_many]
            for m in pending:
                m['vf_delivered'] = True
                self.driver.deliver(m)
                self.driver.ctx.count('sched.injected_at_unprotected_point')
        finally:
            self.in_hook = False

    def start_reporter(self, msg):
        """deliver msg in a helper thread; returns when the helper is done or parked at the chosen unprotected point."""
        def body():
            self.thread = threading.get_ident()
            try:
                self.driver.deliver(msg)
            finally:
                self.helper_done.set()
        self.helper = threading.Thread(target=body, name='vf-reporter')
        self.helper.start()
        t_end = time.time() + WATCHDOG_S
        while not (self.paused.is_set() or self.helper_done.is_set()):
            if time.time() > t_end:
                raise Watchdog('reporter helper neither finished nor paused')
            time.sleep(0.0002)

    def finish_reporter(self):
        self.resume.set()
        if self.helper is not None:
            self.helper.join(WATCHDOG_S)
            if self.helper.is_alive():
                raise Watchdog('reporter helper did not finish')

    def detach(self):
        mgr = self.mgr
        lock, tr, buf = self.saved
        tr.clear()
        tr.update(dict.items(mgr._transactions))
        buf.clear()
        buf.extend(deque.__iter__(mgr._last_operation_invoked_reports))
        mgr._transactions_lock, mgr._transactions, mgr._last_operation_invoked_reports = lock, tr, buf
        self.driver.ctx.count('sched.protected_points', self.protected)
        self.driver.ctx.count('sched.unprotected_points', len(self.unprotected))


def w_perm(ctx: core.Ctx, arg):
    rng = ctx.rng('perm', arg['i'])
    rig = Rig(ctx, arg['mdib_file'], n_consumers=2, sync_dispatch=True, harness_kinds=sorted(set(arg['kinds']) | {'Activate'}))
    try:
        drv = PermDriver(ctx, rig)
        foreign_choices = arg['foreign_choices']
        shapes = []
        for kind in arg['kinds']:
            for outcome in arg['outcomes']:
                for mode in ('queued', 'direct'):
                    if (kind, outcome, mode) in rig.harness_ops:
                        shapes.append(rig.harness_ops[(kind, outcome, mode)])
        if arg.get('tutorial'):
            shapes += [dict(s) for s in rig.tutorial_ops]
        case_no = 0
        for spec in shapes:
            n = 3 if spec['mode'] == 'queued' else 1
            for order in itertools.permutations(range(n)):
                for groups in compositions(n):
                    if not arg.get('merged') and any(g > 1 for g in groups):
                        continue
                    for r_pos in range(len(groups) + 1):
                        for rep in range(arg.get('reps', 1)):
                            case_no += 1
                            n_foreign = FOREIGN_BOUND if case_no % 24 == 7 else rng.choice(foreign_choices)
                            model = drv.run_case(spec, order, groups, r_pos, n_foreign, rng)
                            if model is not None:
                                ctx.case(('perm', spec['kind'], spec['outcome'], spec['mode'], spec['origin'], order, tuple(groups),
                                          r_pos, min(n_foreign, 1)))
                                if len(ctx.samples) < 2 and n_foreign and n == 3:
                                    ctx.sample({'kind': 'perm', 'spec': spec, 'order': order, 'groups': groups,
                                                'response_after_n_messages': r_pos, 'foreign_parts': n_foreign,
                                                'delivered': [list(e) for e in drv.events][:30], 'model': model})
        # lock-granularity explorer: (dry run) points, then every unprotected point x 1..3 pending reports
        for spec in shapes:
            if spec['mode'] != 'queued' or spec['outcome'] not in ('ok', 'tutorial', 'raise'):
                continue
            for r_pos in (0, 1, 2):
                for side in ('caller', 'reporter'):
                    drv.run_case(spec, (0, 1, 2), [1, 1, 1], r_pos, 0, rng, sched=(side, -1, 0))
                    ctx.count('sched.dry_runs')
                    unprot = len(drv.last_explorer.unprotected)
                    for target in range(min(unprot, 8)):
                        for how_many in ((1, 2, 3) if side == 'caller' else (1,)):
                            drv.run_case(spec, (0, 1, 2), [1, 1, 1], r_pos, 0, rng, sched=(side, target, how_many))
                            ctx.case(('sched', side, spec['kind'], spec['outcome'], r_pos, target, how_many))
                    ctx.case(('sched.dry', side, spec['kind'], spec['outcome'], r_pos))
        rig.quiesce()
        rig.evaluate_wire(where='perm')
    except Watchdog as ex:
        ctx.not_decided(f'watchdog (perm): {ex}')
    finally:
        CURSOR['fn'] = None
        rig.stop()


# ---------------------------------------------------------------------------------------------------------------------
# =====================================================================================================================
# (inflight) consumer side: SEVERAL transactions of one consumer in flight, reports of all of them and the responses in every order
# =====================================================================================================================
def w_inflight(ctx: core.Ctx, job):
    """The real OperationsManager (constructed as SdcConsumer does) gets real messages (built with the library's factory, read with its
    reader): OperationInvokedReports through on_operation_invoked_report, Set responses through call_operation (the hosted-service client
    is a stub whose post_message returns the prepared response: for the manager a request is answered when its response is processed).
    One case = one total order of {parts of T1 .. Tk (per transaction in emission order), R1 .. Rk}."""
    import itertools
    import logging
    from sdc11073.consumer.operations import OperationsManager
    from sdc11073.definitions_sdc import SdcV1Definitions
    from sdc11073.pysoap.msgfactory import MessageFactory
    from sdc11073.pysoap.msgreader import MessageReader
    from sdc11073.xml_types import msg_types
    from sdc11073.xml_types.addressing_types import HeaderInformationBlock
    logger = logging.getLogger('vf.c09.inflight')
    reader = MessageReader(SdcV1Definitions, None, logger, validate=True)
    factory = MessageFactory(SdcV1Definitions, None, logger, validate=True)
    IS = msg_types.InvocationState
    rng = ctx.rng('inflight', job['i'])
    SEQ = {'WSF': [IS.WAIT, IS.START, IS.FINISHED], 'SF': [IS.START, IS.FINISHED], 'F': [IS.FINISHED], 'WSX': [IS.WAIT, IS.START, IS.FAILED],
           'WSM': [IS.WAIT, IS.START, IS.FINISHED_MOD], 'WC': [IS.WAIT, IS.CANCELLED]}

    def received(payload):
        inf = HeaderInformationBlock(action=payload.action, addr_to='urn:uuid:0e7f4b1e-5a3c-4d53-8f0e-000000000001')
        return reader.read_received_message(factory.mk_soap_message(inf, payload=payload).serialize())

    def mk_report(parts):
        report = msg_types.OperationInvokedReport()
        report.MdibVersion, report.SequenceId = 1, 'urn:uuid:0e7f4b1e-5a3c-4d53-8f0e-0000000000aa'
        for txid, state in parts:
            part = report.add_report_part()
            part.InvocationInfo.TransactionId, part.InvocationInfo.InvocationState = txid, state
            part.InvocationSource = reader.pm_types.InstanceIdentifier('urn:vf', extension_string='x')
            part.OperationHandleRef, part.OperationTarget = f'op{txid}', f'target{txid}'
        return received(report)

    def mk_response(txid, state):
        response = msg_types.SetStringResponse()
        response.MdibVersion, response.SequenceId = 1, 'urn:uuid:0e7f4b1e-5a3c-4d53-8f0e-0000000000aa'
        response.InvocationInfo.TransactionId, response.InvocationInfo.InvocationState = txid, state
        return received(response)

    class Client:
        next_response = None

        def post_message(self, message, msg=None, request_manipulator=None):  # noqa: ARG002
            return self.next_response

    def orders(k, seqs):
        """all total orders: tokens (t, j) = j-th part of transaction t, (t, 'R') = response of t; parts in order, R anywhere"""
        tokens = []
        for t in range(k):
            tokens += [t] * len(seqs[t]) + [('R', t)]
        return tokens

    n_cases = 0
    budget = job['n']
    txbase = 100
    while n_cases < budget:
        k = 2 if rng.random() < 0.8 else 3
        names = [rng.choice(list(SEQ)) for _ in range(k)]
        seqs = [SEQ[n] for n in names]
        # one random total order: shuffle part tokens (per-transaction order is restored by popping in order), responses anywhere
        tokens = orders(k, seqs)
        rng.shuffle(tokens)
        early_heavy = rng.random() < 0.5   # all reports before all responses: the buffer of early parts is what is exercised
        if early_heavy:
            tokens = [x for x in tokens if not isinstance(x, tuple)] + [x for x in tokens if isinstance(x, tuple)]
        merge = rng.random() < 0.25        # consecutive parts travel in one multi-part report
        txids = [txbase + i for i in range(k)]
        if rng.random() < 0.3:
            txids.reverse()                # ids need not come in processing order
        txbase += k
        mgr = OperationsManager(reader, 'vf')
        client = Client()
        remaining = [list(sq) for sq in seqs]
        futures, delivered, done_at = {}, {t: [] for t in range(k)}, {}
        events = []
        i = 0
        step = 0
        while i < len(tokens):
            tok = tokens[i]
            if isinstance(tok, tuple):
                t = tok[1]
                first_state = seqs[t][0] if seqs[t][0] in (IS.WAIT, IS.START) else IS.WAIT
                client.next_response = mk_response(txids[t], first_state)
                futures[t] = mgr.call_operation(client, None)
                events.append(f'R{t}')
                i += 1
            else:
                group = [tok]
                while merge and i + 1 < len(tokens) and not isinstance(tokens[i + 1], tuple) and len(group) < 3:
                    i += 1
                    group.append(tokens[i])
                parts = []
                for t in group:
                    st = remaining[t].pop(0)
                    parts.append((txids[t], st))
                    delivered[t].append(st)
                    events.append(f'{t}:{st.value}')
                mgr.on_operation_invoked_report(mk_report(parts))
                i += 1
            step += 1
            for t, fut in futures.items():
                if fut.done() and t not in done_at:
                    done_at[t] = (step, list(delivered[t]))
        n_cases += 1
        ctx.count('inflight.cases')
        ctx.count(f'inflight.transactions_in_flight.{k}')
        ctx.case(('inflight', k, tuple(names), tuple('R' if isinstance(x, tuple) else 'p' for x in tokens), merge), nontrivial=True)
        detail = {'sequences': names, 'order': events, 'merged_messages': merge, 'txids': txids}
        for t in range(k):
            fut = futures[t]
            final = seqs[t][-1]
            ctx.count('inflight.futures_judged')
            if not fut.done():
                ctx.witness('future.not_completed.inflight', 'response and all reports of the transaction were handled, the result handle is not '
                            'completed (other transactions of the same consumer were in flight)', {**detail, 'transaction': t})
                continue
            res = fut.result()
            got_state = res.InvocationInfo.InvocationState
            if got_state != final:
                ctx.witness('future.wrong_final_state.inflight', f'result state {got_state.value}, the final state reported is {final.value}',
                            {**detail, 'transaction': t})
            got = [(p.InvocationInfo.TransactionId, p.InvocationInfo.InvocationState.value) for p in res.report_parts]
            foreign = [g for g in got if g[0] != txids[t]]
            if foreign:
                ctx.witness('future.foreign_parts.inflight', 'the result carries report parts of another transaction', {**detail, 'transaction': t, 'got': got})
            want = [s.value for s in seqs[t]]
            mine = [g[1] for g in got if g[0] == txids[t]]
            ctx.count('future.parts_compared')
            if mine != want:
                key = 'future.parts_missing.inflight' if _is_subsequence(mine, want) else 'future.parts_differ.inflight'
                ctx.witness(key, 'the result does not carry exactly the report parts of its transaction (all were delivered before it completed)',
                            {**detail, 'transaction': t, 'got': mine, 'want': want})
        if n_cases == 1 and job['i'] == 0:
            ctx.sample({'sub': 'inflight', **detail})


def run(ctx: core.Ctx):
    ctx.rule = ('live: one case = one request (mdib file, operation kind, handler outcome ok/finmod/fail/cnclld/cnclldman/raise/'
                'tutorial, queued/direct, origin, workload sequential/concurrent/burst), judged on the wire (ids, automaton, error '
                'info) and on its Future; perm: one case = one real transaction whose response and 1-3 reports are delivered to the '
                'consumer in one of all orders (permutation x grouping into multi-part messages x response position) with 0-40 '
                'foreign parts (pool: earlier transactions of a second consumer; fresh: transactions started after the own one, '
                'higher ids), shape = (kind, outcome, mode, order, grouping, response position, foreign yes/no); sched: one case '
                'per side (caller/reporter) x unprotected scheduling point x pending reports (none on the intact tree; dry runs '
                'counted). '
                'Live workloads additionally vary the provider-side schedule (http_first: the Wait response returns before the worker '
                'emits; worker_first: the enqueuing thread is held until the worker has emitted Wait/Start/final), the subscription '
                'manager (sync/async), the consumer dispatcher (synchronous/deferred), threads per consumer (1/3) and, in bursts, the '
                'blocked operation (harness / gated tutorial operation, possibly in another SCO), sizes 5-30 incl. the boundary 10/11/12. '
                'Non-trivial: the provider answered with a Set response; a request answered with a fault is judged through the '
                'reports that carry an id no response announced (none = legal; otherwise they must be a legal sequence).')
    ctx.assumptions += [
        'reports of one transaction reach one subscriber through one HTTP connection; all permutations are nevertheless exercised',
        f'foreign parts between the first own report and the response <= {FOREIGN_BOUND} (manager buffer: 50 parts)',
        'bounded progress restatement: synchronous dispatcher, the Future must be done when the deciding message has been handled (N=0); '
        'deferred dispatcher: after a sentinel passed its queue',
        'an immediately final Fail/Cnclld/CnclldMan response completes the Future with an empty part list: accepted (DESIGN C09 S)',
        'queue.Full after put(timeout=1): SOAP fault after an id was consumed = legal "fault, no states" observation; the 1 s '
        'timeout is virtualised (MonitoredQueue.vf_fast_full: a put with timeout on a full queue raises at once) except in one burst',
        'a transaction id that appears only in reports (request answered with a fault): accepted if the reports alone are [Wait] Start Final '
        'or one final state (the operation was executed although the requester got a fault - not covered by the statement, counted as '
        'obs.unanswered_transaction_with_complete_sequence); anything else, e.g. Wait and nothing more, is a violation (automaton.*.unanswered)',
        'reports that arrive after the quiescent point at which their transaction was judged are appended and the transaction is judged again',
        'worker_first schedule: MonitoredQueue.put returns to the enqueuing thread only after the worker came back to get() (item counters; the '
        '20 s guard only detects a hang and makes the run inconclusive)',
        'sco.time is left real (two 1 ms sleeps per queued transaction); quiescence is decided on the monitored worker queue',
        'statement-strict automaton: response Wait requires reports [Wait] Start Final; Wait report optional',
    ]
    q = ctx.quick
    jobs = []
    files = ['mdib_two_mds.xml', '70041_MDIB_Final.xml'] if q else ['mdib_two_mds.xml', '70041_MDIB_Final.xml', '70041_MDIB_multi.xml', 'mdib_tns.xml']
    kinds = list(OP_CLASSES)
    outcomes = list(OUTCOMES)
    foreign_choices = [0, 0, 0, 1, 1, 2, 3, 6, 12] if q else [0, 0, 1, 2, 3, 5, 12, 25]  # + FOREIGN_BOUND in every 24th case
    # the perm jobs are the long ones: started first
    if q:
        jobs.append({'w': 'perm', 'i': 0, 'mdib_file': 'mdib_two_mds.xml', 'kinds': ['SetString'], 'outcomes': outcomes, 'merged': True,
                     'foreign_choices': foreign_choices})
        jobs.append({'w': 'perm', 'i': 1, 'mdib_file': 'mdib_two_mds.xml', 'kinds': ['Activate', 'SetValue'], 'outcomes': ['ok', 'raise', 'fail'],
                     'merged': False, 'foreign_choices': foreign_choices})
        jobs.append({'w': 'perm', 'i': 2, 'mdib_file': 'mdib_two_mds.xml', 'kinds': ['SetContextState', 'SetAlertState'],
                     'outcomes': ['ok', 'raise'], 'merged': False, 'foreign_choices': foreign_choices})
        jobs.append({'w': 'perm', 'i': 3, 'mdib_file': 'mdib_two_mds.xml', 'kinds': ['SetMetricState', 'SetComponentState'],
                     'outcomes': ['ok', 'finmod'], 'merged': False, 'foreign_choices': foreign_choices})
        jobs.append({'w': 'perm', 'i': 4, 'mdib_file': '70041_MDIB_Final.xml', 'kinds': [], 'outcomes': [], 'merged': False, 'tutorial': True,
                     'foreign_choices': foreign_choices})
        jobs.append({'w': 'perm', 'i': 5, 'mdib_file': 'mdib_two_mds.xml', 'kinds': [], 'outcomes': [], 'merged': False, 'tutorial': True,
                     'foreign_choices': foreign_choices})
    else:
        i = 0
        for f in files[:2]:
            for kind in kinds:
                jobs.append({'w': 'perm', 'i': i, 'mdib_file': f, 'kinds': [kind], 'outcomes': outcomes, 'merged': True, 'reps': 2,
                             'foreign_choices': foreign_choices})
                i += 1
        for f in files:
            jobs.append({'w': 'perm', 'i': i, 'mdib_file': f, 'kinds': [], 'outcomes': [], 'merged': True, 'tutorial': True, 'reps': 2,
                         'foreign_choices': foreign_choices})
            i += 1
    for k, f in enumerate(files):
        jobs.append({'w': 'seq', 'mdib_file': f, 'n_consumers': 2, 'sync': True, 'reps': 1 if q else 3, 'sample': k == 0})
    jobs.append({'w': 'seq', 'mdib_file': 'mdib_two_mds.xml', 'n_consumers': 2, 'sync': False, 'reps': 1 if q else 3})
    # provider-side schedule 'worker first' (everything the worker emits is on the wire before the enqueuing thread goes on) and the
    # asynchronous subscription manager, each with synchronous and deferred consumer dispatch
    jobs.append({'w': 'seq', 'mdib_file': 'mdib_two_mds.xml', 'n_consumers': 2, 'sync': False, 'reps': 1 if q else 2, 'worker_first': True})
    jobs.append({'w': 'seq', 'mdib_file': '70041_MDIB_Final.xml', 'n_consumers': 2, 'sync': True, 'reps': 1 if q else 2, 'worker_first': True,
                 'async_mgr': True})
    jobs.append({'w': 'seq', 'mdib_file': 'mdib_two_mds.xml', 'n_consumers': 3, 'sync': True, 'reps': 1 if q else 2, 'async_mgr': True})
    if not q:
        jobs.append({'w': 'seq', 'mdib_file': '70041_MDIB_multi.xml', 'n_consumers': 2, 'sync': True, 'reps': 2, 'worker_first': True})
        jobs.append({'w': 'seq', 'mdib_file': 'mdib_tns.xml', 'n_consumers': 2, 'sync': False, 'reps': 2, 'async_mgr': True})
    n_conc = 4 if q else 16
    for i in range(n_conc):
        jobs.append({'w': 'conc', 'i': i, 'mdib_file': files[i % len(files)], 'n_consumers': 1 + (i + 3) % 4, 'rounds': 3 if q else 12,
                     'per_thread': 12 if q else 25, 'sync': i % 3 != 2, 'tiny_switch': i % 2 == 0})
    for i in range(1 if q else 3):
        jobs.append({'w': 'conc', 'i': 100 + i, 'mdib_file': 'mdib_two_mds.xml', 'n_consumers': 4, 'rounds': 2 if q else 6,
                     'per_thread': 15 if q else 30, 'sync': True, 'yield_injection': True, 'direct_only': True})
    for i in range(1 if q else 2):
        jobs.append({'w': 'conc', 'i': 200 + i, 'mdib_file': files[i % len(files)], 'n_consumers': 3, 'rounds': 2 if q else 4,
                     'per_thread': 10 if q else 20, 'sync': True, 'yield_collector': True})
    for i in range(1 if q else 4):
        jobs.append({'w': 'conc', 'i': 300 + i, 'mdib_file': files[i % len(files)], 'n_consumers': 2 + i % 3, 'rounds': 2 if q else 6,
                     'per_thread': 10 if q else 20, 'sync': i % 2 == 0, 'worker_first': True, 'async_mgr': i % 2 == 1})
    for i in range(1 if q else 4):
        jobs.append({'w': 'conc', 'i': 400 + i, 'mdib_file': files[i % len(files)], 'n_consumers': 2, 'rounds': 3 if q else 8,
                     'per_thread': 24 if q else 36, 'sync': i % 2 == 0, 'threads_per_consumer': 3, 'worker_first': i % 4 == 2, 'tiny_switch': i % 4 == 3})
    jobs.append({'w': 'burst', 'i': 0, 'mdib_file': 'mdib_two_mds.xml', 'n_consumers': 3, 'bursts': [5, 14] if q else [5, 11, 12, 20, 30], 'mixed': False})
    jobs.append({'w': 'burst', 'i': 1, 'mdib_file': '70041_MDIB_Final.xml', 'n_consumers': 4, 'bursts': [24] if q else [9, 17, 24, 30], 'mixed': True})
    jobs.append({'w': 'burst', 'i': 2, 'mdib_file': 'mdib_two_mds.xml', 'n_consumers': 4, 'bursts': [13] if q else [13, 16], 'mixed': False,
                 'real_timeout': True})
    # the boundary of the queue (10 fit behind the blocked one), unknown operations while the worker is blocked
    jobs.append({'w': 'burst', 'i': 3, 'mdib_file': 'mdib_two_mds.xml', 'n_consumers': 1, 'bursts': [10, 11, 12], 'mixed': False,
                 'unknown_while_blocked': True})
    # a gated operation of the tutorial role providers (real handler), same SCO as the harness operations / another SCO, deferred consumers
    jobs.append({'w': 'burst', 'i': 4, 'mdib_file': '70041_MDIB_Final.xml', 'n_consumers': 2, 'bursts': [13] if q else [13, 10, 'random', 'random'],
                 'mixed': False, 'gate': 'tutorial', 'gate_op': 1})
    jobs.append({'w': 'burst', 'i': 5, 'mdib_file': 'mdib_two_mds.xml', 'n_consumers': 3, 'bursts': [14, 'random'] if q else [14, 9, 'random', 'random', 'random'],
                 'mixed': True, 'gate': 'tutorial', 'gate_op': 5, 'sync': False})
    jobs.append({'w': 'burst', 'i': 6, 'mdib_file': '70041_MDIB_Final.xml', 'n_consumers': 4, 'bursts': [22] if q else [22, 'random', 'random'], 'mixed': True,
                 'async_mgr': True, 'unknown_while_blocked': True})
    if not q:
        for i in range(6):
            jobs.append({'w': 'burst', 'i': 10 + i, 'mdib_file': files[i % len(files)], 'n_consumers': 1 + i % 4, 'bursts': ['random'] * 4,
                         'mixed': i % 2 == 0, 'gate': ('harness', 'tutorial')[i % 3 == 1], 'gate_op': i, 'sync': i % 3 != 2,
                         'async_mgr': i % 4 == 3, 'unknown_while_blocked': i % 2 == 1})
    for i in range(2 if q else 8):
        jobs.append({'w': 'inflight', 'i': i, 'n': 400 if q else 4000})
    core.fanout(ctx, MODULE, 'dispatch', jobs, timeout=1500 if q else 3000)
    ctx.floor('inflight.cases', 500)
    for name, minimum in (('automaton.sequences_checked', 200), ('wire.realtime_ordered_pairs', 100), ('raise.checked.queued', 5),
                          ('raise.checked.direct', 5), ('unknown_op.responses', 7), ('unknown_op.snapshots_compared', 2),
                          ('future.returned', 200), ('future.parts_compared', 200), ('perm.cases', 300),
                          ('perm.completed_by.response', 50), ('perm.completed_by.report', 50), ('sched.protected_points', 10),
                          ('burst.faults', 3), ('yield.injected', 50), ('live.concurrent_rounds', 5),
                          ('wire.faulted_requests_judged', 10), ('burst.overflowing', 5), ('burst.gated_tutorial_operation', 2),
                          ('sched.worker_first_puts', 50), ('wire.queued.final_report_before_response', 50),
                          ('wire.queued.final_report_after_response', 50), ('rig.async_subscription_manager', 3),
                          ('unknown_op.while_worker_blocked', 4), ('live.shared_consumer_requests', 50)):
        ctx.floor(name, minimum)


def dispatch(ctx: core.Ctx, job):
    {'seq': w_live_sequential, 'conc': w_live_concurrent, 'burst': w_live_burst, 'perm': w_perm, 'inflight': w_inflight}[job['w']](ctx, job)
