"""C08 - WS-Eventing subscriptions deliver exactly while alive and end cleanly.

The REAL subscription managers (path / reference-parameter dispatch x sync / async) run inside a real SdcProvider on the loop-back
transport.  ``subscriptionmgr_base.time`` is a ``ParkingClock``: the real housekeeping thread runs its loop body once per virtual
second when the harness advances the clock.  Subscribers are raw: Subscribe / Renew / GetStatus / Unsubscribe are built with the
library's message factory and posted to the hosted services; every subscriber owns a fake HTTP server whose component records
what arrives; delivery faults (HTTP 404/500 with and without SOAP fault body, refused connection, timeout) are injected by the
network policy; faults of the connect phase of the synchronous SOAP client (refused / unanswered connect, raised un-wrapped by its
implicit connect) by the connection object the wrapped client class creates.  Some subscribers are the library's own consumer-side
``ConsumerSubscription`` objects (they build the requests and read the responses).  Filters contain look-alikes of the offered
actions.  Reports come from real provider transactions and from the SetService (OperationInvokedReport).

Observation point = every message the provider hands to a subscriber-facing SOAP client (wrapper around the loop-back client
class) plus the wire entry it produced.  Oracle = ``vf.submodel.SubModel`` (written from the statement, never reads the library).
"""
from __future__ import annotations

import re
import traceback
import types
from urllib.parse import urlparse

from lxml import etree

from .. import core, loopback, mdibops
from ..submodel import EPS, TOL, ParkingClock, SubModel
from ..tablewalk import index_vs_scan

MODULE = 'vf.props.c08'
S12 = '{http://www.w3.org/2003/05/soap-envelope}'
WSA = '{http://www.w3.org/2005/08/addressing}'
WSE = '{http://schemas.xmlsoap.org/ws/2004/08/eventing}'
WSE_NS = 'http://schemas.xmlsoap.org/ws/2004/08/eventing'
FAULT_ACTION = 'http://www.w3.org/2005/08/addressing/fault'
END_ACTION = f'{WSE_NS}/SubscriptionEnd'
VF_NS = 'urn:vf:c08'

FLAVOURS = {
    'path_sync': ('sdc11073.provider.subscriptionmgr', 'PathDispatchingSubscriptionsManager', False),
    'ref_sync': ('sdc11073.provider.subscriptionmgr', 'ReferenceParamSubscriptionsManager', False),
    'path_async': ('sdc11073.provider.subscriptionmgr_async', 'SubscriptionsManagerPathAsync', True),
    'ref_async': ('sdc11073.provider.subscriptionmgr_async', 'SubscriptionsManagerReferenceParamAsync', True),
}
FAULT_KINDS = ['http404', 'http500', 'http404_fault', 'http500_fault', 'refused', 'timeout']
# faults of the CONNECT phase (nobody listens / SYN unanswered / no route to the host / reset during connect): the synchronous SOAP client
# raises them from its implicit connect, un-wrapped (ConnectionRefusedError / TimeoutError / OSError EHOSTUNREACH / ConnectionResetError),
# and tries to connect again for the next message; the async client has no separate connect phase (there the kinds mean: the next n
# messages to that host:port fail with what aiohttp raises for it)
CONNECT_KINDS = ['connect_refused', 'connect_timeout', 'connect_unreachable', 'connect_reset']
CONNECT_ERRORS = ('ConnectionRefusedError', 'TimeoutError', 'OSError', 'ConnectionResetError')  # what the sync client's connect raises for them
# requests that name no subscription of the addressed manager: an identifier nobody was given, none at all, the identifier of a
# subscription of the other hosted service, a foreign reference parameter; and near misses of an identifier that IS known: one more
# path element behind it, its upper-case spelling, all but its last character
BOGUS_KINDS = ['random_id', 'no_id', 'wrong_service', 'foreign_refparam', 'id_plus_segment', 'upper_id', 'truncated_id']
# filter strings that are NOT the offered action but resemble it (class -> how it is derived from the action URI .../Service/Name)
DECOYS = {
    'V': 'same_last_segment',      # http://vendor.example/ext/v2/Name
    'M': 'sibling_service',        # .../VfOtherService/Name
    'L': 'last_segment_only',      # Name
    'P': 'service_prefix',         # .../Service
    'C': 'case_variant',           # .../Service/nAME
    'S': 'trailing_slash',         # .../Service/Name/
    'T': 'truncated',              # .../Service/Nam
    'A': 'appended',               # .../Service/NameX   (also written Name+X)
}
REPORT_KINDS = ['metric', 'alert', 'component', 'operational', 'context', 'descr', 'rt', 'opinvoked']
STATE_ACTIONS = ['EpisodicMetricReport', 'EpisodicAlertReport', 'EpisodicComponentReport', 'EpisodicOperationalStateReport',
                 'EpisodicContextReport', 'DescriptionModificationReport', 'Waveform', 'PeriodicMetricReport', 'SystemErrorReport']
MDIBS = ['70041_MDIB_Final.xml', 'mdib_two_mds.xml']

_DUR = re.compile(r'^P(?:(\d+)D)?(?:T(?:(\d+)H)?(?:(\d+)M)?(?:(\d+(?:\.\d+)?)S)?)?$')
_CACHE: dict = {}


def parse_duration(text):
    """independent xsd:duration reader (days..seconds)."""
    m = _DUR.match((text or '').strip())
    if not m or text.strip() in ('P', 'PT'):
        return None
    d, h, mi, s = m.groups()
    return int(d or 0) * 86400 + int(h or 0) * 3600 + int(mi or 0) * 60 + float(s or 0)


def parse_envelope(raw: bytes):
    """independent lxml parse of a SOAP envelope -> dict(action, to, refparams, body (local name), fault, expires, mgr_epr)."""
    root = etree.fromstring(raw)
    out = {'action': None, 'to': None, 'refparams': (), 'body': None, 'fault': False, 'expires': None, 'mgr_epr': None}
    header = root.find(f'{S12}Header')
    rps = []
    if header is not None:
        for el in header:
            if el.tag == f'{WSA}Action':
                out['action'] = (el.text or '').strip()
            elif el.tag == f'{WSA}To':
                out['to'] = (el.text or '').strip()
            elif (el.get(f'{WSA}IsReferenceParameter') or '').lower() == 'true':
                rps.append((el.tag, el.text))
    out['refparams'] = tuple(sorted(rps))
    body = root.find(f'{S12}Body')
    if body is not None and len(body):
        first = body[0]
        out['body'] = etree.QName(first).localname
        out['fault'] = first.tag == f'{S12}Fault'
        exp = first.find(f'{WSE}Expires')
        if exp is not None:
            out['expires'] = parse_duration(exp.text)
            out['expires_text'] = exp.text
        epr = first.find(f'{WSE}SubscriptionManager')
        if epr is not None:
            addr = epr.find(f'{WSA}Address')
            rp = epr.find(f'{WSA}ReferenceParameters')
            out['mgr_epr'] = ((addr.text or '').strip() if addr is not None else None,
                              [el for el in rp] if rp is not None else [])
    if out['action'] == FAULT_ACTION:
        out['fault'] = True
    return out


def decode_entry(entry) -> bytes:
    if entry.body is not None:
        return entry.body
    enc = None
    for k, v in entry.headers.items():
        if k.lower() == 'content-encoding':
            enc = v
    if enc:
        from sdc11073.httpserver.compression import CompressionHandler
        return CompressionHandler.decompress_payload(enc, entry.raw_body)
    return entry.raw_body



FILTER_WS = [(' ', '', ''), ('\n', '', ''), (' ', '', ''), ('\t', '', '\n'), ('  ', ' ', ' '), (' ', '', ''), ('\n        ', '\n        ', '\n    ')]

class Sink:
    """dispatcher component of a subscriber's fake HTTP server: records every notification / SubscriptionEnd it receives."""

    def __init__(self):
        self.received = []
        self.answer = (202, 'Accepted', b'')

    def do_post(self, headers, path, peer, body):
        self.received.append((path, body))
        return self.answer


def wrap_client(base, rig, is_async):
    """the loop-back SOAP client class + a record of every hand-over (the property's observation point)."""
    if is_async:
        class HandoffClientAsync(base):
            async def async_post_message_to(self, path, created_message, request_manipulator=None):
                rec = rig.handoff_begin(self._netloc, path, created_message)
                try:
                    result = await super().async_post_message_to(path, created_message, request_manipulator)
                except BaseException as ex:
                    rig.handoff_end(rec, type(ex).__name__)
                    raise
                rig.handoff_end(rec, 'ok')
                return result
        return HandoffClientAsync

    class Connection(loopback.FakeConnection):
        def connect(self):
            rig.on_connect(self.netloc)  # raises what a refused / unanswered connect raises
            super().connect()

    class HandoffClient(base):
        def _mk_http_connection(self):
            return Connection(rig.net, self._netloc, self._ssl_context)

        def post_message_to(self, path, created_message, msg='', request_manipulator=None, validate=True):
            rec = rig.handoff_begin(self._netloc, path, created_message)
            try:
                result = super().post_message_to(path, created_message, msg=msg, request_manipulator=request_manipulator,
                                                 validate=validate)
            except BaseException as ex:
                rig.handoff_end(rec, type(ex).__name__)
                raise
            rig.handoff_end(rec, 'ok')
            return result
    return HandoffClient


class Wedged(Exception):
    """the provider under test is dead-locked; the rig cannot be used (or stopped) any more."""


class Rig:
    """one provider (one manager class, one max duration, one failure limit) + raw subscribers + model + monitors."""

    def __init__(self, ctx, cfg):
        import importlib

        import sdc11073.provider.subscriptionmgr_base as smb
        from sdc11073 import observableproperties as properties

        from ..mdibharness import World
        self.ctx, self.cfg = ctx, cfg
        mod, clsname, self.is_async = FLAVOURS[cfg['flavour']]
        self.sa = 'async' if self.is_async else 'sync'
        self.by_path_dispatch = cfg['flavour'].startswith('path')
        cls = getattr(importlib.import_module(mod), clsname)
        self.vc = ParkingClock()
        smb.time = self.vc  # BEFORE the managers are constructed: the housekeeping threads park in vc.sleep()
        _CACHE.setdefault('orig_limit', smb.SubscriptionBase.MAX_NOTIFY_ERRORS)
        self.limit = cfg.get('limit') or _CACHE['orig_limit']
        smb.SubscriptionBase.MAX_NOTIFY_ERRORS = self.limit
        self.net = loopback.Network()
        self.handoffs: list[dict] = []
        base = loopback.mk_soap_client_async_class(self.net) if self.is_async else loopback.mk_soap_client_class(self.net)
        client_cls = wrap_client(base, self, self.is_async)

        def hook(comps):
            comps.subscriptions_manager_class.update({'StateEvent': cls, 'Set': cls})
            comps.soap_client_class = client_cls

        self.world = World(cfg['mdib'], async_mgr=self.is_async, role_provider=False, network=self.net,
                           max_subscription_duration=cfg['max'], components_hook=hook)
        self.provider = self.world.provider
        handler = self.provider._periodic_reports_handler
        if type(handler).__name__ != 'PeriodicReportsNullHandler':
            handler.stop()  # wall-clock driven periodic reports would make the report sequence non-deterministic
        self.mgrs = dict(self.provider._subscriptions_managers)
        self.ready = self.vc.wait_parked(len(self.mgrs))
        for name, mgr in self.mgrs.items():
            if type(mgr) is not cls:
                raise RuntimeError(f'manager {name} is {type(mgr)}, wanted {cls}')
            properties.strongbind(mgr, sent_to_subscribers=(lambda value, _n=name: self.on_event(_n, value)))
        self.models = {name: SubModel(cfg['max'], self.limit) for name in self.mgrs}
        self.base = self.provider.base_urls[0]
        self.hosted = {name: f'{self.base.geturl()}/{svc.path_element}'
                       for name, svc in self.provider.hosted_services.dpws_hosted_services.items()}
        self.actions = {a: getattr(self.provider.mdib.sdc_definitions.Actions, a).value for a in STATE_ACTIONS + ['OperationInvokedReport']}
        self.subscribers = []
        self.subs: list[dict] = []
        self.by_endpoint: dict = {}
        self.armed: dict = {}
        self.connect_plan: dict = {}
        self.consumer_clients: dict = {}
        self.event = None
        self.unsub_in_delivery = None
        self.unsub_during_event = {}
        self.tick_in_delivery = None
        self.tick_completed_in_delivery = None
        self.wedged = False
        self.stopped = False
        self.steps_done: list = []
        self.memo: dict = {}
        self.tid = 0
        self.net.policy = self.policy
        self.mf = _CACHE.get('mf')
        if self.mf is None:
            from sdc11073 import loghelper
            from sdc11073.definitions_sdc import SdcV1Definitions
            from sdc11073.pysoap.msgfactory import MessageFactory
            self.mf = _CACHE['mf'] = MessageFactory(SdcV1Definitions, None, loghelper.get_logger_adapter('vf.c08'), validate=True)
        self.fault_body = _CACHE.get('fault_body')
        if self.fault_body is None:
            from sdc11073.pysoap.soapenvelope import Fault, faultcodeEnum
            from sdc11073.xml_types.addressing_types import HeaderInformationBlock
            fault = Fault()
            fault.Code.Value = faultcodeEnum.RECEIVER
            fault.add_reason_text('injected by the harness')
            self.fault_body = _CACHE['fault_body'] = self.mf.mk_soap_message(
                HeaderInformationBlock(action=fault.action, addr_to=None), payload=fault).serialize()

    # -- helpers ---------------------------------------------------------------------------------
    @property
    def now(self):
        return self.vc.now

    def detail(self, **kw):
        return {'cfg': self.cfg, 't': round(self.now, 4), 'steps': list(self.steps_done), **kw}

    def witness(self, key, what, **kw):
        self.ctx.witness(key, what, self.detail(**kw))

    def add_subscriber(self, second_netloc: bool):
        sink = Sink()
        sink.answer = (202, 'Accepted', b'') if len(self.subscribers) % 2 == 0 else (200, 'OK', b'')
        servers = [self.net.new_server()] + ([self.net.new_server()] if second_netloc else [])
        for srv in servers:
            srv.dispatcher.register_instance('n', sink)
            srv.dispatcher.register_instance('e', sink)
        s = {'sink': sink, 'netloc': f'127.0.0.1:{servers[0].port}', 'end_netloc': f'127.0.0.1:{servers[-1].port}'}
        self.subscribers.append(s)
        return s

    def lib_state(self):
        out = []
        for name, mgr in self.mgrs.items():
            with mgr._subscriptions.lock:
                for s in mgr._subscriptions.objects:
                    out.append((name, s.identifier_uuid.hex, s._started, s._expire_seconds, s.unsubscribed_at, s.notify_errors,
                                s._is_closed, s.notify_to_address, tuple(s.actions_filter)))
        return sorted(out, key=repr)

    def post(self, address, raw, accept_encoding='gzip'):
        u = urlparse(address)
        headers = {'Content-Type': 'application/soap+xml; charset=utf-8', 'Content-Length': str(len(raw)), 'Host': u.netloc,
                   'user_agent': 'vf-c08'}
        if accept_encoding is not None:
            headers['Accept-Encoding'] = accept_encoding
        entry = self.net.transmit(u.netloc, 'POST', u.path, headers, raw)
        resp = entry.response
        if isinstance(resp, str):
            resp = resp.encode('utf-8')
        try:
            parsed = parse_envelope(resp)
        except Exception:  # noqa: BLE001
            parsed = {'fault': entry.status is not None and entry.status >= 400, 'body': None, 'action': None, 'unparsable': True,
                      'expires': None, 'mgr_epr': None}
        parsed['status'] = entry.status
        return parsed

    # -- observation: hand-over to the SOAP client -------------------------------------------------
    def handoff_begin(self, netloc, path, created_message):
        rec = {'netloc': netloc, 'path': path, 'hib': created_message.p_msg.header_info_block, 'log0': len(self.net.log),
               'outcome': None, 'event': self.event, 't': self.now}
        self.handoffs.append(rec)
        return rec

    def handoff_end(self, rec, outcome):
        rec['outcome'] = outcome
        rec['wire'] = [e for e in self.net.log[rec['log0']:] if e.netloc == rec['netloc'] and e.path == rec['path']][:1]

    def handoff_message(self, rec):
        """what was (to be) put on the wire: parsed from the wire entry when there is one, else from the header block."""
        if rec.get('wire'):
            try:
                p = parse_envelope(decode_entry(rec['wire'][0]))
                return p['action'], p['to'], p['refparams'], p
            except Exception:  # noqa: BLE001
                pass
        hib = rec['hib']
        return hib.Action, hib.To, tuple(sorted((el.tag, el.text) for el in hib.reference_parameters)), None

    def on_connect(self, netloc):
        """connect phase of the synchronous SOAP client (fresh client, or one that was closed without a connection error)."""
        self.ctx.count('connect.attempts')
        plan = self.connect_plan.get(netloc)
        if not plan:
            return
        kind = plan.pop(0)
        self.ctx.count(f'fault.injected.{kind}')
        if kind == 'connect_refused':
            raise ConnectionRefusedError(111, 'Connection refused')
        if kind == 'connect_unreachable':
            raise OSError(113, 'No route to host')
        if kind == 'connect_reset':
            raise ConnectionResetError(104, 'Connection reset by peer')
        raise TimeoutError('timed out')

    def policy(self, entry):
        pending = getattr(self, 'unsub_in_delivery', None)
        if pending and entry.netloc != self.base.netloc and not self.is_async:
            # schedule control: while this report is being delivered to one subscriber, other subscribers unsubscribe (their
            # UnsubscribeResponse returns before the sender reaches them).  Feasible for the synchronous managers only: they do not
            # hold the subscriptions lock while sending (the async managers do - a real Unsubscribe would wait).
            self.unsub_in_delivery = None
            target = self.by_endpoint.get((entry.netloc, entry.path))
            for idx in pending:
                sub = self.subs[idx % len(self.subs)] if self.subs else None
                if sub is None or (target is not None and target[1] == sub['k']):
                    continue
                if self.event is not None and self.event.get('mgr') != sub['mgr']:
                    continue
                self.do_request({'op': 'request', 'kind': 'unsubscribe', 'sub': idx})
                self.unsub_during_event[sub['k']] = len(self.handoffs)
                self.ctx.count('schedule.unsubscribe_during_delivery')
        if self.tick_in_delivery is not None and entry.netloc != self.base.netloc:
            # schedule control: a housekeeping tick becomes due while this delivery is in progress
            dt, self.tick_in_delivery = self.tick_in_delivery, None
            self.tick_completed_in_delivery = self.vc.advance(dt, budget=30)
            self.ctx.count(f'schedule.tick_during_delivery.{"completed" if self.tick_completed_in_delivery else "blocked_until_delivery_done"}')
        plan = self.armed.get((entry.netloc, entry.path))
        if not plan:
            plan = self.armed.get((entry.netloc, None))
        if not plan:
            return None
        kind = plan.pop(0)
        self.ctx.count(f'fault.injected.{kind}')
        name = kind
        if kind == 'http404':
            return loopback.Respond(404, 'Not Found', b'', name=name)
        if kind == 'http500':
            return loopback.Respond(500, 'Internal Server Error', b'', name=name)
        if kind == 'http404_fault':
            return loopback.Respond(404, 'Not Found', self.fault_body, name=name)
        if kind == 'http500_fault':
            return loopback.Respond(500, 'Internal Server Error', self.fault_body, name=name)
        if kind == 'timeout':
            return loopback.Raise(TimeoutError('timed out'), name=name)
        if self.is_async:  # what aiohttp raises for a refused connection / an unreachable host / a connection reset
            from aiohttp.client_exceptions import ClientConnectorError, ClientOSError
            host, port = entry.netloc.split(':')
            key = types.SimpleNamespace(host=host, port=int(port), is_ssl=False, ssl=None)
            if kind == 'reset':
                return loopback.Raise(ClientOSError(104, 'Connection reset by peer'), name=name)
            cause = OSError(113, 'No route to host') if kind == 'unreachable' else ConnectionRefusedError(111, 'Connection refused')
            return loopback.Raise(ClientConnectorError(key, cause), name=name)
        return loopback.Raise(ConnectionRefusedError(111, 'Connection refused'), name=name)

    # -- the report oracle ---------------------------------------------------------------------------
    def on_event(self, mgr_name, value):
        self.close_event()
        action = value[0]
        model = self.models[mgr_name]
        expect = {sub['k']: model.should_send(sub['k'], self.now, action) for sub in self.subs if sub['mgr'] == mgr_name and sub['k'] in model.subs}
        reasons = {k: model.dead_reason(k, self.now) for k in expect}
        self.event = {'mgr': mgr_name, 'action': action, 't': self.now, 'expect': expect, 'reasons': reasons, 'start': len(self.handoffs)}
        self.ctx.count('report.events')
        self.ctx.count(f'report.action.{action.rsplit("/", 1)[-1]}')

    def close_event(self):
        ev, self.event = self.event, None
        if ev is None:
            return
        ctx = self.ctx
        got: dict = {}
        for rec in self.handoffs[ev['start']:]:
            if rec.get('judged'):
                continue
            rec['judged'] = True
            action, to, refparams, _ = self.handoff_message(rec)
            target = self.by_endpoint.get((rec['netloc'], rec['path']))
            if action == END_ACTION:
                self.witness('end.sent_while_running', 'SubscriptionEnd handed to a subscriber while the provider is running',
                             netloc=rec['netloc'], path=rec['path'])
                continue
            if target is None or target[0] != 'notify':
                self.witness('deliver.unknown_endpoint', 'notification handed to an endpoint no subscription named as NotifyTo',
                             netloc=rec['netloc'], path=rec['path'], action=action)
                continue
            k = target[1]
            sub = self.subs[k]
            got.setdefault(k, []).append(rec)
            if sub['mgr'] != ev['mgr']:
                self.witness('deliver.wrong_manager', 'notification of one event source delivered to a subscription of another', sub=k)
                continue
            if action != ev['action']:
                self.witness('deliver.wrong_action', 'wsa:Action of the notification differs from the action of the report',
                             sub=k, action=action, report_action=ev['action'])
            if to != sub['notify'][0] or refparams != sub['notify'][1]:
                self.witness('notify.wrong_address', 'notification not addressed to the NotifyTo EPR (address + reference parameters)',
                             sub=k, to=to, refparams=refparams, notify=sub['notify'])
        during = getattr(self, 'unsub_during_event', {})
        for k, idx in list(during.items()):
            late = [r for r in got.get(k, []) if self.handoffs.index(r) >= idx]
            if late:
                self.witness(f'deliver.after_unsubscribe.during_send.{self.sa}',
                             'report handed to a subscriber after its UnsubscribeResponse was returned (it unsubscribed while the same report was '
                             'being delivered to another subscriber)', sub=k, action=ev['action'])
            ev['expect'][k] = None  # both "sent before the Unsubscribe" and "not sent" are fine
        during.clear()
        t1 = self.now  # > ev['t'] if a delivery of this report took (virtual) time
        for k, exp in ev['expect'].items():
            recs = got.get(k, [])
            n = len(recs)
            sub = self.subs[k]
            model = self.models[sub['mgr']]
            reason = ev['reasons'][k]
            if n > 1:
                self.witness(f'deliver.duplicate.{self.sa}', 'one report handed more than once to the same subscription', sub=k, n=n)
            if exp is None:
                ctx.count('delivery.undecided_near_expiry')
                if n:
                    self.book(k, recs[0], ev['t'])
                continue
            if exp and t1 > ev['t'] + EPS and model.should_send(k, t1, ev['action']) is not True:
                # this subscription expired while the report was being sent to the others: the statement judges "at send time" =
                # the instant of the hand-over.  Not handed at all is right as well (its turn may have come after the expiry).
                ctx.count('delivery.decisions')
                if n and model.should_send(k, recs[0]['t'], ev['action']) is False:
                    self.witness(f'deliver.after_expiry.during_send.{self.sa}',
                                 'report handed to a subscription that had expired at the time of the hand-over (it was still valid when '
                                 'the delivery of the same report to the other subscribers began)', sub=k, action=ev['action'],
                                 handed_at=recs[0]['t'], report_started_at=ev['t'], sub_info=self.sub_info(k))
                else:
                    ctx.count(f'delivery.expired_during_send.{"handed_while_valid" if n else "not_handed"}')
                if n:
                    self.book(k, recs[0], recs[0]['t'])
                continue
            ctx.count('delivery.decisions')
            if exp and n >= 1:
                ctx.count('delivery.sent_as_expected')
                self.book(k, recs[0], ev['t'])
            elif not exp and n == 0:
                ctx.count(f'delivery.suppressed.{"filter" if reason in (None, "near_expiry") else reason}')
                if reason is None:
                    for cls, imitated in sub['decoys'].items():
                        if ev['action'] in imitated:  # the filter holds a look-alike of exactly this action, and nothing was sent
                            ctx.count(f'delivery.suppressed.filter_decoy.{cls}')
            elif exp and n == 0:
                self.witness(f'deliver.missing.{self.sa}', 'live subscription with matching filter was not sent the report',
                             sub=k, action=ev['action'], sub_info=self.sub_info(k))
            else:
                if reason == 'failure_limit':
                    key = f'deliver.after_failure_limit.{self.sa}.{self.streak_class(sub)}'
                elif reason in ('unsubscribed', 'expired', 'ended'):
                    key = f'deliver.after_{ {"unsubscribed": "unsubscribe", "expired": "expiry", "ended": "end"}[reason]}.{self.sa}'
                elif reason is None or reason == 'near_expiry':
                    if any(f != ev['action'] and f.endswith(ev['action']) for f in model.subs[k].actions):
                        # the library matches an action that is a proper suffix of a filter string (its own unit test demands
                        # sub.matches('Act1') for the filter 'http://x/y/Act1'): recorded, not judged
                        ctx.count('obs.filter_string_with_action_as_proper_suffix_matched')
                        self.book(k, recs[0], ev['t'])
                        continue
                    key = f'deliver.filter_mismatch.{self.sa}'
                else:
                    key = f'deliver.to_dead.{reason}.{self.sa}'
                self.witness(key, f'report handed to a subscription that must not get it ({reason or "action not in filter"})',
                             sub=k, action=ev['action'], sub_info=self.sub_info(k),
                             look_alikes_in_filter=sorted(c for c, im in sub['decoys'].items() if ev['action'] in im))
                if reason == 'failure_limit':
                    # follow the library after the witness (one witness per cause, no cascade): it evidently did not count every
                    # failure; its counter = the failures of the current streak that its SOAP client reported, since the last one
                    # the client took for a success
                    s = model.subs[k]
                    self.book(k, recs[0], ev['t'])
                    counted = []
                    for kind, outcome in sub['streak']:
                        counted = [] if outcome == 'ok' else counted + [kind]
                    s.failures, s.fail_kinds = len(counted), counted
                    s.failed_at = ev['t'] if s.failures >= model.limit else None

    def book(self, k, rec, t):
        """outcome of the delivery as seen at the subscriber's endpoint drives the model's failure counter."""
        sub = self.subs[k]
        wire = rec.get('wire') or []
        if wire:
            inj = wire[0].injected
            self.models[sub['mgr']].delivery(k, t, inj is None, inj)
            self.ctx.count('delivery.ok' if inj is None else f'delivery.failed.{inj}')
            if inj is None:
                sub['streak'] = []
            else:
                sub['streak'].append((inj, rec['outcome']))
                if rec['outcome'] == 'ok':
                    self.ctx.count(f'obs.client_returns_normally_on_{inj}.{self.sa}')
        else:
            # nothing reached the wire (the sync client refuses implicit reconnects after a connection error on this netloc)
            kind = f'no_wire_{rec["outcome"]}'
            self.models[sub['mgr']].delivery(k, t, False, kind)
            sub['streak'].append((kind, rec['outcome']))
            if rec['outcome'] in CONNECT_ERRORS:
                self.ctx.count(f'delivery.failed.at_connect.{rec["outcome"]}')
            else:
                self.ctx.count(f'obs.handoff_without_wire.{rec["outcome"]}.{self.sa}')

    @staticmethod
    def streak_class(sub):
        """class of the failed deliveries of the current streak that the library's client did not report as failures."""
        def cls(kind):
            if kind in ('http404', 'http500'):
                return 'http_error_empty_body'
            if kind.endswith('_fault'):
                return 'http_error_fault_body'
            return 'connection' if kind in ('refused', 'timeout', 'unreachable', 'reset') else 'no_wire'
        uncounted = sorted({cls(kind) for kind, outcome in sub['streak'] if outcome == 'ok'})
        return '+'.join(uncounted) or 'failures_were_reported'

    def sub_info(self, k):
        sub = self.subs[k]
        s = self.models[sub['mgr']].subs.get(k)
        return {'mgr': sub['mgr'], 'filter': sorted(s.actions), 'accepted_at': s.accepted_at, 'expires_at': s.expires_at,
                'unsubscribed_at': s.unsubscribed_at, 'failures': s.failures, 'fail_kinds': [str(x) for x in s.fail_kinds],
                'limit': self.limit, 'request': sub['request']}

    def stray_check(self, where):
        """hand-overs that happened outside a report bracket."""
        for rec in self.handoffs:
            if rec.get('judged'):
                continue
            rec['judged'] = True
            action, to, _, _ = self.handoff_message(rec)
            self.witness(f'deliver.outside_report.{where}', 'message handed to a subscriber although no report was being sent',
                         netloc=rec['netloc'], path=rec['path'], action=action)

    # -- steps ------------------------------------------------------------------------------------
    def step(self, st):
        self.steps_done.append(st)
        self.ctx.count(f'step.{st["op"]}')
        getattr(self, 'do_' + st['op'])(st)
        self.close_event()
        self.stray_check(st['op'])
        if not self.stopped:
            self.table_check()

    def table_check(self):
        for name, mgr in self.mgrs.items():
            with mgr._subscriptions.lock:
                problems = index_vs_scan(mgr._subscriptions)
                known = set(dict.keys(mgr._subscriptions.identifier))
            self.ctx.count('table.index_vs_scan')
            if problems:
                self.witness('table.index_vs_scan', 'lookups of the subscription table disagree with a scan', problems=problems[:3])
            model = self.models[name]
            for sub in self.subs:
                if sub['mgr'] == name and sub['k'] in model.subs and model.dead_reason(sub['k'], self.now) is None \
                        and sub['ident'] not in known:
                    self.witness(f'table.live_subscription_removed.{self.sa}', 'a live subscription is no longer in the subscription table',
                                 sub=sub['k'], sub_info=self.sub_info(sub['k']))

    def do_advance(self, st):
        dt = st['dt']
        if 'to_expiry_of' in st and self.subs:
            sub = self.subs[st['to_expiry_of'] % len(self.subs)]
            s = self.models[sub['mgr']].subs.get(sub['k'])
            if s is not None and 0.001 < s.expires_at + st['delta'] - self.now < 100:
                dt = s.expires_at + st['delta'] - self.now
        if not self.vc.advance(dt):
            dead = [name for name, mgr in self.mgrs.items() if not mgr._housekeeping_thread.is_alive()]
            if dead:
                self.witness(f'housekeeping.thread_died.{self.sa}', 'the housekeeping thread ended while the provider is running', managers=dead)
            raise RuntimeError('virtual clock: a housekeeping thread did not come back')
        self.ctx.count('clock.advanced_s', int(dt))

    def do_arm(self, st):
        if not self.subs:
            return
        sub = self.subs[st['sub'] % len(self.subs)]
        if st['kind'] in CONNECT_KINDS:
            epr = sub['end'] if st.get('target') == 'end' and sub['end'] is not None else sub['notify']
            netloc = urlparse(epr[0]).netloc
            if self.is_async:  # no separate connect phase: the next n messages to that host:port fail
                self.armed.setdefault((netloc, None), []).extend([st['kind'][len('connect_'):]] * st['n'])
            else:
                self.connect_plan.setdefault(netloc, []).extend([st['kind']] * st['n'])
            return
        if st.get('whole_netloc'):
            netloc = urlparse(sub['notify'][0]).netloc
            self.armed.setdefault((netloc, None), []).extend([st['kind']] * st['n'])
            return
        epr = sub['end'] if st.get('target') == 'end' and sub['end'] is not None else sub['notify']
        u = urlparse(epr[0])
        self.armed.setdefault((u.netloc, u.path), []).extend([st['kind']] * st['n'])

    def do_subscribe(self, st):
        from sdc11073.namespaces import EventingActions
        from sdc11073.xml_types import eventing_types as evt
        from sdc11073.xml_types.addressing_types import HeaderInformationBlock
        ctx = self.ctx
        while len(self.subscribers) <= st['subscriber']:
            self.add_subscriber(second_netloc=len(self.subscribers) % 2 == 1)
        subscriber = self.subscribers[st['subscriber']]
        k = len(self.subs)
        mgr_name = st['mgr']
        notify_addr = f'http://{subscriber["netloc"]}/n/{k}'
        notify_rp = tuple(sorted((f'{{{VF_NS}}}NotifyId{i}', f'n{k}.{i}') for i in range(st['notify_rp'])))
        end = None
        if st['end']:
            netloc = subscriber['netloc'] if st['end'] == 'same' else subscriber['end_netloc']
            end = (f'http://{netloc}/e/{k}', tuple(sorted((f'{{{VF_NS}}}EndId{i}', f'e{k}.{i}') for i in range(st['end_rp']))))
        filter_uris = [self.resolve_action(n) for n in st['filter']]
        req = evt.Subscribe()
        req.Delivery.Mode = f'{WSE_NS}/DeliveryModes/Push'
        req.Delivery.NotifyTo.Address = notify_addr
        req.Delivery.NotifyTo.ReferenceParameters = [self._rp(t, v) for t, v in notify_rp]
        if end is not None:
            req.init_end_to()
            req.EndTo.Address = end[0]
            req.EndTo.ReferenceParameters = [self._rp(t, v) for t, v in end[1]]
        req.Expires = st['expires'] if st['expires'] is not None else 1
        if st['dialect'] is not None:
            # the filter is a white space separated list of URIs (xs:list): blanks, line breaks and tabs of a pretty-printed request included
            sep, lead, trail = FILTER_WS[k % len(FILTER_WS)]
            req.set_filter(lead + sep.join(filter_uris) + trail)
            ctx.count(f'subscribe.filter_whitespace.{k % len(FILTER_WS)}')
            if st['dialect'] != 'action':
                req.Filter.Dialect = st['dialect']
        nsh = self.mf.ns_hlp
        body = req.as_etree_node(req.NODETYPE, nsh.partial_map(nsh.WSE, nsh.MSG, nsh.PM))
        if st['expires'] is None:
            body.remove(body.find(f'{WSE}Expires'))
        address = self.hosted[mgr_name]
        msg = self.mf.mk_soap_message_etree_payload(HeaderInformationBlock(action=EventingActions.Subscribe, addr_to=address), body)
        before = self.lib_state()
        cs = None
        if st.get('via') == 'consumer_class' and st['dialect'] == 'action' and st['expires'] is not None:
            # role: the library's own consumer-side subscription object builds the Subscribe (and later Renew / GetStatus /
            # Unsubscribe) and reads the responses; it can carry one reference parameter per EPR
            notify_rp = notify_rp[:1]
            end = end and (end[0], end[1][:1])
            cs, resp = self.consumer_subscribe(mgr_name, req.Filter.text, (notify_addr, notify_rp), end, st['expires'])
        else:
            resp = self.post(address, msg.serialize(), accept_encoding=st['accept_encoding'])
        valid = st['dialect'] == 'action'
        req_shape = {'expires': st['expires'], 'dialect': st['dialect'], 'filter': st['filter'], 'accept_encoding': st['accept_encoding'],
                     'end': st['end'], 'notify_rp': len(notify_rp), 'end_rp': len(end[1]) if end else 0, 'via': 'consumer_class' if cs else 'raw'}
        model = self.models[mgr_name]
        if resp['fault'] or resp['body'] != 'SubscribeResponse':
            ctx.count(f'subscribe.refused.{"valid" if valid else "invalid"}_request')
            if self.lib_state() != before:
                self.witness('fault.request_changed_state.subscribe', 'a refused Subscribe changed the subscription table', request=req_shape)
            if valid and st['expires'] != 0:
                why = 'no_accept_encoding' if st['accept_encoding'] is None else 'other'
                self.witness(f'subscribe.valid_request_refused.{why}.{self.sa}',
                             'a valid Subscribe (Action dialect filter, NotifyTo, positive or absent Expires) is answered with a fault',
                             request=req_shape, status=resp.get('status'))
            return
        ctx.count('subscribe.accepted')
        if not valid:
            ctx.count(f'obs.subscribe.accepted_{"without_filter" if st["dialect"] is None else "unknown_dialect"}.{self.sa}')
        granted = resp['expires']
        epr_addr, epr_rp = resp['mgr_epr'] or (None, [])
        ident = (urlparse(epr_addr).path.rsplit('/', 1)[-1] if self.by_path_dispatch else (epr_rp[0].text if epr_rp else None))
        sub = {'k': k, 'mgr': mgr_name, 'subscriber': st['subscriber'], 'notify': (notify_addr, notify_rp), 'end': end,
               'filter_names': {u.rsplit('/', 1)[-1] for u in filter_uris}, 'mgr_epr': (epr_addr, epr_rp), 'ident': ident,
               'request': req_shape, 'streak': [], 'decoys': self.decoys_of(st['filter']) if st['dialect'] is not None else {},
               'cs': cs}
        self.subs.append(sub)
        for cls in sub['decoys']:
            ctx.count(f'subscribe.filter_decoy.{cls}')
        u = urlparse(notify_addr)
        self.by_endpoint[(u.netloc, u.path)] = ('notify', k)
        if end is not None:
            u = urlparse(end[0])
            self.by_endpoint[(u.netloc, u.path)] = ('end', k)
        granted = self.check_granted('subscribe', st['expires'], granted, model, resp)
        model.subscribe(k, self.now, granted, filter_uris if st['dialect'] is not None else [], sub['notify'], end)

    def consumer_soap_client(self, address):
        """get_soap_client_func of the consumer side: the library's synchronous SOAP client on the loop-back network."""
        netloc = urlparse(address).netloc
        client = self.consumer_clients.get(netloc)
        if client is None:
            from sdc11073 import loghelper
            from sdc11073.definitions_sdc import SdcV1Definitions
            from sdc11073.pysoap.msgreader import MessageReader
            log = loghelper.get_logger_adapter('vf.c08.consumer')
            reader = _CACHE.get('reader')
            if reader is None:
                reader = _CACHE['reader'] = MessageReader(SdcV1Definitions, None, log, validate=True)
            client = self.consumer_clients[netloc] = loopback.mk_soap_client_class(self.net)(netloc, 5, log, None, SdcV1Definitions, reader)
        return client

    def consumer_subscribe(self, mgr_name, filter_text, notify, end, expires):
        from sdc11073.consumer.subscription import ConsumerSubscription
        from sdc11073.xml_types import eventing_types as evt
        from sdc11073.xml_types.addressing_types import EndpointReferenceType
        from sdc11073.xml_types.dpws_types import DeviceEventingFilterDialectURI, HostedServiceType
        hosted = HostedServiceType()
        epr = EndpointReferenceType()
        epr.Address = self.hosted[mgr_name]
        hosted.EndpointReference.append(epr)
        flt = evt.FilterType()
        flt.text, flt.Dialect = filter_text, DeviceEventingFilterDialectURI.ACTION
        cs = ConsumerSubscription(self.mf, self.provider.mdib.data_model, self.consumer_soap_client, hosted, flt, notify[0],
                                  end[0] if end else None, 'vf')
        if notify[1]:
            cs.notify_to_identifier = self._rp(*notify[1][0])
        if end and end[1]:
            cs.end_to_identifier = self._rp(*end[1][0])
        self.ctx.count('consumer_class.subscribe')
        cs.subscribe(expires=expires)
        if not cs.is_subscribed:
            return None, {'fault': True, 'body': None, 'expires': None, 'mgr_epr': None, 'status': None}
        mgr = cs.subscribe_response.SubscriptionManager
        return cs, {'fault': False, 'body': 'SubscribeResponse', 'expires': cs.granted_expires, 'expires_text': repr(cs.granted_expires),
                    'mgr_epr': (mgr.Address, list(mgr.ReferenceParameters or [])), 'status': 200}

    def consumer_request(self, cs, op, expires):
        """the consumer-side object sends the request; what IT reports is judged (it gives up the subscription on a fault)."""
        from sdc11073.pysoap.soapclient import HTTPReturnCodeError
        self.ctx.count(f'consumer_class.{op}')
        out = {'fault': False, 'expires': None, 'body': None, 'action': None, 'status': None}
        if op == 'unsubscribe':
            try:
                cs.unsubscribe()  # raises unless the answer is an UnsubscribeResponse
                out['action'] = f'{WSE_NS}/UnsubscribeResponse'
            except HTTPReturnCodeError:
                out['fault'] = True
            return out
        value = cs.renew(expires) if op == 'renew' else cs.get_status()
        out['fault'] = not cs.is_subscribed
        out['expires'] = None if out['fault'] else value
        out['expires_text'] = repr(value)
        return out

    def resolve_action(self, name):
        """'Name' -> offered action URI; 'Name+X' -> URI + 'X' (decoy: contains the action, must never match);
        'X+Name' -> 'urn:x:' + URI (the action is a proper suffix of the filter string); '<D>+Name' with D in DECOYS -> a URI that
        resembles the action but is another one (must never match); anything else literally."""
        if name.endswith('+X') and name[:-2] in self.actions:
            return self.actions[name[:-2]] + 'X'
        if name.startswith('X+') and name[2:] in self.actions:
            return 'urn:x:' + self.actions[name[2:]]
        if name[1:2] == '+' and name[0] in DECOYS and name[2:] in self.actions:
            uri = self.actions[name[2:]]
            head, last = uri.rsplit('/', 1)
            return {'V': f'http://vendor.example/ext/v2/{last}', 'M': f'{head.rsplit("/", 1)[0]}/VfOtherService/{last}', 'L': last,
                    'P': head, 'C': f'{head}/{last.swapcase()}', 'S': uri + '/', 'T': uri[:-1], 'A': uri + 'X'}[name[0]]
        return self.actions.get(name, name)

    def decoys_of(self, names):
        """{decoy class: {action URIs it imitates}} of a filter given as generator names."""
        out: dict = {}
        for name in names:
            if name.endswith('+X') and name[:-2] in self.actions:
                out.setdefault('appended', set()).add(self.actions[name[:-2]])
            elif name[1:2] == '+' and name[0] in DECOYS and name[2:] in self.actions:
                out.setdefault(DECOYS[name[0]], set()).add(self.actions[name[2:]])
        return out

    @staticmethod
    def _rp(tag, text):
        el = etree.Element(tag)
        el.text = text
        return el

    def check_granted(self, op, requested, granted, model, resp):
        """statement: the granted expiry never exceeds the requested duration or the provider maximum."""
        ctx = self.ctx
        ctx.count(f'expiry.checked.{op}')
        if granted is None:
            self.witness(f'expiry.unreadable.{op}', 'response carries no readable Expires', text=resp.get('expires_text'))
            return model.grant(requested)
        shape = 'absent' if requested is None else ('zero' if requested == 0 else ('above_max' if requested > model.max else 'below_max'))
        ctx.count(f'expiry.requested_{shape}')
        if requested is not None and granted > requested + TOL:
            key = f'expiry.granted_exceeds_requested.{"zero_duration" if requested == 0 else "positive"}.{op}'
            self.witness(key, 'granted expiry exceeds the requested duration', requested=requested, granted=granted, max=model.max)
        elif granted > model.max + TOL:
            self.witness(f'expiry.granted_exceeds_max.{op}', 'granted expiry exceeds the provider maximum', requested=requested,
                         granted=granted, max=model.max)
        elif granted < model.grant(requested) - TOL:
            ctx.count('obs.granted_less_than_min_of_requested_and_max')
        return granted

    def _request(self, op, address, refparams, expires=None, has_expires=True):
        from sdc11073.xml_types import eventing_types as evt
        from sdc11073.xml_types.addressing_types import HeaderInformationBlock
        payload = {'renew': evt.Renew, 'getstatus': evt.GetStatus, 'unsubscribe': evt.Unsubscribe}[op]()
        if op == 'renew':
            payload.Expires = expires if expires is not None else 1
        msg = self.mf.mk_soap_message(HeaderInformationBlock(action=payload.action, addr_to=address, reference_parameters=refparams), payload=payload)
        if op == 'renew' and expires is None:
            node = msg.p_msg.payload_element
            node.remove(node.find(f'{WSE}Expires'))
        return self.post(address, msg.serialize())

    def do_request(self, st):
        """Renew / GetStatus / Unsubscribe naming an existing (possibly dead / removed) subscription."""
        if not self.subs:
            return
        ctx = self.ctx
        sub = self.subs[st['sub'] % len(self.subs)]
        k, op = sub['k'], st['kind']
        model = self.models[sub['mgr']]
        must_fault = model.must_fault(k, self.now)
        reason = model.dead_reason(k, self.now)
        before = self.lib_state()
        addr, rps = sub['mgr_epr']
        requested = st.get('expires')
        if sub.get('cs') is not None and sub['cs'].is_subscribed:  # (once it has given up, the subscriber goes on with raw requests)
            if op == 'renew' and requested is None:
                requested = 3600  # this subscriber always states a duration
            resp = self.consumer_request(sub['cs'], op, requested)
        else:
            resp = self._request(op, addr, rps, requested)
        is_fault = bool(resp['fault'])
        ctx.count(f'request.{op}.{"fault" if is_fault else "served"}.{reason or "live"}')
        if is_fault:
            if self.lib_state() != before:
                self.witness(f'fault.request_changed_state.{op}', 'a request answered with a fault changed a subscription', sub=k)
            if must_fault is False:
                self.witness(f'request.live_subscription_refused.{op}.{self.sa}', 'request naming a live subscription answered with a fault',
                             sub=k, sub_info=self.sub_info(k))
            else:
                ctx.count('fault.decisions')
            return
        if must_fault:
            self.witness(f'fault.missing.{op}.{reason}.{self.sa}', 'request naming a subscription the provider no longer knows is served',
                         sub=k, reason=reason, sub_info=self.sub_info(k), response=resp.get('body'))
            return
        if must_fault is None:
            ctx.count(f'obs.request_served_in_grace.{op}.{reason}')
        else:
            ctx.count('fault.decisions')
        if op == 'unsubscribe':
            if resp['action'] != f'{WSE_NS}/UnsubscribeResponse':
                self.witness('unsubscribe.odd_response', 'Unsubscribe answered with neither fault nor UnsubscribeResponse', action=resp['action'])
            model.unsubscribe(k, self.now)
        elif op == 'getstatus':
            if reason in (None, 'expired'):
                want = model.remaining(k, self.now)
                ctx.count('expiry.checked.getstatus')
                if resp['expires'] is None or abs(resp['expires'] - want) > TOL + EPS:
                    self.witness(f'expiry.getstatus_inconsistent.{self.sa}', 'GetStatus reports a remaining time inconsistent with the granted expiry',
                                 sub=k, reported=resp['expires'], model=want, sub_info=self.sub_info(k))
        elif op == 'renew':
            granted = self.check_granted('renew', requested, resp['expires'], model, resp)
            if reason == 'expired':
                ctx.count('obs.renew_revives_expired_entry_before_housekeeping')
            model.renew(k, self.now, granted)

    def do_bogus(self, st):
        """requests naming a subscription that never existed / wrong channel: fault demanded, nothing may change."""
        ctx = self.ctx
        op, kind = st['kind'], st['bogus']
        mgr_name = st['mgr']
        address, rps = self.hosted[mgr_name], []
        ident_tag = '{http.local.com}MyDevIdentifier'
        if kind == 'random_id':
            fake = f'{st["salt"]:032x}'
            if self.by_path_dispatch:
                address = f'{address}/{fake}'
            else:
                rps = [self._rp(ident_tag, fake)]
        elif kind == 'wrong_service':
            if not self.subs:
                return
            sub = self.subs[st['sub'] % len(self.subs)]
            other = 'Set' if sub['mgr'] == 'StateEvent' else 'StateEvent'
            if self.by_path_dispatch:
                address = f'{self.hosted[other]}/{sub["ident"]}'
            else:
                address, rps = self.hosted[other], sub['mgr_epr'][1]
        elif kind == 'foreign_refparam':
            rps = [self._rp(f'{{{VF_NS}}}Other', 'x')]
        elif kind in ('id_plus_segment', 'upper_id', 'truncated_id'):
            # near misses of the identifier of a subscription of THIS manager (the Subscribe response gave exactly one identifier)
            mine = [x for x in self.subs if x['mgr'] == mgr_name and x['ident']]
            if not mine:
                return
            sub = mine[st['sub'] % len(mine)]
            ident = sub['ident']
            if kind == 'id_plus_segment':
                address = sub['mgr_epr'][0].rstrip('/') + '/vf'
                rps = sub['mgr_epr'][1]
            else:
                fake = ident.upper() if kind == 'upper_id' else ident[:-1]
                if fake == ident:
                    return
                if self.by_path_dispatch:
                    address = f'{address}/{fake}'
                else:
                    rps = [self._rp(ident_tag, fake)]
        # kind == 'no_id': bare hosted service address, no identifier at all
        before = self.lib_state()
        resp = self._request(op, address, rps, st.get('expires'))
        ctx.count(f'bogus.{kind}.{op}')
        if not resp['fault']:
            self.witness(f'fault.missing.{op}.{kind}.{self.sa}', 'request naming a subscription that never existed is served', request=st)
        else:
            ctx.count('fault.decisions')
        if self.lib_state() != before:
            self.witness(f'fault.request_changed_state.{op}.{kind}', 'request naming an unknown subscription changed a subscription', request=st)

    def do_report(self, st):
        import random
        kind = st['kind']
        n0 = self.ctx.counters['report.events']
        mdib = self.world.mdib
        if kind == 'opinvoked':
            self.tid += 1
            states = mdib.data_model.msg_types.InvocationState
            self.provider.hosted_services.set_service.notify_operation(
                types.SimpleNamespace(handle='vf_op'), self.tid, states.FINISHED, mdib.mdib_version_group)
        else:
            weights = {'descr': {'descr_update': 2, 'descr_create': 1}}.get(kind, {kind: 1})
            op = mdibops.gen_op(random.Random(st['seed']), mdib, self.memo, weights)
            if st.get('unsubscribe_in_delivery'):
                self.unsub_in_delivery = list(st['unsubscribe_in_delivery'])
            if st.get('tick_in_delivery'):
                ap = self.transaction_with_tick(op, st['tick_in_delivery'])
            else:
                ap = mdibops.apply_op(mdib, op, self.memo)
            if ap.outcome != 'ok':
                self.ctx.count(f'report.transaction_{ap.outcome}')
        if not self.stopped and self.ctx.counters['report.events'] == n0:
            self.ctx.count('report.no_event')

    def transaction_with_tick(self, op, dt):
        """run the transaction in a helper thread; during its first delivery the clock is advanced by dt (policy hook) so that the
        real housekeeping loops run while a report is being sent.  A dead-lock is decided on the wait-for graph (logical, stable):
        a housekeeping thread inside SoapClientPool.forget_usr -> run_coro (holds the pool lock, waits for the event loop) while the
        event loop thread is inside SoapClientPool.get_soap_client (waits for the pool lock)."""
        import sys
        import threading
        result = {}
        self.tick_in_delivery = dt
        thr = threading.Thread(target=lambda: result.update(ap=mdibops.apply_op(self.world.mdib, op, self.memo)), daemon=True,
                               name='vf-transaction')
        thr.start()
        pool = self.provider._soap_client_pool
        seen = 0
        for _ in range(6000):
            thr.join(0.005)
            if not thr.is_alive():
                break
            loop_thr = pool.async_loop_subscr_mgr
            if loop_thr is None or not pool._lock.locked():
                continue
            frames = sys._current_frames()

            def names(ident):
                f, out = frames.get(ident), []
                while f is not None:
                    out.append(f.f_code.co_name)
                    f = f.f_back
                return out
            loop_stack = names(loop_thr.ident)
            hk_stacks = [names(m._housekeeping_thread.ident) for m in self.mgrs.values()]
            cycle = loop_stack[:1] == ['get_soap_client'] and any('forget_usr' in n and 'run_coro' in n for n in hk_stacks)
            seen = seen + 1 if cycle else 0
            if seen >= 3:
                self.wedged = self.stopped = True
                self.witness(f'deadlock.housekeeping_forget_usr_vs_send.{self.sa}',
                             'provider dead-locked: housekeeping removes a subscription (SoapClientPool.forget_usr holds the pool lock and waits '
                             'for the event loop) while the event loop sends a report (get_soap_client waits for the pool lock); live '
                             'subscriptions are never sent this or any later report, the transaction never returns',
                             event_loop_thread=loop_stack[:6], housekeeping_threads=[n[:8] for n in hk_stacks])
                raise Wedged
        else:
            self.wedged = self.stopped = True
            raise RuntimeError('transaction with a housekeeping tick during delivery did not return (no wait-for cycle seen)')
        if self.tick_in_delivery is not None:
            self.tick_in_delivery = None
            self.ctx.count('schedule.tick_during_delivery.no_delivery')
        elif not self.tick_completed_in_delivery and not self.vc.settle():
            raise RuntimeError('virtual clock: housekeeping threads did not park again after the delivery')
        if self.tick_completed_in_delivery is False:
            self.vc.advance(0.0)
        return result['ap']

    def do_stop(self, st):
        """provider.stop_all(send_subscription_end=flag); afterwards everything must be unknown and silent."""
        ctx = self.ctx
        self.close_event()
        flag = st['send_end']
        reasons, expect = {}, {}
        for name, model in self.models.items():
            for k in model.subs:
                reasons[k] = model.dead_reason(k, self.now)
            expect.update(model.stop(self.now, flag))
        self.end_housekeeping()
        start = len(self.handoffs)
        try:
            self.provider.stop_all(send_subscription_end=flag)
        except Exception as ex:  # noqa: BLE001   judged by its consequences: which SubscriptionEnd messages were (not) handed over
            ctx.count(f'stop.raised.{type(ex).__name__}')
            self.stop_raised = repr(ex)[:200]
        self.stopped = True
        ctx.count(f'stop.send_end_{flag}')
        got: dict = {}
        for rec in self.handoffs[start:]:
            rec['judged'] = True
            action, to, refparams, parsed = self.handoff_message(rec)
            if action != END_ACTION:
                self.witness('stop.other_message', 'stop_all handed a message other than SubscriptionEnd to a subscriber', action=action)
                continue
            ctx.count('end.messages')
            target = self.by_endpoint.get((rec['netloc'], rec['path']))
            if target is None:
                self.witness('end.unknown_endpoint', 'SubscriptionEnd handed to an endpoint nobody named', netloc=rec['netloc'], path=rec['path'])
                continue
            got.setdefault(target[1], []).append((target[0], to, refparams, rec))
            if rec.get('wire'):
                try:
                    mgr_addr = etree.fromstring(decode_entry(rec['wire'][0])).find(f'.//{WSE}SubscriptionManager/{WSA}Address')
                    if mgr_addr is not None and '://' not in (mgr_addr.text or ''):
                        ctx.count('obs.end.subscription_manager_address_without_slashes')
                except Exception:  # noqa: BLE001
                    pass
        for k, want in expect.items():
            sub = self.subs[k]
            msgs = got.get(k, [])
            if want == 'undecided':
                ctx.count('end.undecided_near_expiry')
                continue
            ctx.count('end.decisions')
            if want is None:
                if msgs:
                    if not flag:
                        key = 'end.sent_although_switched_off'
                    elif reasons[k] == 'failure_limit':  # same mechanism as a report handed after the failure limit
                        key = f'deliver.after_failure_limit.{self.sa}.{self.streak_class(sub)}'
                    else:
                        key = f'end.sent_to_dead.{reasons[k]}.{self.sa}'
                    self.witness(key, 'SubscriptionEnd handed to a subscription that must not get one', sub=k, reason=reasons[k],
                                 sub_info=self.sub_info(k))
                else:
                    ctx.count(f'end.none_as_expected.{"switched_off" if not flag and reasons[k] is None else (reasons[k] or "live")}')
                continue
            if len(msgs) != 1:
                self.witness(f'end.{"missing" if not msgs else "duplicate"}.{self.sa}', f'live subscription got {len(msgs)} SubscriptionEnd messages',
                             sub=k, sub_info=self.sub_info(k))
                continue
            role, to, refparams, rec = msgs[0]
            want_role = 'end' if sub['end'] is not None else 'notify'
            shape = f'{"endto" if sub["end"] else "notifyto"}.{"rp" if want[1] else "norp"}'
            if role != want_role or to != want[0]:
                key = 'end.endto_ignored' if sub['end'] is not None else 'end.wrong_endpoint'
                self.witness(f'{key}.{self.sa}', 'SubscriptionEnd not addressed to EndTo (if given) / NotifyTo', sub=k, sent_to=to,
                             path=rec['path'], want=want, sub_info=self.sub_info(k))
            elif refparams != want[1]:
                if sub['end'] is not None and not want[1] and refparams == sub['notify'][1]:
                    key = 'end.refparams_of_notifyto_sent_to_endto'
                else:
                    key = f'end.wrong_refparams.{self.sa}'
                self.witness(key, 'SubscriptionEnd carries reference parameters that are not those of the addressed EPR', sub=k,
                             sent=refparams, want=want, notify=sub['notify'])
            else:
                ctx.count(f'end.exactly_one_right_epr.{shape}')

    # -- sequence shapes for the evidence ---------------------------------------------------------
    def end_housekeeping(self):
        """what stop_all() does first for each manager (flag off, join), done for ALL managers before stop_all starts: the clock is
        switched to free-running (logical time stays frozen), every housekeeping thread makes its last pass and ends.  Otherwise the
        housekeeping thread of the second manager would run concurrently with the SubscriptionEnd messages of the first one
        (non-deterministic; with the async managers it can dead-lock: SoapClientPool.forget_usr holds the pool lock while it waits for
        the event loop, the event loop waits for the pool lock in get_soap_client)."""
        for mgr in self.mgrs.values():
            mgr._run_housekeeping_thread = False
        self.vc.release()
        for name, mgr in self.mgrs.items():
            mgr._housekeeping_thread.join(timeout=60)
            if mgr._housekeeping_thread.is_alive():
                raise RuntimeError(f'housekeeping thread of {name} did not end')

    def close(self):
        if not self.stopped and not self.wedged:
            self.stopped = True
            try:
                self.end_housekeeping()
                self.provider.stop_all(send_subscription_end=False)
            except Exception:  # noqa: BLE001
                pass


# ------------------------------------------------------------------------------------------------
# generator
# ------------------------------------------------------------------------------------------------
def gen_subscribe(rng, n_subscribers, maxd, hostile=True):
    mgr = 'Set' if rng.random() < 0.12 else 'StateEvent'
    r = rng.random()
    if mgr == 'Set':
        flt = ['OperationInvokedReport'] + (['EpisodicMetricReport'] if r < 0.3 else [])
    elif r < 0.25:
        flt = [rng.choice(STATE_ACTIONS[:7])]
    elif r < 0.6:
        flt = rng.sample(STATE_ACTIONS[:7], rng.randint(2, 4))
    elif r < 0.75:
        flt = list(STATE_ACTIONS) + ['urn:vf:c08:unknown-action']  # superset of everything offered
    elif r < 0.9:
        # look-alikes of two offered actions (appended text, same last path segment under another service / vendor, last segment only,
        # service prefix, other case, trailing slash, truncated: must never match), plus a real one
        flt = [f'{cls}+{name}' for cls, name in zip(rng.sample(sorted(DECOYS), 2), rng.sample(STATE_ACTIONS[:5], 2))] \
            + rng.sample(STATE_ACTIONS[:7], 1)
    else:
        flt = ['urn:vf:c08:unknown-action']
    dialect = 'action'
    if hostile and rng.random() < 0.06:
        dialect = rng.choice(['urn:vf:c08:dialect', None])
    expires = rng.choice([None, 0, 0.004, 0.5, 1.5, 3, 3, 10.25, 10.25, maxd, maxd + 30, 172800] if hostile else [None, 3, 10.25, maxd + 30])
    st = {'op': 'subscribe', 'subscriber': rng.randrange(n_subscribers), 'mgr': mgr, 'filter': flt, 'dialect': dialect,
          'expires': expires, 'notify_rp': rng.choice([0, 0, 1, 2]), 'end': rng.choice([None, 'same', 'same', 'other']),
          'end_rp': rng.choice([0, 0, 1]), 'accept_encoding': rng.choice(['gzip', 'gzip', 'gzip, x-lz4', None] if hostile else ['gzip'])}
    if dialect == 'action' and expires is not None and rng.random() < 0.15:
        st['via'] = 'consumer_class'
    return st


def gen_steps(rng, n, maxd, limit):
    n_subscribers = rng.randint(1, 5)
    steps = []
    nsubs = fresh = 0
    for i in range(n - 1):
        r = rng.random()
        recent = lambda: (nsubs - 1 - min(int(rng.expovariate(0.5)), nsubs - 1)) if nsubs else 0  # noqa: E731
        if nsubs == 0 or (r < 0.16 and nsubs < 10):
            steps.append(gen_subscribe(rng, n_subscribers, maxd))
            nsubs += 1
        elif r < 0.46:
            steps.append({'op': 'report', 'kind': rng.choice(REPORT_KINDS[:5] + REPORT_KINDS), 'seed': rng.randrange(1 << 30)})
        elif r < 0.60:
            if rng.random() < 0.35:
                steps.append({'op': 'advance', 'dt': 0.5, 'to_expiry_of': recent(), 'delta': rng.choice([-0.05, -0.004, 0.0, 0.05, 0.5])})
            else:
                steps.append({'op': 'advance', 'dt': rng.choice([0.05, 0.3, 0.5, 0.95, 1.0, 1.05, 1.5, 2.0, 2.5, 3.0, 7.0, 30.0])})
        elif r < 0.68:
            steps.append({'op': 'request', 'kind': 'renew', 'sub': recent(),
                          'expires': rng.choice([None, 0, 0.5, 3, 10.25, maxd + 30])})
        elif r < 0.76:
            steps.append({'op': 'request', 'kind': 'getstatus', 'sub': recent()})
        elif r < 0.83:
            steps.append({'op': 'request', 'kind': 'unsubscribe', 'sub': recent()})
        elif r < 0.88:
            steps.append({'op': 'bogus', 'kind': rng.choice(['renew', 'getstatus', 'unsubscribe']), 'mgr': rng.choice(['StateEvent', 'Set']),
                          'bogus': rng.choice(BOGUS_KINDS), 'sub': recent(),
                          'salt': rng.getrandbits(120), 'expires': 5})
        elif r < 0.97 or nsubs > 8:
            st = {'op': 'arm', 'sub': recent(), 'kind': rng.choice(FAULT_KINDS + FAULT_KINDS + CONNECT_KINDS),
                  'n': rng.choice([1, 1, limit, limit + 1]), 'target': rng.choice(['notify', 'notify', 'notify', 'end'])}
            if rng.random() < 0.15:
                st['whole_netloc'] = True
            steps.append(st)
            steps.append({'op': 'report', 'kind': rng.choice(REPORT_KINDS[:5]), 'seed': rng.randrange(1 << 30)})
        else:
            # a subscriber nobody has delivered to yet takes two overlapping subscriptions and is not reachable for the first connect(s):
            # the first delivery includes the connect phase; the failure of one subscription's delivery is not one of its sibling
            fresh += 1
            a = gen_subscribe(rng, n_subscribers, maxd, hostile=False)
            a.update(subscriber=n_subscribers + fresh, mgr='StateEvent', filter=list(STATE_ACTIONS[:7]))
            b = dict(a, filter=rng.sample(STATE_ACTIONS[:5], 3), expires=rng.choice([None, 10.25, maxd + 30]),
                     end=rng.choice([None, 'same', 'other']))
            steps += [a, b, {'op': 'arm', 'sub': -1, 'kind': rng.choice(CONNECT_KINDS), 'n': rng.choice([1, 1, 2, limit + 1]),
                             'target': 'notify'}]
            nsubs += 2
            for _ in range(rng.randint(2, 3)):
                steps.append({'op': 'report', 'kind': rng.choice(REPORT_KINDS[:5]), 'seed': rng.randrange(1 << 30)})
    steps.append({'op': 'stop', 'send_end': rng.random() < 0.7})
    # after the stop: everything must be unknown and silent
    for _ in range(2):
        steps.append({'op': 'request', 'kind': rng.choice(['renew', 'getstatus', 'unsubscribe']), 'sub': rng.randrange(max(nsubs, 1)), 'expires': 3})
    steps.append({'op': 'report', 'kind': 'metric', 'seed': rng.randrange(1 << 30)})
    return steps


def sub_step(mgr='StateEvent', flt=('EpisodicMetricReport',), expires=10.25, **kw):
    st = {'op': 'subscribe', 'subscriber': 0, 'mgr': mgr, 'filter': list(flt), 'dialect': 'action', 'expires': expires, 'notify_rp': 0,
          'end': None, 'end_rp': 0, 'accept_encoding': 'gzip'}
    st.update(kw)
    return st


LIMIT_DEPENDENT = ('fault_', 'end_true', 'siblings_')  # directed sequences whose steps depend on the failure limit


def directed(limit):
    """corner cases named in DESIGN C08, always executed (they also guarantee the reach floors)."""
    rep = {'op': 'report', 'kind': 'metric', 'seed': 1}
    alert = {'op': 'report', 'kind': 'alert', 'seed': 2}
    adv = lambda dt: {'op': 'advance', 'dt': dt}  # noqa: E731
    req = lambda kind, sub, **kw: {'op': 'request', 'kind': kind, 'sub': sub, **kw}  # noqa: E731
    out = {}
    out['unsubscribe'] = [sub_step(), sub_step(subscriber=1, flt=('EpisodicMetricReport', 'EpisodicAlertReport')), rep,
                          req('unsubscribe', 0), rep, alert, req('getstatus', 0), req('unsubscribe', 0), adv(0.5), rep, adv(2.6),
                          req('getstatus', 0), req('renew', 0, expires=3), req('unsubscribe', 0), rep, req('getstatus', 1),
                          {'op': 'stop', 'send_end': True}, req('getstatus', 1), rep]
    out['expiry'] = [sub_step(expires=3), sub_step(subscriber=1, expires=None), sub_step(subscriber=2, expires=1e6), rep, adv(2.9), rep,
                     req('getstatus', 0), adv(0.1), rep, req('getstatus', 0), req('renew', 0, expires=2), rep, adv(1.5),
                     req('getstatus', 0), adv(0.6), rep, adv(2.5), req('renew', 0, expires=5), req('getstatus', 1), req('getstatus', 2),
                     req('renew', 1, expires=None), req('renew', 2, expires=1e6), rep, {'op': 'stop', 'send_end': True}]
    out['zero_and_tiny'] = [sub_step(expires=0), sub_step(subscriber=1, expires=0.004), sub_step(subscriber=2, expires=5), rep,
                            req('getstatus', 0), req('renew', 2, expires=0), req('getstatus', 2), rep, adv(1.0), rep, adv(2.1), rep,
                            {'op': 'stop', 'send_end': True}]
    for i, kind in enumerate(FAULT_KINDS):
        seq = [sub_step(), sub_step(subscriber=1), rep]
        seq += [{'op': 'arm', 'sub': 0, 'kind': kind, 'n': max(limit - 1, 0), 'target': 'notify'}] + [rep] * max(limit - 1, 0)
        seq += [rep, {'op': 'arm', 'sub': 0, 'kind': kind, 'n': limit, 'target': 'notify'}] + [rep] * limit + [rep, rep, req('getstatus', 0),
                                                                                                           adv(2.5), req('getstatus', 0), rep]
        seq += [{'op': 'stop', 'send_end': True}]
        out[f'fault_{kind}'] = seq
    ends = [sub_step(subscriber=0, end=None, notify_rp=1), sub_step(subscriber=1, end='same', end_rp=1, notify_rp=1),
            sub_step(subscriber=1, end='other', end_rp=0, notify_rp=2), sub_step(subscriber=2, end='same', end_rp=0, notify_rp=0),
            sub_step(subscriber=2, end='other', end_rp=1, notify_rp=0), sub_step(subscriber=3, end='same', expires=2),
            sub_step(subscriber=3, end='same'), sub_step(subscriber=4, mgr='Set', flt=('OperationInvokedReport',), end='same', end_rp=1),
            sub_step(subscriber=4, end='same')]
    out['end_true'] = ends + [rep, req('unsubscribe', 6), adv(2.5), {'op': 'arm', 'sub': 8, 'kind': 'http500', 'n': limit, 'target': 'notify'}] \
        + [rep] * limit + [{'op': 'arm', 'sub': 1, 'kind': 'refused', 'n': 1, 'target': 'end'}, {'op': 'report', 'kind': 'opinvoked', 'seed': 3},
                           {'op': 'stop', 'send_end': True}, req('getstatus', 0), rep]
    out['end_false'] = ends + [rep, {'op': 'stop', 'send_end': False}, req('renew', 0, expires=3), rep]
    out['subscribe_variants'] = [sub_step(accept_encoding=None), sub_step(subscriber=1, dialect='urn:vf:c08:dialect'),
                                 sub_step(subscriber=2, dialect=None), sub_step(subscriber=3, accept_encoding='gzip, x-lz4'),
                                 sub_step(subscriber=4, flt=('EpisodicMetricReport+X', 'EpisodicAlertReport')),
                                 sub_step(subscriber=4, flt=('X+EpisodicMetricReport',)), rep, alert,
                                 {'op': 'stop', 'send_end': True}]
    out['tick_during_delivery'] = [
        sub_step(subscriber=0, mgr='Set', flt=('OperationInvokedReport',), expires=1), sub_step(subscriber=1, expires=None),
        sub_step(subscriber=2, expires=None), {'op': 'report', 'kind': 'opinvoked', 'seed': 5}, adv(0.9),
        {'op': 'report', 'kind': 'metric', 'seed': 1, 'tick_in_delivery': 0.2}, rep, req('getstatus', 0), req('getstatus', 1), adv(2.5),
        req('getstatus', 0), rep, {'op': 'stop', 'send_end': True}]
    out['unsubscribe_during_delivery'] = [
        sub_step(subscriber=0), sub_step(subscriber=1), sub_step(subscriber=2), sub_step(subscriber=3, flt=('EpisodicAlertReport',)), rep,
        {'op': 'report', 'kind': 'metric', 'seed': 7, 'unsubscribe_in_delivery': [0, 1, 2]}, rep,
        {'op': 'report', 'kind': 'metric', 'seed': 8, 'unsubscribe_in_delivery': [0, 1, 2]}, rep, alert, {'op': 'stop', 'send_end': True}]
    # look-alike filters: every class of DECOYS for the action that is reported, next to an exact subscription (control)
    metric, alrt = 'EpisodicMetricReport', 'EpisodicAlertReport'
    out['filter_lookalikes'] = [sub_step(subscriber=0)] + [
        sub_step(subscriber=1 + i % 3, flt=(f'{c}+{metric}', f'{c}+{alrt}') + ((alrt,) if i % 2 else ())) for i, c in enumerate(sorted(DECOYS))
    ] + [sub_step(subscriber=4, flt=tuple(f'{c}+{metric}' for c in sorted(DECOYS))), rep, alert, rep, {'op': 'stop', 'send_end': True}]
    # several subscriptions of ONE subscriber (same host:port) + one of another: only the deliveries of the first fail (HTTP error
    # on its NotifyTo path / the subscriber is not reachable for the first connect); the siblings never had a failure
    for kind in ('http500', 'http404_fault') + tuple(CONNECT_KINDS):
        n = 1 if kind in CONNECT_KINDS else limit
        # subscriptions 0-2 belong to ONE subscriber (same host:port): only the deliveries of 0 fail (HTTP error on its NotifyTo path /
        # the subscriber is not reachable for the first connect), its siblings 1, 2 never had a failure; 3, 4 belong to a subscriber
        # that stays down (all its subscriptions run into the limit); 5 is the control subscriber, served all the time
        out[f'siblings_{kind}'] = [
            sub_step(subscriber=0, end='same'), sub_step(subscriber=0, end='same', flt=(metric, alrt)), sub_step(subscriber=0, expires=None),
            sub_step(subscriber=2, end='same'), sub_step(subscriber=2, flt=(metric, alrt)), sub_step(subscriber=1, end='same'),
            {'op': 'arm', 'sub': 0, 'kind': kind, 'n': n, 'target': 'notify'},
            {'op': 'arm', 'sub': 3, 'kind': kind, 'n': 4 * limit + 4, 'target': 'notify', 'whole_netloc': True}] + [rep] * (limit + 1) + [
            alert, req('getstatus', 1), req('renew', 1, expires=5), adv(2.5), rep, req('getstatus', 0), req('getstatus', 5),
            {'op': 'stop', 'send_end': True}]
    # the EndTo host of one subscription is not reachable at stop: the others still get their SubscriptionEnd
    out['end_connect_refused'] = [
        sub_step(subscriber=1, end='other'), sub_step(subscriber=3, end='other', end_rp=1), sub_step(subscriber=0, end=None),
        sub_step(subscriber=5, end='other'), rep, {'op': 'arm', 'sub': 0, 'kind': 'connect_refused', 'n': 1, 'target': 'end'},
        {'op': 'arm', 'sub': 3, 'kind': 'connect_timeout', 'n': 1, 'target': 'end'}, {'op': 'stop', 'send_end': True}, rep]
    # a subscription expires while the same report is being delivered to an earlier subscriber ("at send time")
    out['expiry_during_delivery'] = [
        sub_step(subscriber=0, expires=None), sub_step(subscriber=1, expires=2.95), sub_step(subscriber=2, expires=2.95, flt=(metric, alrt)),
        sub_step(subscriber=3, expires=10), rep, adv(2.9), {'op': 'report', 'kind': 'metric', 'seed': 1, 'tick_in_delivery': 0.2}, rep,
        req('getstatus', 3), {'op': 'stop', 'send_end': True}]
    # role: subscriptions 0, 1 are held by the library's own consumer-side subscription object (it builds the requests and reads the
    # responses; after a fault it gives the subscription up and the harness goes on with raw requests), 2 is a raw control
    cc = {'via': 'consumer_class'}
    out['consumer_class'] = [
        sub_step(subscriber=0, expires=10, end='same', notify_rp=1, end_rp=1, **cc), sub_step(subscriber=1, flt=(metric, alrt), expires=3, **cc),
        sub_step(subscriber=2), rep, req('getstatus', 0), req('renew', 0, expires=5), req('getstatus', 0), req('renew', 0, expires=1e6),
        req('renew', 0, expires=None), alert, adv(3.2), rep, req('getstatus', 1), adv(2.5), req('renew', 1, expires=3), req('getstatus', 0),
        req('unsubscribe', 0), rep, req('getstatus', 0), adv(2.5), req('getstatus', 0), req('unsubscribe', 0), rep,
        {'op': 'stop', 'send_end': True}]
    bog = []
    for kind in ('renew', 'getstatus', 'unsubscribe'):
        for b in BOGUS_KINDS:
            bog.append({'op': 'bogus', 'kind': kind, 'mgr': 'StateEvent', 'bogus': b, 'sub': 0, 'salt': 12345, 'expires': 5})
    out['bogus'] = [sub_step(), sub_step(subscriber=1, mgr='Set', flt=('OperationInvokedReport',))] + bog + [
        rep, {'op': 'report', 'kind': 'opinvoked', 'seed': 4}, req('getstatus', 0), req('getstatus', 1), {'op': 'stop', 'send_end': False}]
    return out


def shape_of(steps):
    return tuple((s['op'], s.get('kind') or s.get('bogus') or s.get('end') or '') for s in steps)


def run_sequence(ctx, cfg, steps, label):
    rig = None
    try:
        rig = Rig(ctx, cfg)
        if not rig.ready:
            ctx.not_decided('housekeeping threads did not park on the virtual clock')
            return
        ctx.count(f'sequence.{cfg["flavour"]}')
        d0 = ctx.counters['delivery.decisions']
        try:
            for st in steps:
                rig.step(st)
        except Wedged:
            ctx.count('sequence.abandoned_provider_deadlocked')
        ticks = rig.vc.ticks
        ctx.count('clock.housekeeping_ticks', ticks)
        nontrivial = ctx.counters['delivery.decisions'] > d0
        ctx.case((cfg['flavour'], cfg['max'], cfg['limit'], shape_of(steps)), nontrivial=nontrivial)
        ctx.sample({'label': label, 'cfg': cfg, 'steps': steps[:14], 'n_steps': len(steps), 'subscriptions': len(rig.subs),
                    'handoffs': len(rig.handoffs), 'housekeeping_ticks': ticks})
    except Exception:  # noqa: BLE001
        ctx.not_decided(f'harness exception in {label} {cfg}: ' + traceback.format_exc()[-1800:])
    finally:
        if rig is not None:
            rig.close()


def w_sequences(ctx: core.Ctx, arg):
    flavours = list(FLAVOURS)
    if arg.get('directed'):
        for f in [flavours[arg['i'] % 4]]:
            for limit in arg['limits']:
                for name, steps in directed(limit or 1).items():
                    if limit is not None and not name.startswith(LIMIT_DEPENDENT):
                        continue  # no failed delivery in it: the limit makes no difference, it ran with the library's own limit
                    cfg = {'flavour': f, 'max': 20, 'limit': limit, 'mdib': MDIBS[0]}
                    run_sequence(ctx, cfg, steps, f'directed.{name}')
                    ctx.count(f'directed.{name}')
        return
    for s in range(arg['n']):
        idx = arg['i'] * arg['n'] + s
        rng = ctx.rng('seq', idx)
        cfg = {'flavour': flavours[idx % 4], 'max': rng.choice([5, 20, 60, 7200]), 'limit': rng.choice([None, None, 2, 3]),
               'mdib': MDIBS[(idx // 4) % len(MDIBS)]}
        steps = gen_steps(rng, arg['len'], cfg['max'], cfg['limit'] or 1)
        run_sequence(ctx, cfg, steps, f'random.{idx}')


def run(ctx: core.Ctx):
    ctx.rule = ('seeded sequences of Subscribe / Renew / GetStatus / Unsubscribe / bogus requests (7 kinds: unknown, foreign and near-miss '
                'identifiers), sent raw or by the library\'s own consumer-side subscription object, filters with look-alikes of the offered '
                'actions (8 classes), provider reports of 8 kinds, virtual-clock advances (also to just before / at / after an expiry, and '
                'across an expiry while a report is being delivered), armed delivery faults (6 kinds on the message + 4 of the connect phase, '
                'below / at / above the failure limit, on one of several subscriptions of a subscriber or on its whole host:port) '
                'and a final stop_all(True|False) + post-stop probes, x 4 manager classes x max duration {5,20,60,7200} x failure limit '
                '{library constant, 2, 3}; plus directed corner sequences per class.  distinct = (class, max, limit, sequence of '
                '(step kind, sub kind)); non-trivial = at least one delivery decision (sent / suppressed) was made against the model')
    ctx.assumptions += [
        'SubscriptionBase.MAX_NOTIFY_ERRORS is the delivery-failure limit of the statement; the harness also runs with the class attribute set to 2 and 3',
        'time comparisons use the library resolution: nothing is decided within 10 ms before an expiry instant',
        'a dead entry may stay known to the provider for at most 2 virtual seconds (housekeeping period 1 s + 1 s unsubscribe delay); '
        'only after that a fault is demanded for requests naming it',
        'a hand-over to the SOAP client that raises before anything reaches the wire (sync client after a connection error on the same '
        'netloc) counts as a failed delivery attempt',
        'observation point is the hand-over to the subscriber-facing SOAP client; delivery success is what the subscriber endpoint answered',
        'send time of a notification = the instant of its hand-over; a subscription that expires while the same report is being delivered '
        'to other subscribers may be handed the report before its expiry or not at all, never after it',
        'connect-phase faults (refused / unanswered connect, no route to the host, connection reset) exist for the synchronous SOAP client only (first message to a host:port, '
        'implicit re-connect after a failed connect); for the async client the same step makes the next n messages to the host:port fail',
        'a filter string is "the report\'s action" only if it is that URI; look-alikes (same last path segment elsewhere, last segment only, '
        'service prefix, other case, trailing slash, truncated, text appended) never match',
    ]
    ctx.extra['observations_not_judged'] = [
        'obs.end.subscription_manager_address_without_slashes: SubscriptionEnd carries SubscriptionManager/Address "http:host:port/path" (C04 schema / content, not C08)',
        'obs.subscribe.accepted_unknown_dialect.async: the async managers accept a Subscribe with a foreign filter dialect, the sync managers refuse it',
        'obs.handoff_without_wire.NotConnected.sync: after one connection error the shared sync SOAP client of a netloc refuses every further message '
        '(no reconnect) until all subscriptions of that netloc are gone; sibling subscriptions die without anything being sent',
        'obs.renew_revives_expired_entry_before_housekeeping: Renew naming an expired entry that housekeeping has not removed yet is served and revives it',
        'obs.filter_string_with_action_as_proper_suffix_matched: matches() is endswith(), a filter string that merely ends with the action matches',
        'obs.request_served_in_grace.*: requests naming a dead entry that is still known to the provider (<= 2 s) are served',
        'suspicion refuted: a Subscribe without Accept-Encoding header is accepted by all four managers (HTTPMessage[...] returns None, no KeyError)',
    ]
    n_seq, length = (304, 40) if ctx.quick else (5008, 80)
    jobs = [['w_sequences', {'i': k, 'directed': True, 'limits': [[None], [2]][k // 4]}] for k in range(8)]
    per = n_seq // 16
    jobs += [['w_sequences', {'i': k, 'n': per, 'len': length}] for k in range(16)]
    core.fanout(ctx, MODULE, 'dispatch', jobs, timeout=2400)
    for f in FLAVOURS:
        ctx.floor(f'sequence.{f}', 20)
    ctx.floor('delivery.decisions', 2000)
    ctx.floor('delivery.sent_as_expected', 500)
    for reason in ('filter', 'expired', 'unsubscribed', 'failure_limit'):
        ctx.floor(f'delivery.suppressed.{reason}', 20)
    ctx.floor('fault.decisions', 100)
    ctx.floor('expiry.checked.subscribe', 200)
    ctx.floor('expiry.checked.renew', 30)
    ctx.floor('expiry.checked.getstatus', 30)
    ctx.floor('end.decisions', 200)
    ctx.floor('end.messages', 50)
    ctx.floor('clock.housekeeping_ticks', 500)
    ctx.floor('table.index_vs_scan', 2000)
    for kind in FAULT_KINDS + CONNECT_KINDS:
        ctx.floor(f'fault.injected.{kind}', 8)
    for outcome in CONNECT_ERRORS:
        ctx.floor(f'delivery.failed.at_connect.{outcome}', 8)
    for cls in DECOYS.values():
        ctx.floor(f'delivery.suppressed.filter_decoy.{cls}', 10)
    ctx.floor('delivery.expired_during_send.not_handed', 4)
    for kind in BOGUS_KINDS:
        for op in ('renew', 'getstatus', 'unsubscribe'):
            ctx.floor(f'bogus.{kind}.{op}', 4)
    for op, n in (('subscribe', 8), ('renew', 8), ('getstatus', 8), ('unsubscribe', 4)):
        ctx.floor(f'consumer_class.{op}', n)


def replay(ctx: core.Ctx, w):
    """./check C08 --replay <file>: re-run the recorded step list (up to the witness) against the current tree."""
    d = w['detail']
    run_sequence(ctx, d['cfg'], d['steps'], 'replay')
    for x in ctx.witnesses:
        print('replayed witness:', x['key'], '-', x['what'])
    ctx.case('replay')
    ctx.case('replay2')


def dispatch(ctx: core.Ctx, job):
    globals()[job[0]](ctx, job[1])
