"""C11 part 3 (round 4): what the walker of part 2 cannot see.

* query catalogue: every public read-only lookup of an MDIB (index get / [] / get_one, find, entity getter, subtree query in all argument variants,
  reconstruct_*, xtra helpers, Get/Context service requests over the wire) is (a) a pure query - identity snapshot of the three tables before/after -
  and (b) answers like a linear scan of table.objects with the current attribute values.
* private objects: containers handed out by / passed into the provider transaction API are recorded (wrapping transaction factory); after the
  commit their key attributes are changed (and restored): the tables must not notice.  Plus API-only "template re-use" sequences.
* own provider operations the shared generator does not have: alert condition / signal create (several fresh Sources, ConditionSignaled), delete,
  in-place Source change, removal of a whole subtree.
* consumer MDIB fed with irregular (but well-formed) reports; real DescriptorsLookup / StatesLookup / MultiStatesLookup tables under random
  operation sequences with real containers; life cycle of the subscription table under a virtual clock for all four manager classes.
"""
from __future__ import annotations


from .. import core
from ..tablewalk import index_vs_scan, table_snapshot

TABLES = ('descriptions', 'states', 'context_states')
_RAISED = object()


# ------------------------------------------------------------------------------------------------------------------
# helpers
# ------------------------------------------------------------------------------------------------------------------
def _snap(table):
    """identity-level snapshot of one table (linear time): stored objects, every index list (as multiset), number of back references of every
    stored object (their content is compared with the index lists by the walker that follows every catalogue run)."""
    ids = frozenset(map(id, table._objects))
    return (ids,
            tuple((name, tuple((k, tuple(sorted(map(id, lst)))) for k, lst in dict.items(idx))) for name, idx in table._idx_defs.items()),
            tuple((oid, len(refs)) for oid, refs in table._object_ids.items() if refs or oid in ids))


def snap3(mdib):
    return tuple(_snap(getattr(mdib, t)) for t in TABLES)


def stop_in_background(*stoppables):
    """World.stop() / SdcConsumer.stop_all() mostly wait for library threads that wake up once per second: nothing the monitors need."""
    import threading

    def run():
        for fn in stoppables:
            try:
                fn()
            except Exception:  # noqa: BLE001
                pass
    threading.Thread(target=run, daemon=True, name='c11-stop').start()


def walk3(ctx, label, mdib, role, detail):
    for name in TABLES:
        table = getattr(mdib, name)
        with table.lock:
            problems = index_vs_scan(table)
        ctx.count('mdib.walks')
        if problems:
            ctx.witness(f'mdib.lookup_ne_scan.{label}.{name}', f'{role}.{name}: a lookup disagrees with a scan of the stored objects',
                        {**detail, 'problems': problems[:3]})
            return False
    return True


def _ids(objs):
    return sorted(id(o) for o in (objs or []))


def _h(objs):
    return sorted(str(getattr(o, 'Handle', None) or getattr(o, 'DescriptorHandle', None)) for o in (objs or []))


# ------------------------------------------------------------------------------------------------------------------
# query catalogue
# ------------------------------------------------------------------------------------------------------------------
class Queries:
    """runs read-only API calls against one mdib; decides purity and agreement with a scan."""

    def __init__(self, ctx, mdib, role, detail):
        self.ctx, self.mdib, self.role, self.detail = ctx, mdib, role, detail
        self.last = snap3(mdib)
        self.ok = True

    def q(self, name, fn, oracle=None):
        ctx = self.ctx
        if not self.ok:
            return _RAISED  # first finding of this catalogue run is reported, the rest would repeat it under other names
        try:
            res = fn()
        except Exception as ex:  # noqa: BLE001
            res = _RAISED
            self.exc = ex
            ctx.count(f'mdib.query_raised.{name.split(".depth_first")[0]}.{type(ex).__name__}')
        now = snap3(self.mdib)
        ctx.count('mdib.queries')
        ctx.count(f'mdib.queries.{self.role}')
        if now != self.last:
            changed = [t for t, a, b in zip(TABLES, self.last, now) if a != b]
            ctx.witness(f'mdib.query_changes_table.{self.role}.{name}', 'a read-only lookup changed the table it reads (objects, index lists or '
                        'back references differ before / after the call)', {**self.detail, 'query': name, 'tables': changed})
            self.ok = False
        self.last = now
        if oracle is not None:
            problem = oracle(res)
            ctx.count('mdib.query_oracles')
            if problem:
                ctx.witness(f'mdib.query_ne_scan.{self.role}.{name}', 'a public lookup does not return what a linear scan of the stored objects returns',
                            {**self.detail, 'query': name, 'problem': str(problem)[:600]})
                self.ok = False
        return res


def _expect_list(want):
    def oracle(res):
        if res is _RAISED:
            return 'raised'
        if _ids(res) != _ids(want):
            return f'lookup {_h(res)} scan {_h(want)}'
        return None
    return oracle


def _expect_one(want, allow_none=True):
    def oracle(res):
        if res is _RAISED:
            return None if (not want and not allow_none) or len(want) > 1 else 'raised'
        if not want:
            return None if res is None else f'lookup {_h([res])} scan nothing'
        if len(want) == 1 and res is not want[0]:
            return f'lookup {_h([res]) if res is not None else None} scan {_h(want)}'
        return None
    return oracle


def _expect_getitem(want):
    def oracle(res):
        if res is _RAISED:
            return None if not want else 'raised KeyError although a scan finds objects'
        return None if _ids(res) == _ids(want) else f'lookup {_h(res)} scan {_h(want)}'
    return oracle


def run_queries(ctx, mdib, role, rng, detail, n_handles=5):
    """the whole catalogue on a sample of handles; returns False if something was reported."""
    from sdc11073.xml_types import pm_qnames as pm
    descrs = list(mdib.descriptions.objects)
    states = list(mdib.states.objects)
    cstates = list(mdib.context_states.objects)
    by_parent = {}
    for d in descrs:
        by_parent.setdefault(d.parent_handle, []).append(d)

    def descendants(handle):
        out, todo = [], [handle]
        while todo:
            h = todo.pop()
            for c in by_parent.get(h, []):
                out.append(c)
                todo.append(c.Handle)
        return out

    qs = Queries(ctx, mdib, role, detail)
    dtab, stab, ctab = mdib.descriptions, mdib.states, mdib.context_states
    roots = by_parent.get(None, [])
    deep = [d for d in descrs if any(by_parent.get(c.Handle) for c in by_parent.get(d.Handle, []))]  # has grandchildren
    sample = list(roots[:2]) + rng.sample(sorted(deep, key=lambda d: d.Handle), min(len(deep), 2))
    sample += rng.sample(sorted(descrs, key=lambda d: d.Handle), min(len(descrs), n_handles))
    sample += [d for d in descrs if d.is_context_descriptor][:2]
    seen = set()
    handles = [d.Handle for d in sample if not (d.Handle in seen or seen.add(d.Handle))] + ['c11-no-such-handle']
    for h in handles:
        want_d = [d for d in descrs if d.Handle == h]
        qs.q('descriptions.handle.get_one', lambda: dtab.handle.get_one(h, allow_none=True), _expect_one(want_d))
        qs.q('descriptions.handle.get', lambda: dtab.handle.get(h), _expect_list(want_d))
        qs.q('descriptions.handle.getitem', lambda: dtab.handle[h], _expect_getitem(want_d))
        kids = [d for d in descrs if d.parent_handle == h]
        qs.q('descriptions.parent_handle.get', lambda: dtab.parent_handle.get(h, []), _expect_list(kids))
        qs.q('descriptions.parent_handle.getitem', lambda: dtab.parent_handle[h], _expect_getitem(kids))
        qs.q('descriptions.source.get', lambda: dtab.source.get(h, []),
             _expect_list([d for d in descrs if h in (getattr(d, 'Source', None) or [])]))
        qs.q('descriptions.condition_signaled.get', lambda: dtab.condition_signaled.get(h, []),
             _expect_list([d for d in descrs if getattr(d, 'ConditionSignaled', None) == h]))
        qs.q('descriptions.find', lambda: dtab.find(Handle=h).objects, _expect_list(want_d))
        want_s = [s for s in states if s.DescriptorHandle == h]
        qs.q('states.descriptor_handle.get_one', lambda: stab.descriptor_handle.get_one(h, allow_none=True), _expect_one(want_s))
        qs.q('states.descriptor_handle.get', lambda: stab.descriptor_handle.get(h, []), _expect_list(want_s))
        qs.q('states.find', lambda: stab.find(DescriptorHandle=h).objects, _expect_list(want_s))
        want_c = [s for s in cstates if s.DescriptorHandle == h]
        qs.q('context_states.descriptor_handle.get', lambda: ctab.descriptor_handle.get(h, []), _expect_list(want_c))
        # entity interface
        def o_by_handle(ent, want_d=want_d, want_c=want_c, want_s=want_s, h=h):
            if ent is _RAISED:
                return None if want_d and not want_d[0].is_context_descriptor and not want_s else 'raised'
            if not want_d:
                return None if ent is None else 'entity for a handle that a scan does not find'
            if ent is None or ent.handle != h or ent.parent_handle != want_d[0].parent_handle or ent.node_type != want_d[0].NODETYPE:
                return 'entity does not describe the descriptor that a scan finds'
            if ent.is_multi_state:
                if sorted(ent.states) != sorted(s.Handle for s in want_c):
                    return f'entity states {sorted(ent.states)} scan {sorted(s.Handle for s in want_c)}'
            elif ent.state is None or ent.state.DescriptorHandle != h or ent.state.StateVersion != want_s[0].StateVersion:
                return 'entity state differs from the state that a scan finds'
            return None
        ent = qs.q('entities.by_handle', lambda: mdib.entities.by_handle(h), o_by_handle)
        qs.q('entities.by_parent_handle', lambda: mdib.entities.by_parent_handle(h),
             lambda res: 'raised' if res is _RAISED and all(_has_state(x, states) for x in kids) else None if res is _RAISED
             else None if sorted(e.handle for e in res) == sorted(d.Handle for d in kids) else
             f'entities {sorted(e.handle for e in res)} scan {sorted(d.Handle for d in kids)}')
        if ent not in (None, _RAISED):
            # an entity is the application's working copy: it changes it (that is what the interface is for) - the tables must not notice
            undo = []
            conts = [ent.descriptor] + (list(ent.states.values()) if ent.is_multi_state else [ent.state])
            for c in conts:
                for attr in _KEY_ATTRS:
                    if hasattr(c, attr):
                        undo.append((c, attr, getattr(c, attr)))
                        setattr(c, attr, f'c11_private_entity_{attr}')
                src = getattr(c, 'Source', None)
                if isinstance(src, list):
                    src.append('c11_private_entity_src')
                    undo.append((src, None, None))
            ctx.count('mdib.entity_mutations')
            if qs.ok and not walk3(ctx, f'{role}.after_entity_mutation', mdib, role,
                                   {**detail, 'what': 'key attributes of an entity obtained from entities.by_handle() were changed', 'handle': h}):
                qs.ok = False
            for c, attr, val in reversed(undo):
                if attr is None:
                    c.pop()
                else:
                    setattr(c, attr, val)

            def o_update(res, ent=ent, want_c=want_c):
                if res is _RAISED:
                    # not judged here: Entity.update() of a single-state entity calls states.get_one(), which no table offers (reported as a
                    # defect outside the statement of C11); purity of the attempt is still decided above
                    ctx.count(f'mdib.entity_update_raised.{type(qs.exc).__name__}')
                    return None
                if ent.is_multi_state and sorted(ent.states) != sorted(s.Handle for s in want_c):
                    return f'entity.update(): states {sorted(ent.states)} scan {sorted(s.Handle for s in want_c)}'
                return None
            qs.q('entity.update', ent.update, o_update)
        if want_d:
            d = want_d[0]
            sub = descendants(h)
            for depth_first in (True, False):
                for include_root in (True, False):
                    want = sub + ([d] if include_root else [])
                    qs.q(f'get_all_descriptors_in_subtree.depth_first={depth_first}.include_root={include_root}',
                         lambda df=depth_first, ir=include_root: mdib.get_all_descriptors_in_subtree(d, depth_first=df, include_root=ir),
                         _expect_list(want))
            if d.is_context_descriptor:
                qs.q('get_context_entity', lambda: mdib.get_context_entity(h),
                     lambda res: 'raised' if res is _RAISED else None if sorted(res.states) == sorted(s.Handle for s in want_c)
                     else f'states {sorted(res.states)} scan {sorted(s.Handle for s in want_c)}')
            elif want_s:
                qs.q('get_entity', lambda: mdib.get_entity(h),
                     lambda res: 'raised' if res is _RAISED else None if res.descriptor is d and res.state is want_s[0] else 'other objects than scan')
            if role == 'provider':
                def o_mds(res, d=d):
                    cur, hops = d, 0
                    while cur is not None and cur.NODETYPE != pm.MdsDescriptor and hops < 50:
                        nxt = [x for x in descrs if x.Handle == cur.parent_handle]
                        cur, hops = (nxt[0] if nxt else None), hops + 1
                    if res is _RAISED:
                        return None if cur is None else 'raised'
                    return None if res is cur else f'get_mds_descriptor {_h([res])} scan {_h([cur])}'
                qs.q('xtra.get_mds_descriptor', lambda: mdib.xtra.get_mds_descriptor(d), o_mds)
            elif want_s or d.is_context_descriptor:
                qs.q('xtra.mk_proposed_state', lambda: mdib.xtra.mk_proposed_state(h))
    for s in rng.sample(sorted(cstates, key=lambda s: str(s.Handle)), min(len(cstates), 3)):
        want = [x for x in cstates if x.Handle == s.Handle]
        qs.q('context_states.handle.get_one', lambda: ctab.handle.get_one(s.Handle, allow_none=True), _expect_one(want))
        qs.q('context_states.handle.get', lambda: ctab.handle.get(s.Handle, []), _expect_list(want))
    types = sorted({d.NODETYPE for d in descrs}, key=str)
    for t in rng.sample(types, min(len(types), 3)) + [pm.MdsDescriptor]:
        want = [d for d in descrs if d.NODETYPE == t]
        qs.q('descriptions.NODETYPE.get', lambda: dtab.NODETYPE.get(t, []), _expect_list(want))
        qs.q('entities.by_node_type', lambda: mdib.entities.by_node_type(t),
             lambda res: None if res is _RAISED and not all(_has_state(x, states) for x in want) else 'raised' if res is _RAISED else
             None if sorted(e.handle for e in res) == sorted(d.Handle for d in want) else
             f'entities {sorted(e.handle for e in res)} scan {sorted(d.Handle for d in want)}')
    for t in rng.sample(sorted({s.NODETYPE for s in states}, key=str), min(2, len({s.NODETYPE for s in states}))):
        qs.q('states.NODETYPE.get', lambda: stab.NODETYPE.get(t, []), _expect_list([s for s in states if s.NODETYPE == t]))
    for t in sorted({s.NODETYPE for s in cstates}, key=str)[:2]:
        qs.q('context_states.NODETYPE.get', lambda: ctab.NODETYPE.get(t, []), _expect_list([s for s in cstates if s.NODETYPE == t]))
    complete = all(_has_state(d, states) for d in descrs)
    if rng.random() < 0.35:  # deep-copies every entity
        qs.q('entities.items', lambda: mdib.entities.items(),
             lambda res: None if res is _RAISED and not complete else 'raised' if res is _RAISED else
             None if sorted(k for k, _ in res) == sorted(d.Handle for d in descrs) else 'items() differs from scan')
    qs.q('entities.len', lambda: len(mdib.entities), lambda res: None if res == len(descrs) else f'len {res} scan {len(descrs)}')
    reachable = sorted(d.Handle for d in descendants(None))

    def o_tree(res, with_ctx=None):
        if res is _RAISED:
            return f'raised {qs.exc!r}'
        node = res[0]
        got = sorted(el.get('Handle') for el in node.iter() if el.get('Handle') is not None and el.get('DescriptorHandle') is None)
        if got != reachable:
            return f'descriptors in tree: {len(got)}, reachable by scan: {len(reachable)}; diff {sorted(set(got) ^ set(reachable))[:6]}'
        if with_ctx is not None:
            n_states = sum(1 for el in node.iter() if el.get('DescriptorHandle') is not None)
            want = len(states) + (len(cstates) if with_ctx else 0)
            if n_states != want:
                return f'{n_states} states in tree, scan {want}'
        return None
    qs.q('reconstruct_md_description', mdib.reconstruct_md_description, o_tree)
    qs.q('reconstruct_mdib', mdib.reconstruct_mdib, lambda res: o_tree(res, False))
    qs.q('reconstruct_mdib_with_context_states', mdib.reconstruct_mdib_with_context_states, lambda res: o_tree(res, True))
    return qs.ok


def _has_state(d, states):
    return d.is_context_descriptor or any(s.DescriptorHandle == d.Handle for s in states)


def run_wire_queries(ctx, world, consumer, rng, detail):
    """Get / Context service requests with HandleRef lists: the provider answers them from the lookups."""
    from sdc11073.xml_types import pm_qnames as pm
    mdib = world.mdib
    descrs = sorted(mdib.descriptions.objects, key=lambda d: d.Handle)
    states, cstates = list(mdib.states.objects), list(mdib.context_states.objects)
    qs = Queries(ctx, mdib, 'provider', detail)
    non_mds = [d.Handle for d in descrs if d.NODETYPE != pm.MdsDescriptor]
    ctx_descr = [d.Handle for d in descrs if d.is_context_descriptor]
    handles = rng.sample(non_mds, min(len(non_mds), 3)) + ctx_descr[:2] + [s.Handle for s in cstates[:2]] + ['c11-no-such-handle']
    handles.append(handles[0])  # the same handle twice

    def key(s):
        return (s.DescriptorHandle, getattr(s, 'Handle', None))

    def want_md_state():
        out = {}
        for h in handles:
            hit = [s for s in cstates if s.Handle == h] if world.provider.contextstates_in_getmdib else []
            if not hit:
                hit = [s for s in states if s.DescriptorHandle == h]
                if world.provider.contextstates_in_getmdib:
                    hit += [s for s in cstates if s.DescriptorHandle == h]
            for s in hit:
                out[id(s)] = s
        return sorted(key(s) for s in out.values())

    def want_ctx_states():
        out = {}
        for h in handles:
            hit = [s for s in cstates if s.Handle == h] or [s for s in cstates if s.DescriptorHandle == h]
            for s in hit:
                out[s.Handle] = s
        return sorted(key(s) for s in out.values())

    get, cx = consumer.client('Get'), consumer.client('Context')
    qs.q('wire.GetMdState', lambda: get.get_md_state(handles),
         lambda res: f'raised {qs.exc!r}' if res is _RAISED else None if sorted(key(s) for s in res.result.MdState.State) == want_md_state()
         else f'answer {sorted(key(s) for s in res.result.MdState.State)} scan {want_md_state()}')
    qs.q('wire.GetContextStates', lambda: cx.get_context_states(handles),
         lambda res: f'raised {qs.exc!r}' if res is _RAISED else None if sorted(key(s) for s in res.result.ContextState) == want_ctx_states()
         else f'answer {sorted(key(s) for s in res.result.ContextState)} scan {want_ctx_states()}')
    qs.q('wire.GetMdDescription', lambda: get.get_md_description(handles[:2]))
    by_parent = {}
    for d in descrs:
        by_parent.setdefault(d.parent_handle, []).append(d)
    reach, todo = [], [None]
    while todo:
        for c in by_parent.get(todo.pop(), []):
            reach.append(c.Handle)
            todo.append(c.Handle)
    qs.q('wire.GetMdib', get.get_mdib,
         lambda res: f'raised {qs.exc!r}' if res is _RAISED else None if sorted(d.Handle for d in res.result[0]) == sorted(reach)
         else 'GetMdib answer does not contain the descriptors reachable by scan')
    ctx.count('mdib.wire_queries', 4)
    return qs.ok


# ------------------------------------------------------------------------------------------------------------------
# private objects of the application
# ------------------------------------------------------------------------------------------------------------------
_OUT = ('get_state', 'get_descriptor', 'get_context_state', 'mk_context_state')
_IN = ('add_state', 'add_descriptor')


def install_recorder(mdib):
    """wrap the transaction factory: every container the transaction API hands out or takes is remembered."""
    rec = []
    orig = mdib._transaction_factory

    def factory(provider_mdib, transaction_type, logger):
        tr = orig(provider_mdib, transaction_type, logger)
        for name in _OUT:
            fn = getattr(tr, name, None)
            if fn is not None:
                def out(*a, _fn=fn, _name=name, **kw):
                    res = _fn(*a, **kw)
                    rec.append((_name, res))
                    return res
                setattr(tr, name, out)
        for name in _IN:
            fn = getattr(tr, name, None)
            if fn is not None:
                def inp(*a, _fn=fn, _name=name, **kw):
                    for x in list(a) + list(kw.values()):
                        if getattr(x, 'is_state_container', False) or getattr(x, 'is_descriptor_container', False):
                            rec.append((_name, x))
                    return _fn(*a, **kw)
                setattr(tr, name, inp)
        return tr
    mdib._transaction_factory = factory
    return rec


_KEY_ATTRS = ('Handle', 'DescriptorHandle', 'parent_handle', 'ConditionSignaled')


def mutate_handouts(ctx, mdib, rec, detail, n):
    """the application changes ITS objects after the commit (key attributes; Source list in place) - the tables must not change."""
    if not rec:
        return True
    undo = []
    done = set()
    for how, obj in rec:
        if id(obj) in done:
            continue
        done.add(id(obj))
        for attr in _KEY_ATTRS:
            if hasattr(obj, attr):
                undo.append((obj, attr, getattr(obj, attr)))
                setattr(obj, attr, f'c11_private_{n}_{attr}')
        src = getattr(obj, 'Source', None)
        if isinstance(src, list):
            src.append(f'c11_private_{n}_src')
            undo.append((src, None, None))
        ctx.count('mdib.handout_mutations')
        ctx.count(f'mdib.handout_mutations.{how}')
    ok = walk3(ctx, 'provider.after_handout_mutation', mdib, 'provider',
               {**detail, 'handed_out_by': sorted({how for how, _ in rec}),
                'what': 'key attributes of the containers that the transaction API handed out / took were changed after the commit'})
    for obj, attr, val in reversed(undo):
        if attr is None:
            obj.pop()
        else:
            setattr(obj, attr, val)
    del rec[:]
    return ok


# ------------------------------------------------------------------------------------------------------------------
# own provider operations
# ------------------------------------------------------------------------------------------------------------------
def _numeric(mdib, handle, parent):
    from decimal import Decimal

    from sdc11073.xml_types import pm_qnames as pm
    from sdc11073.xml_types import pm_types
    cls = mdib.data_model.get_descriptor_container_class(pm.NumericMetricDescriptor)
    d = cls(handle=handle, parent_handle=parent)
    d.Type = pm_types.CodedValue('12345')
    d.Unit = pm_types.CodedValue('262656')
    d.Resolution = Decimal('0.1')
    d.MetricCategory = pm_types.MetricCategory.MEASUREMENT
    d.MetricAvailability = pm_types.MetricAvailability.CONTINUOUS
    return d


def _proto(mdib, *localnames):
    for d in sorted(mdib.descriptions.objects, key=lambda d: d.Handle):
        if d.NODETYPE.localname in localnames:
            return d
    return None


OWN_OPS = ('reuse_ctx_state', 'reuse_single_state', 'reuse_descriptor', 'reuse_entity', 'alert_create', 'alert_update_inplace', 'alert_delete',
           'subtree_delete_alertsystem', 'subtree_delete_vmd')


def own_op(ctx, mdib, name, rng, memo, walk):
    """returns outcome string; `walk(label)` is called at the quiescent points inside multi-transaction sequences."""
    from sdc11073.xml_types import pm_qnames as pm
    n = memo['own_n'] = memo.get('own_n', 0) + 1
    if name == 'reuse_ctx_state':
        cds = sorted(d.Handle for d in mdib.descriptions.objects if d.is_context_descriptor)
        if not cds:
            return 'n/a'
        descr = rng.choice(cds)
        how = rng.choice(['mk_context_state', 'get_context_state'])
        with mdib.context_state_transaction() as mgr:
            st = mgr.mk_context_state(descr, f'c11t{n}a')
        if how == 'get_context_state':
            walk('template_reuse')
            with mdib.context_state_transaction() as mgr:
                st = mgr.get_context_state(f'c11t{n}a')
                st.Validator = []
        walk('template_reuse')
        # the application keeps ITS object and uses it as the template of the next state
        st.Handle = f'c11t{n}b'
        st.StateVersion = 0
        walk('template_reuse')
        with mdib.context_state_transaction() as mgr:
            mgr.add_state(st)
        walk('template_reuse')
        ctx.count('mdib.template_reuse.context_state')
        return how
    if name == 'reuse_single_state':
        metrics = sorted(d.Handle for d in mdib.descriptions.objects if d.NODETYPE == pm.NumericMetricDescriptor)
        if not metrics:
            return 'n/a'
        h = rng.choice(metrics)
        parent = mdib.descriptions.handle.get_one(h).parent_handle
        with mdib.metric_state_transaction() as mgr:
            st = mgr.get_state(h)
        walk('template_reuse')
        d = _numeric(mdib, f'c11m{n}', parent)
        st.DescriptorHandle = d.Handle
        st.StateVersion = 0
        walk('template_reuse')
        with mdib.descriptor_transaction() as mgr:
            mgr.add_descriptor(d, state_container=st)
        walk('template_reuse')
        ctx.count('mdib.template_reuse.single_state')
        return 'ok'
    if name == 'reuse_descriptor':
        proto = _proto(mdib, 'AlertConditionDescriptor', 'LimitAlertConditionDescriptor') if rng.random() < 0.5 else None
        if proto is not None:
            d = proto.mk_copy()
            d.Handle = f'c11d{n}a'
            d.Source = [f'c11s{n}x', f'c11s{n}y']
            d.DescriptorVersion = 0
        else:
            chans = sorted(x.Handle for x in mdib.descriptions.objects if x.NODETYPE == pm.ChannelDescriptor)
            if not chans:
                return 'n/a'
            d = _numeric(mdib, f'c11d{n}a', rng.choice(chans))
        with mdib.descriptor_transaction() as mgr:
            mgr.add_descriptor(d, state_container=mdib.data_model.mk_state_container(d))
        walk('template_reuse')
        d.Handle = f'c11d{n}b'
        if proto is not None:
            d.Source.append(f'c11s{n}z')  # in place
        walk('template_reuse')
        with mdib.descriptor_transaction() as mgr:
            mgr.add_descriptor(d, state_container=mdib.data_model.mk_state_container(d))
        walk('template_reuse')
        with mdib.descriptor_transaction() as mgr:
            d2 = mgr.get_descriptor(f'c11d{n}a')
        if proto is not None:
            d2.Source.append(f'c11s{n}w')
        d2.Handle = f'c11d{n}c'
        walk('template_reuse')
        ctx.count('mdib.template_reuse.descriptor')
        return 'alert' if proto is not None else 'metric'
    if name == 'reuse_entity':
        chans = sorted(x.Handle for x in mdib.descriptions.objects if x.NODETYPE == pm.ChannelDescriptor)
        if not chans:
            return 'n/a'
        ent = mdib.entities.new_entity(pm.NumericMetricDescriptor, f'c11e{n}a', rng.choice(chans))
        proto = _numeric(mdib, 'x', 'y')
        for a in ('Type', 'Unit', 'Resolution', 'MetricCategory', 'MetricAvailability'):
            setattr(ent.descriptor, a, getattr(proto, a))
        with mdib.descriptor_transaction() as mgr:
            mgr.write_entity(ent)
        walk('template_reuse')
        ent.descriptor.Handle = f'c11e{n}b'
        ent.state.DescriptorHandle = f'c11e{n}b'
        walk('template_reuse')
        with mdib.descriptor_transaction() as mgr:
            mgr.write_entity(ent)
        walk('template_reuse')
        ctx.count('mdib.template_reuse.entity')
        return 'ok'
    if name == 'alert_create':
        systems = sorted(x.Handle for x in mdib.descriptions.objects if x.NODETYPE == pm.AlertSystemDescriptor)
        cond = _proto(mdib, 'AlertConditionDescriptor', 'LimitAlertConditionDescriptor')
        sig = _proto(mdib, 'AlertSignalDescriptor')
        if not systems or cond is None:
            return 'n/a'
        parent = rng.choice(systems)
        metrics = sorted(x.Handle for x in mdib.descriptions.objects if 'Metric' in x.NODETYPE.localname)
        c = cond.mk_copy()
        c.Handle, c.parent_handle, c.DescriptorVersion = f'c11ac{n}', parent, 0
        # several sources nobody refers to yet (fresh keys of the 1:n index) + known ones
        c.Source = [f'c11src{n}_{k}' for k in range(rng.randrange(2, 4))] + rng.sample(metrics, min(len(metrics), rng.randrange(0, 2)))
        with mdib.descriptor_transaction() as mgr:
            mgr.add_descriptor(c, state_container=mdib.data_model.mk_state_container(c))
            if sig is not None:
                for k in range(rng.randrange(1, 3)):
                    s = sig.mk_copy()
                    s.Handle, s.parent_handle, s.DescriptorVersion, s.ConditionSignaled = f'c11as{n}_{k}', parent, 0, c.Handle
                    mgr.add_descriptor(s, state_container=mdib.data_model.mk_state_container(s))
        memo.setdefault('own_alerts', []).append(c.Handle)
        ctx.count('mdib.own.alert_create')
        return 'ok'
    if name == 'alert_update_inplace':
        mine = [h for h in memo.get('own_alerts', []) if h in mdib.descriptions.handle]
        if not mine:
            return 'n/a'
        with mdib.descriptor_transaction() as mgr:
            d = mgr.get_descriptor(rng.choice(mine))
            if rng.random() < 0.5:
                d.Source.append(f'c11src{n}_more')  # in place
            else:
                d.Source = d.Source[1:]
        ctx.count('mdib.own.alert_update')
        return 'ok'
    if name == 'alert_delete':
        mine = [h for h in memo.get('own_alerts', []) if h in mdib.descriptions.handle]
        if not mine:
            return 'n/a'
        h = rng.choice(mine)
        signals = sorted(x.Handle for x in mdib.descriptions.condition_signaled.get(h, []))
        with mdib.descriptor_transaction() as mgr:
            mgr.remove_descriptor(h)
            if signals and rng.random() < 0.5:
                mgr.remove_descriptor(signals[0])
        ctx.count('mdib.own.alert_delete')
        return 'ok'
    if name in ('subtree_delete_alertsystem', 'subtree_delete_vmd'):
        t = pm.AlertSystemDescriptor if name.endswith('alertsystem') else pm.VmdDescriptor
        pool = sorted(x.Handle for x in mdib.descriptions.objects if x.NODETYPE == t and mdib.descriptions.parent_handle.get(x.Handle))
        # keep one alert system with >= 2 children alive (the consumer part of the history ends with grouped reports about alert siblings)
        groups = [x.Handle for x in mdib.descriptions.objects if x.NODETYPE == pm.AlertSystemDescriptor
                  and len([c for c in mdib.descriptions.objects if c.parent_handle == x.Handle]) >= 2]

        def survivors(victim):
            gone = {d.Handle for d in mdib.get_all_descriptors_in_subtree(mdib.descriptions.handle.get_one(victim))}
            return [g for g in groups if g not in gone]
        pool = [h for h in pool if survivors(h)]
        if len(pool) < (1 if name.endswith('alertsystem') else 2):
            return 'n/a'
        with mdib.descriptor_transaction() as mgr:
            mgr.remove_descriptor(rng.choice(pool))
        ctx.count('mdib.own.subtree_delete')
        return 'ok'
    raise ValueError(name)


def template_reuse_directed(ctx, rng, mdib_file):
    """API-only sequences on a stand-alone ProviderMdib: the application re-uses the container of one transaction (with a new handle) in the
    next one.  Every re-use kind runs in its own MDIB, so that one finding does not hide the others."""
    from sdc11073.mdib import ProviderMdib

    from ..mdibharness import load_mdib_bytes
    for name in ('reuse_ctx_state', 'reuse_ctx_state', 'reuse_single_state', 'reuse_descriptor', 'reuse_descriptor', 'reuse_entity'):
        mdib = ProviderMdib.from_string(load_mdib_bytes(mdib_file))
        memo = {}
        detail = {'mdib_file': mdib_file, 'op': {'op': name}, 'stand_alone_provider_mdib': True}
        state = {'ok': True}

        def walk(label, mdib=mdib, detail=detail, state=state):
            if state['ok']:
                state['ok'] = walk3(ctx, f'provider.after_{label}', mdib, 'provider', detail)
        for _ in range(2):
            try:
                detail['outcome'] = own_op(ctx, mdib, name, rng, memo, walk)
            except Exception as ex:  # noqa: BLE001
                ctx.count(f'mdib.own_op_raised.{name}.{type(ex).__name__}')
                detail['exception'] = repr(ex)[:300]
            walk('template_reuse')
        ctx.count('mdib.template_reuse.directed')


# ------------------------------------------------------------------------------------------------------------------
# consumer MDIB fed with irregular reports
# ------------------------------------------------------------------------------------------------------------------
def consumer_reports(ctx: core.Ctx, arg):
    from sdc11073.mdib.mdibbase import MdibVersionGroup
    from sdc11073.xml_types import pm_qnames as pm

    from ..mdibharness import MDIB_FILES, World
    rng = ctx.rng('c11reports', arg['i'])
    for hno in range(arg['n']):
        mdib_file = MDIB_FILES[(arg['i'] + hno) % len(MDIB_FILES)]
        in_getmdib = (arg['i'] + hno) % 3 != 2
        world = World(mdib_file, role_provider=False, contextstates_in_getmdib=in_getmdib)
        # context states exist before the consumer connects (GetMdib with / without context states, _retrieve_context_states)
        for d in sorted(x.Handle for x in world.mdib.descriptions.objects if x.is_context_descriptor)[:2]:
            with world.mdib.context_state_transaction() as mgr:
                mgr.mk_context_state(d, f'c11pre_{d}_1', set_associated=True)
                mgr.mk_context_state(d, f'c11pre_{d}_2')
        consumer, cm = world.add_consumer()
        ctx.count('consumer.init_with_context_states_in_getmdib' if in_getmdib else 'consumer.init_retrieve_context_states')
        mt = world.mdib.data_model.msg_types
        nsh = world.mdib.data_model.ns_helper
        shapes = []

        w0 = sum(ctx.witness_counts.values())

        def feed(case, report_cls, fill, handler_name):
            if sum(ctx.witness_counts.values()) != w0:
                return  # the tables are broken: the later cases would repeat the finding under their names
            vg = MdibVersionGroup(cm.mdib_version + 1, cm.sequence_id, cm.instance_id)
            detail = {'mdib_file': mdib_file, 'case': case}
            try:
                report = report_cls()
                if fill(report) is False:
                    ctx.count(f'consumer.case_not_applicable.{case}')
                    return
                report.set_mdib_version_group(vg)
                node = report.as_etree_node(report.NODETYPE, nsh.partial_map(nsh.MSG, nsh.PM, nsh.XSI))
                received = report_cls.from_node(node)
            except Exception as ex:  # noqa: BLE001
                ctx.count(f'consumer.harness_could_not_build.{case}.{type(ex).__name__}')
                return
            before = snap3(cm)
            try:
                getattr(cm, handler_name)(vg, received)
                outcome = 'ok'
            except Exception as ex:  # noqa: BLE001
                outcome = f'raised:{type(ex).__name__}'
                detail['exception'] = repr(ex)[:300]
            ctx.count(f'consumer.reports.{case}')
            ctx.count('consumer.reports')
            ctx.count('consumer.reports.changed_tables' if snap3(cm) != before else 'consumer.reports.left_tables_unchanged')
            shapes.append((case, outcome))
            detail['outcome'] = outcome
            ok = walk3(ctx, f'consumer.after_report.{case}', cm, 'consumer', detail)
            if ok and rng.random() < 0.3:
                run_queries(ctx, cm, 'consumer', rng, detail, n_handles=2)

        def part_of(report, states_attr, states):
            part = report.add_report_part()
            getattr(part, states_attr).extend(states)

        def st_copy(state, **changes):
            c = state.mk_copy()
            c.StateVersion += 1
            for k, v in changes.items():
                setattr(c, k, v)
            return c

        def one(pred, table=None):
            pool = sorted((s for s in (table or cm.states).objects if pred(s)), key=lambda s: (s.DescriptorHandle, str(getattr(s, 'Handle', ''))))
            return rng.choice(pool) if pool else None

        def descr_one(pred):
            pool = sorted((d for d in cm.descriptions.objects if pred(d)), key=lambda d: d.Handle)
            return rng.choice(pool) if pool else None

        def descr_part(report, mod_type, descriptors, states=(), parent=None):
            part = report.add_report_part()
            part.ModificationType = mod_type
            part.ParentDescriptor = parent
            part.Descriptor.extend(descriptors)
            part.State.extend(states)

        dmt = mt.DescriptionModificationType
        numeric = lambda s: s.NODETYPE == pm.NumericMetricState  # noqa: E731
        for round_no in range(arg['rounds']):
            ghost = f'c11ghost{hno}_{round_no}'
            # --- state reports ---------------------------------------------------------------------------------
            def metric_unknown(report):
                s = one(numeric)
                return False if s is None else part_of(report, 'MetricState', [st_copy(s, DescriptorHandle=ghost)])
            feed('metric_state_of_unknown_descriptor', mt.EpisodicMetricReport, metric_unknown, 'process_incoming_metric_states_report')
            feed('metric_state_of_unknown_descriptor_again', mt.EpisodicMetricReport,
                 lambda r: False if cm.states.descriptor_handle.get_one(ghost, allow_none=True) is None else
                 part_of(r, 'MetricState', [st_copy(cm.states.descriptor_handle.get_one(ghost))]), 'process_incoming_metric_states_report')

            def metric_other_type(report):
                s, other = one(numeric), one(lambda s: s.NODETYPE in (pm.StringMetricState, pm.EnumStringMetricState))
                if s is None or other is None:
                    return False
                return part_of(report, 'MetricState', [st_copy(other, DescriptorHandle=s.DescriptorHandle, StateVersion=s.StateVersion + 1)])
            feed('metric_state_of_other_type', mt.EpisodicMetricReport, metric_other_type, 'process_incoming_metric_states_report')

            def metric_twice(report):
                s = one(numeric)
                return False if s is None else part_of(report, 'MetricState', [st_copy(s), st_copy(s, StateVersion=s.StateVersion + 2)])
            feed('same_state_twice_in_one_report', mt.EpisodicMetricReport, metric_twice, 'process_incoming_metric_states_report')

            def alert_unknown(report):
                s = one(lambda s: s.is_alert_state)
                return False if s is None else part_of(report, 'AlertState', [st_copy(s, DescriptorHandle=ghost + '_al'), st_copy(s)])
            feed('alert_state_of_unknown_descriptor', mt.EpisodicAlertReport, alert_unknown, 'process_incoming_alert_states_report')

            def comp_unknown(report):
                s = one(lambda s: s.is_component_state)
                return False if s is None else part_of(report, 'ComponentState', [st_copy(s, DescriptorHandle=ghost + '_co'), st_copy(s)])
            feed('component_state_of_unknown_descriptor', mt.EpisodicComponentReport, comp_unknown, 'process_incoming_component_states_report')

            def op_unknown(report):
                s = one(lambda s: s.is_operational_state)
                return False if s is None else part_of(report, 'OperationState', [st_copy(s, DescriptorHandle=ghost + '_op'), st_copy(s)])
            feed('operational_state_of_unknown_descriptor', mt.EpisodicOperationalStateReport, op_unknown,
                 'process_incoming_operational_states_report')
            # waveform states are handed over as a list
            rt = one(lambda s: s.is_realtime_sample_array_metric_state)
            if rt is not None and sum(ctx.witness_counts.values()) == w0:
                vg = MdibVersionGroup(cm.mdib_version + 1, cm.sequence_id, cm.instance_id)
                try:
                    cm.process_incoming_waveform_states(vg, [st_copy(rt, DescriptorHandle=ghost + '_rt'), st_copy(rt)])
                    outcome = 'ok'
                except Exception as ex:  # noqa: BLE001
                    outcome = f'raised:{type(ex).__name__}'
                ctx.count('consumer.reports.waveform_state_of_unknown_descriptor')
                ctx.count('consumer.reports')
                shapes.append(('waveform', outcome))
                walk3(ctx, 'consumer.after_report.waveform_state_of_unknown_descriptor', cm, 'consumer', {'mdib_file': mdib_file, 'outcome': outcome})
            # --- context reports -------------------------------------------------------------------------------
            def ctx_new(report):
                s = one(lambda s: True, cm.context_states)
                return False if s is None else part_of(report, 'ContextState', [st_copy(s, Handle=ghost + '_cx', StateVersion=0)])
            feed('context_state_new', mt.EpisodicContextReport, ctx_new, 'process_incoming_context_states_report')

            def ctx_new_twice(report):
                s = one(lambda s: True, cm.context_states)
                if s is None:
                    return False
                return part_of(report, 'ContextState', [st_copy(s, Handle=ghost + '_cy', StateVersion=0), st_copy(s, Handle=ghost + '_cy', StateVersion=1),
                                                        st_copy(s)])
            feed('context_state_new_twice_in_one_report', mt.EpisodicContextReport, ctx_new_twice, 'process_incoming_context_states_report')

            def ctx_other_descriptor(report):
                s = one(lambda s: True, cm.context_states)
                others = sorted(d.Handle for d in cm.descriptions.objects if d.is_context_descriptor and d.NODETYPE.localname ==
                                s.NODETYPE.localname.replace('State', 'Descriptor') and d.Handle != s.DescriptorHandle) if s is not None else []
                if s is None:
                    return False
                return part_of(report, 'ContextState', [st_copy(s, DescriptorHandle=others[0] if others else ghost + '_cd')])
            feed('context_state_known_handle_other_descriptor', mt.EpisodicContextReport, ctx_other_descriptor, 'process_incoming_context_states_report')
            # --- description modification reports -----------------------------------------------------------------
            def create_existing_with_children(report):
                d = descr_one(lambda d: d.NODETYPE == pm.ChannelDescriptor and cm.descriptions.parent_handle.get(d.Handle))
                if d is None:
                    return False
                c = d.mk_copy()
                c.DescriptorVersion += 1
                st = cm.states.descriptor_handle.get_one(d.Handle, allow_none=True)
                sts = [] if st is None else [st_copy(st, DescriptorVersion=c.DescriptorVersion)]
                return descr_part(report, dmt.CREATE, [c], sts, parent=d.parent_handle)
            feed('create_of_known_descriptor_with_children', mt.DescriptionModificationReport, create_existing_with_children,
                 'process_incoming_description_modifications')

            def create_for_leftover_state(report):
                proto = descr_one(lambda d: d.NODETYPE == pm.NumericMetricDescriptor)
                left = cm.states.descriptor_handle.get_one(ghost, allow_none=True)
                if proto is None or left is None:
                    return False
                c = proto.mk_copy()
                c.Handle = ghost
                return descr_part(report, dmt.CREATE, [c], [st_copy(left)], parent=proto.parent_handle)
            feed('create_descriptor_whose_state_is_already_stored', mt.DescriptionModificationReport, create_for_leftover_state,
                 'process_incoming_description_modifications')

            def create_same_handle_twice(report):
                proto = descr_one(lambda d: d.NODETYPE == pm.NumericMetricDescriptor)
                st = None if proto is None else cm.states.descriptor_handle.get_one(proto.Handle, allow_none=True)
                if proto is None or st is None:
                    return False
                a, b = proto.mk_copy(), proto.mk_copy()
                a.Handle = b.Handle = ghost + '_tw'
                b.DescriptorVersion = a.DescriptorVersion + 1
                return descr_part(report, dmt.CREATE, [a, b], [st_copy(st, DescriptorHandle=a.Handle), st_copy(st, DescriptorHandle=a.Handle)],
                                  parent=proto.parent_handle)
            feed('create_same_handle_twice_in_one_part', mt.DescriptionModificationReport, create_same_handle_twice,
                 'process_incoming_description_modifications')

            def create_alert_with_sources(report):
                proto = descr_one(lambda d: d.NODETYPE in (pm.AlertConditionDescriptor, pm.LimitAlertConditionDescriptor))
                sig = descr_one(lambda d: d.NODETYPE == pm.AlertSignalDescriptor)
                if proto is None:
                    return False
                a, b = proto.mk_copy(), proto.mk_copy()
                a.Handle, b.Handle = ghost + '_ac1', ghost + '_ac2'
                a.Source = [ghost + '_s1', ghost + '_s2']
                b.Source = [ghost + '_s2', ghost + '_s3', ghost + '_s1']
                ds = [a, b]
                if sig is not None:
                    s = sig.mk_copy()
                    s.Handle, s.ConditionSignaled = ghost + '_as', a.Handle
                    ds.append(s)
                return descr_part(report, dmt.CREATE, ds, [], parent=proto.parent_handle)
            feed('create_alert_conditions_sharing_fresh_sources', mt.DescriptionModificationReport, create_alert_with_sources,
                 'process_incoming_description_modifications')

            def update_alert_sources(report):
                a = cm.descriptions.handle.get_one(ghost + '_ac1', allow_none=True)
                s = cm.descriptions.handle.get_one(ghost + '_as', allow_none=True)
                if a is None:
                    return False
                a2 = a.mk_copy()
                a2.DescriptorVersion += 1
                a2.Source = [ghost + '_s3']
                ds = [a2]
                if s is not None:
                    s2 = s.mk_copy()
                    s2.DescriptorVersion += 1
                    s2.ConditionSignaled = ghost + '_ac2'
                    ds.append(s2)
                return descr_part(report, dmt.UPDATE, ds, [], parent=a.parent_handle)
            feed('update_sources_and_condition_signaled', mt.DescriptionModificationReport, update_alert_sources,
                 'process_incoming_description_modifications')

            def delete_alerts(report):
                ds = [cm.descriptions.handle.get_one(h, allow_none=True) for h in (ghost + '_ac2', ghost + '_as')]
                ds = [d.mk_copy() for d in ds if d is not None]
                return False if not ds else descr_part(report, dmt.DELETE, ds, [], parent=ds[0].parent_handle)
            feed('delete_alert_condition_and_signal', mt.DescriptionModificationReport, delete_alerts, 'process_incoming_description_modifications')

            def update_unknown(report):
                proto = descr_one(lambda d: d.NODETYPE == pm.NumericMetricDescriptor)
                if proto is None:
                    return False
                c = proto.mk_copy()
                c.Handle = ghost + '_never_created'
                st = cm.states.descriptor_handle.get_one(proto.Handle, allow_none=True)
                return descr_part(report, dmt.UPDATE, [c], [] if st is None else [st_copy(st, DescriptorHandle=c.Handle)], parent=proto.parent_handle)
            feed('update_of_unknown_descriptor', mt.DescriptionModificationReport, update_unknown, 'process_incoming_description_modifications')

            def update_ctx_descr_drops_states(report):
                d = descr_one(lambda d: d.is_context_descriptor and len(cm.context_states.descriptor_handle.get(d.Handle, [])) >= 2)
                if d is None:
                    return False
                c = d.mk_copy()
                c.DescriptorVersion += 1
                keep = sorted(cm.context_states.descriptor_handle.get(d.Handle, []), key=lambda s: s.Handle)[:1]
                return descr_part(report, dmt.UPDATE, [c], [st_copy(s, DescriptorVersion=c.DescriptorVersion) for s in keep], parent=d.parent_handle)
            feed('update_context_descriptor_with_fewer_states', mt.DescriptionModificationReport, update_ctx_descr_drops_states,
                 'process_incoming_description_modifications')

            def delete_with_states(report):
                d = descr_one(lambda d: d.NODETYPE == pm.NumericMetricDescriptor)
                if d is None:
                    return False
                st = cm.states.descriptor_handle.get_one(d.Handle, allow_none=True)
                return descr_part(report, dmt.DELETE, [d.mk_copy()], [] if st is None else [st.mk_copy()], parent=d.parent_handle)
            feed('delete_leaf_with_state_listed', mt.DescriptionModificationReport, delete_with_states, 'process_incoming_description_modifications')

            def delete_subtree_and_unknown(report):
                d = descr_one(lambda d: d.NODETYPE == pm.ChannelDescriptor and cm.descriptions.parent_handle.get(d.Handle))
                if d is None:
                    return False
                u = d.mk_copy()
                u.Handle = ghost + '_unknown'
                return descr_part(report, dmt.DELETE, [u, d.mk_copy()], [], parent=d.parent_handle)
            if round_no % 2 == 1:
                feed('delete_unknown_and_subtree_root', mt.DescriptionModificationReport, delete_subtree_and_unknown,
                     'process_incoming_description_modifications')

            def delete_ctx_descr(report):
                d = descr_one(lambda d: d.is_context_descriptor and cm.context_states.descriptor_handle.get(d.Handle))
                if d is None or round_no == 0:
                    return False
                return descr_part(report, dmt.DELETE, [d.mk_copy()], [s.mk_copy() for s in cm.context_states.descriptor_handle.get(d.Handle, [])],
                                  parent=d.parent_handle)
            feed('delete_context_descriptor_with_states', mt.DescriptionModificationReport, delete_ctx_descr,
                 'process_incoming_description_modifications')
        # the whole MDIB is thrown away and loaded again
        try:
            if sum(ctx.witness_counts.values()) != w0:
                raise RuntimeError('stopped at first witness')
            cm.reload_all()
            ctx.count('consumer.reload_all')
            walk3(ctx, 'consumer.after_reload_all', cm, 'consumer', {'mdib_file': mdib_file})
            run_queries(ctx, cm, 'consumer', rng, {'mdib_file': mdib_file, 'after': 'reload_all'}, n_handles=3)
        except Exception as ex:  # noqa: BLE001
            ctx.count(f'consumer.reload_all_raised.{type(ex).__name__}')
        ctx.case(('reports', mdib_file, in_getmdib, tuple(shapes)))
        if hno == 0 and arg['i'] == 0:
            ctx.sample({'kind': 'irregular reports handed to ConsumerMdib', 'mdib_file': mdib_file, 'cases': shapes[:12]})
        stop_in_background(world.stop)


# ------------------------------------------------------------------------------------------------------------------
# the real table classes of the MDIB under random operation sequences
# ------------------------------------------------------------------------------------------------------------------
def mdib_tables(ctx: core.Ctx, arg):
    from sdc11073.mdib import ProviderMdib
    from sdc11073.mdib import mdibbase

    from ..mdibharness import MDIB_FILES, load_mdib_bytes
    from . import c11
    c11.install_invariant()
    rng = ctx.rng('c11mdibtables', arg['i'])
    src = ProviderMdib.from_string(load_mdib_bytes(MDIB_FILES[arg['i'] % len(MDIB_FILES)]))
    d_pool = sorted(src.descriptions.objects, key=lambda d: d.Handle)
    alerts = [d for d in d_pool if hasattr(d, 'Source') or hasattr(d, 'ConditionSignaled')]
    s_pool = sorted(src.states.objects, key=lambda s: s.DescriptorHandle)
    c_pool = []
    for d in d_pool:
        if d.is_context_descriptor:
            st = src.data_model.mk_state_container(d)
            st.Handle = 'proto'
            c_pool.append(st)
    keys = ['k1', 'k2', 'k3', 'k4', 'k5']

    def new_obj(flavour):
        if flavour == 'DescriptorsLookup':
            o = rng.choice(alerts if alerts and rng.random() < 0.5 else d_pool).mk_copy()
            o.Handle = rng.choice(keys)
            o.parent_handle = rng.choice(keys + [None])
            if hasattr(o, 'Source'):
                o.Source = [rng.choice(keys) for _ in range(rng.randrange(0, 4))]
            if hasattr(o, 'ConditionSignaled'):
                o.ConditionSignaled = rng.choice(keys + [None])
        elif flavour == 'StatesLookup':
            o = rng.choice(s_pool).mk_copy()
            o.DescriptorHandle = rng.choice(keys)
        else:
            o = rng.choice(c_pool).mk_copy()
            o.DescriptorHandle = rng.choice(keys[:3])
            o.Handle = rng.choice(keys + [None])
        return o

    def mutate(flavour, o, members):
        unique = 'DescriptorHandle' if flavour == 'StatesLookup' else 'Handle'
        which = rng.randrange(4)
        if which == 0:  # unique key, kept unique (a colliding change is an application error, not judged)
            free = [k for k in keys if all(getattr(m, unique) != k or m is o for m in members)]
            if free:
                setattr(o, unique, rng.choice(free))
        elif flavour == 'DescriptorsLookup':
            if which == 1:
                o.parent_handle = rng.choice(keys + [None])
            elif which == 2 and hasattr(o, 'Source'):
                if rng.random() < 0.5:
                    o.Source = [rng.choice(keys) for _ in range(rng.randrange(0, 4))]
                else:
                    o.Source.append(rng.choice(keys))
            elif hasattr(o, 'ConditionSignaled'):
                o.ConditionSignaled = rng.choice(keys + [None])
        elif flavour == 'MultiStatesLookup':
            o.DescriptorHandle = rng.choice(keys[:3])

    for seq in range(arg['n']):
        flavour = rng.choice(['DescriptorsLookup', 'StatesLookup', 'MultiStatesLookup'])
        if not c_pool and flavour == 'MultiStatesLookup':
            flavour = 'StatesLookup'
        table = getattr(mdibbase, flavour)()
        members, graveyard, trace, ok = [], [], [], True
        P = f'mdibtable.{flavour}'
        for step in range(arg['len']):
            op = rng.choice(['add', 'add', 'add', 'add_dup_obj', 'add_many', 'update', 'update', 'remove', 'remove', 'remove_unknown', 'remove_none',
                             'remove_many', 'clear', 'wrong_kind'])
            suffix = '_no_lock' if rng.random() < 0.4 else ''
            before = table_snapshot(table)
            try:
                if op == 'add':
                    o = new_obj(flavour)
                    reject = c11._unique_collision(table, members, o)
                    trace.append((op + suffix, c11_descr(o), 'expect-reject' if reject else 'expect-ok'))
                    try:
                        getattr(table, 'add_object' + suffix)(o)
                        raised = False
                    except KeyError:
                        raised = True
                    ctx.count('mdibtable.add.rejected' if raised else 'mdibtable.add.accepted')
                    if reject != raised:
                        ctx.witness(f'{P}.add.reject_mismatch', 'unique-key rule: insertion accepted/rejected contrary to the stored keys',
                                    {'trace': trace[-6:], 'expected_reject': reject})
                        ok = False
                    if raised:
                        if table_snapshot(table) != before:
                            ctx.witness(f'mdibtable.rejected_insert_changes_table.{flavour}',
                                        'an insertion rejected for an existing unique key does not leave the table as it was',
                                        {'obj': c11_descr(o), 'problems': index_vs_scan(table)[:3], 'trace': trace[-5:]})
                            ok = False
                    else:
                        members.append(o)
                elif op == 'add_dup_obj' and members:
                    o = rng.choice(members)
                    trace.append((op + suffix, c11_descr(o)))
                    try:
                        getattr(table, 'add_object' + suffix)(o)
                    except ValueError:
                        if not getattr(o, 'is_multi_state', False):  # StatesLookup.add_object_no_lock refuses multi states before anything else
                            raise
                    if table_snapshot(table) != before:
                        ctx.witness(f'{P}.add_stored_object_changes_table', 'adding an object that is already stored changed the table', {'trace': trace[-5:]})
                        ok = False
                elif op == 'add_many':
                    objs = [new_obj(flavour) for _ in range(rng.randrange(0, 4))]
                    if members and rng.random() < 0.3:
                        objs.insert(rng.randrange(len(objs) + 1), rng.choice(members))
                    ref = list(members)
                    expect_raise = False
                    for o in objs:
                        if any(o is m for m in ref):
                            continue
                        if c11._unique_collision(table, ref, o):
                            expect_raise = True
                            break
                        ref.append(o)
                    trace.append((op + suffix, [c11_descr(o) for o in objs], 'expect-reject' if expect_raise else 'expect-ok'))
                    try:
                        getattr(table, 'add_objects' + suffix)(objs)
                        raised = False
                    except KeyError:
                        raised = True
                    if raised != expect_raise:
                        ctx.witness(f'{P}.add.reject_mismatch', 'unique-key rule (plural add): accepted/rejected contrary to the stored keys',
                                    {'trace': trace[-4:]})
                        ok = False
                    members = ref
                elif op == 'update' and members:
                    o = rng.choice(members)
                    c11._STATE['dirty'] = True
                    mutate(flavour, o, members)
                    trace.append((op + suffix, c11_descr(o)))
                    c11._STATE['dirty'] = 'updating'
                    getattr(table, 'update_object' + suffix)(o)
                    c11._STATE['dirty'] = False
                    ctx.count('mdibtable.update')
                elif op == 'remove' and members:
                    o = members.pop(rng.randrange(len(members)))
                    graveyard.append(o)
                    trace.append((op + suffix, c11_descr(o)))
                    getattr(table, 'remove_object' + suffix)(o)
                    ctx.count('mdibtable.remove')
                elif op in ('remove_unknown', 'remove_none'):
                    o = None if op == 'remove_none' else rng.choice(graveyard) if graveyard and rng.random() < 0.5 else new_obj(flavour)
                    trace.append((op + suffix, c11_descr(o)))
                    getattr(table, 'remove_object' + suffix)(o)
                    if table_snapshot(table) != before:
                        ctx.witness(f'{P}.remove_unknown_changes_table', 'removing an object that is not in the table changed it', {'trace': trace[-4:]})
                        ok = False
                elif op == 'remove_many' and members:
                    objs = []
                    for _ in range(rng.randrange(1, 4)):
                        if members:
                            o = members.pop(rng.randrange(len(members)))
                            graveyard.append(o)
                            objs.append(o)
                    if graveyard and rng.random() < 0.3:
                        objs.append(graveyard[0])
                    trace.append((op + suffix, [c11_descr(o) for o in objs]))
                    getattr(table, 'remove_objects' + suffix)(objs)
                elif op == 'clear' and rng.random() < 0.2:
                    trace.append((op,))
                    table.clear()
                    graveyard.extend(members)
                    members = []
                elif op == 'wrong_kind' and flavour == 'StatesLookup' and c_pool:
                    o = rng.choice(c_pool).mk_copy()
                    o.DescriptorHandle = rng.choice(keys)
                    reject = c11._unique_collision(table, members, o)
                    trace.append((op + suffix, c11_descr(o), 'expect-reject' if reject else 'expect-ok'))
                    try:
                        getattr(table, 'add_object' + suffix)(o)
                        outcome = 'accepted'
                    except ValueError:
                        outcome = 'rejected_kind'
                        ctx.count('mdibtable.multistate_rejected_by_states_table')
                    except KeyError:
                        outcome = 'rejected_key'
                    if outcome == 'accepted':
                        members.append(o)  # accepted: then it has to be indexed like everything else
                    if (outcome == 'accepted' and reject) or (outcome == 'rejected_key' and not reject):
                        ctx.witness(f'{P}.add.reject_mismatch', 'unique-key rule: insertion accepted/rejected contrary to the stored keys',
                                    {'trace': trace[-6:], 'expected_reject': reject})
                        ok = False
                    if outcome != 'accepted' and table_snapshot(table) != before:
                        ctx.witness('mdibtable.rejected_insert_changes_table.StatesLookup', 'a rejected insertion (multi state into the states '
                                    'table / existing unique key) does not leave the table as it was', {'trace': trace[-5:]})
                        ok = False
            except c11.InvariantBroken as ex:
                c11._STATE['dirty'] = False
                ctx.witness(f'{P}.lookup_ne_scan.{_last(trace)}', 'lookup != scan at a public method boundary (icontract invariant)',
                            {'problems': str(ex), 'trace': trace[-6:]})
                ok = False
                break
            except Exception as ex:  # noqa: BLE001
                c11._STATE['dirty'] = False
                ctx.witness(f'{P}.unexpected_exception.{type(ex).__name__}', 'table operation raised unexpectedly', {'ex': repr(ex), 'trace': trace[-6:]})
                ok = False
                break
            c11._STATE['dirty'] = False
            problems = index_vs_scan(table)
            if problems:
                ctx.witness(f'{P}.lookup_ne_scan.{_last(trace)}', 'lookup != scan after an operation', {'problems': problems[:4], 'trace': trace[-6:]})
                ok = False
                break
            if {id(o) for o in table.objects} != {id(o) for o in members}:
                ctx.witness(f'{P}.membership', 'set of stored objects differs from the reference membership', {'trace': trace[-6:]})
                ok = False
                break
            ctx.count('mdibtable.walks')
        ctx.case(('mdibtable', flavour, tuple(sorted({t[0] for t in trace}))))
        if seq == 0 and arg['i'] == 0:
            ctx.sample({'kind': 'operation sequence on a real MDIB table class', 'class': flavour, 'ops': trace[:10], 'ok': ok})
    detail = {'mdib_file': MDIB_FILES[arg['i'] % len(MDIB_FILES)]}
    try:
        _loaded_mdib_entry_points(ctx, rng, src, d_pool, s_pool, detail)
    except c11.InvariantBroken as ex:
        ctx.witness('mdibtable.loaded_mdib.lookup_ne_scan', 'lookup != scan at a public method boundary of a table of a loaded MDIB (icontract invariant)',
                    {**detail, 'problems': str(ex)[:600]})


def _loaded_mdib_entry_points(ctx, rng, mdib, d_pool, s_pool, detail):
    """MdibBase entry points with duplicates, the query catalogue and the clear methods on a loaded MDIB"""
    for round_no in range(3):
        before = snap3(mdib)
        some = rng.sample(d_pool, min(len(d_pool), 3))
        try:
            mdib.add_description_containers(some)  # the very same objects again
        except Exception as ex:  # noqa: BLE001
            detail['exception'] = repr(ex)
        ctx.count('mdibtable.add_containers_duplicate')
        if snap3(mdib) != before or not walk3(ctx, 'provider.after_add_description_containers_again', mdib, 'provider', detail):
            ctx.witness('mdibtable.add_containers_duplicate.descriptions', 'MdibBase.add_description_containers with descriptors that are already stored '
                        'changed the table', detail)
        dup = rng.choice(d_pool).mk_copy()  # another object with a stored handle: rejected by the unique index
        before = snap3(mdib)
        try:
            mdib.add_description_containers([dup])
            raised = False
        except KeyError:
            raised = True
        ctx.count('mdibtable.add_containers_duplicate')
        if not raised or snap3(mdib) != before:
            ctx.witness('mdibtable.add_containers_duplicate.descriptions', 'a descriptor with a stored handle was not rejected, or its rejection '
                        'changed the table', {**detail, 'raised': raised})
        walk3(ctx, 'provider.after_add_description_containers_duplicate', mdib, 'provider', detail)
        st = rng.choice(s_pool)
        dup_s = st.mk_copy()
        before = snap3(mdib)
        mdib.add_state_containers([st, dup_s])  # stored object again + another object with the stored unique key (logged, not raised)
        ctx.count('mdibtable.add_containers_duplicate')
        if snap3(mdib) != before:
            ctx.witness('mdibtable.add_containers_duplicate.states', 'MdibBase.add_state_containers with a state whose unique key is stored '
                        'changed the table', detail)
        walk3(ctx, 'provider.after_add_state_containers_duplicate', mdib, 'provider', detail)
    if not run_queries(ctx, mdib, 'provider', rng, detail, n_handles=6):
        return
    mdib.clear_states()
    walk3(ctx, 'provider.after_clear_states', mdib, 'provider', detail)
    mdib.descriptions.clear()
    walk3(ctx, 'provider.after_clear', mdib, 'provider', detail)


def _last(trace):
    return 'after_' + (trace[-1][0].replace('_no_lock', '') if trace else 'none')


def c11_descr(o):
    if o is None:
        return None
    return (f'{type(o).__name__}(Handle={getattr(o, "Handle", None)!r}, DescriptorHandle={getattr(o, "DescriptorHandle", None)!r}, '
            f'parent={getattr(o, "parent_handle", None)!r}, Source={getattr(o, "Source", None)!r}, CS={getattr(o, "ConditionSignaled", None)!r})')


# ------------------------------------------------------------------------------------------------------------------
# subscription table life cycle
# ------------------------------------------------------------------------------------------------------------------
SUB_FLAVOURS = {
    'path_sync': ('sdc11073.provider.subscriptionmgr', 'PathDispatchingSubscriptionsManager', False),
    'ref_sync': ('sdc11073.provider.subscriptionmgr', 'ReferenceParamSubscriptionsManager', False),
    'path_async': ('sdc11073.provider.subscriptionmgr_async', 'SubscriptionsManagerPathAsync', True),
    'ref_async': ('sdc11073.provider.subscriptionmgr_async', 'SubscriptionsManagerReferenceParamAsync', True),
}


def subs_lifecycle(ctx: core.Ctx, arg):
    import importlib

    import sdc11073.provider.subscriptionmgr_base as smb

    from .. import loopback, mdibops
    from ..mdibharness import MDIB_FILES, World
    from ..submodel import ParkingClock
    flavour = arg['flavour']
    mod, clsname, is_async = SUB_FLAVOURS[flavour]
    cls = getattr(importlib.import_module(mod), clsname)
    rng = ctx.rng('c11subs', flavour, arg['i'])
    vc = ParkingClock()
    smb.time = vc  # before the managers are constructed: their housekeeping threads park in vc.sleep()

    def hook(comps):
        comps.subscriptions_manager_class.update({'StateEvent': cls, 'Set': cls})

    world = World(MDIB_FILES[arg['i'] % len(MDIB_FILES)], async_mgr=is_async, role_provider=False, max_subscription_duration=30, components_hook=hook)
    handler = world.provider._periodic_reports_handler
    if type(handler).__name__ != 'PeriodicReportsNullHandler':
        handler.stop()
    mgrs = dict(world.provider._subscriptions_managers)
    if not vc.wait_parked(len(mgrs)):
        ctx.not_decided('c11 subscriptions: housekeeping threads did not park in the virtual clock')
        return
    shapes = []
    memo = {}

    def check(label):
        total = 0
        for name, mgr in mgrs.items():
            table = mgr._subscriptions
            with table.lock:
                problems = index_vs_scan(table)
                objs = list(table.objects)
                if not problems:
                    for s in objs:  # the public lookups the manager itself uses
                        key = smb._mk_dispatch_identifier(s.reference_parameters, s.path_suffix)
                        if table.dispatch_identifier.get_one(key, allow_none=True) is not s \
                                or table.identifier.get_one(s.identifier_uuid.hex, allow_none=True) is not s \
                                or not any(x is s for x in table.netloc.get(s.notify_to_url.netloc, [])):
                            problems.append(f'stored subscription {s.identifier_uuid.hex} is not found by dispatch identifier / identifier / netloc')
                    for index_name in ('dispatch_identifier', 'identifier', 'netloc'):
                        for k in list(getattr(table, index_name).keys()):
                            for s in getattr(table, index_name).get(k, []):
                                if not any(s is o for o in objs):
                                    problems.append(f'lookup {index_name}[{k!r}] returns a subscription that is not stored')
            total += len(objs)
            ctx.count('subs.walks')
            if problems:
                ctx.witness(f'subs.lookup_ne_scan.{flavour}.{label}', 'a lookup of the subscription table disagrees with a scan of the stored '
                            'subscriptions', {'flavour': flavour, 'manager': name, 'problems': problems[:3], 'steps': shapes[-8:]})
        shapes.append((label, total))
        return total

    def tick(seconds):
        if not vc.advance(seconds):
            vc.settle()
            ctx.count('subs.clock_advance_gave_up')

    def transaction():
        op = mdibops.gen_op(rng, world.mdib, memo, {'metric': 1, 'alert': 1})
        mdibops.apply_op(world.mdib, op, memo)

    try:
        check('after_start')
        consumers = [world.add_consumer(with_mdib=False)[0] for _ in range(rng.randrange(2, 4))]
        n0 = check('after_subscribe')
        ctx.count('subs.subscribed', n0)
        transaction()
        check('after_notification')
        for sub in list(consumers[0].subscription_mgr.subscriptions.values()):
            sub.renew(rng.choice([5, 20, 60]))
            check('after_renew')
            sub.get_status()
            check('after_get_status')
        victim = consumers[1]
        for sub in list(victim.subscription_mgr.subscriptions.values()):
            sub.unsubscribe()
        check('after_unsubscribe_request')
        tick(1.2)
        check('after_first_tick')
        tick(2.0)
        n1 = check('after_housekeeping_removal')
        ctx.count('subs.removed_by_housekeeping', max(0, n0 - n1))
        # a subscriber that cannot be reached any more
        late, _ = world.add_consumer(with_mdib=False)
        n2 = check('after_subscribe')
        dead = late.vf_server
        dead_netloc = f'127.0.0.1:{dead.port}'
        world.network.policy = lambda entry: loopback.Raise(ConnectionRefusedError('c11: gone')) if entry.netloc == dead_netloc else None
        for _ in range(3):
            transaction()
        check('after_failed_delivery')
        tick(2.0)
        n3 = check('after_delivery_failure_removal')
        ctx.count('subs.removed_after_delivery_failure', max(0, n2 - n3))
        world.network.policy = None
        # expiry (max duration 30 s): everything that was not renewed beyond goes
        tick(35.0)
        n4 = check('after_expiry')
        ctx.count('subs.removed_by_expiry', max(0, n3 - n4))
        world.add_consumer(with_mdib=False)
        check('after_subscribe')
        ctx.case(('subs', flavour, tuple(s[0] for s in shapes)), n=len(shapes))
        if arg['i'] == 0:
            ctx.sample({'kind': 'subscription table life cycle', 'flavour': flavour, 'steps (label, stored subscriptions)': shapes})
    finally:
        world.network.policy = None
        vc.release()
        world.stop()
    n5 = check('after_stop_all')
    if n5:
        ctx.count('subs.entries_left_after_stop_all', n5)
