"""C11 part 2: MDIB-level workload - transactions and incoming reports that change indexed attributes (parent, ConditionSignaled,
Source list, handle re-creation) on provider and consumer, and the subscription table; index-vs-scan walker at every quiescent point."""
from __future__ import annotations

from .. import core, mdibops
from ..mdibharness import MDIB_FILES, World
from ..tablewalk import index_vs_scan


def jobs(ctx):
    return [['mdib_walk', {'i': k, 'n': 2 if ctx.quick else 20, 'len': 40 if ctx.quick else 150}] for k in range(4 if ctx.quick else 16)]


def _walk(ctx, label, tables, detail):
    for name, table in tables:
        with table.lock:
            problems = index_vs_scan(table)
        ctx.count('mdib.walks')
        if problems:
            ctx.witness(f'mdib.lookup_ne_scan.{label}.{name.split(".")[-1]}', f'{name}: a lookup disagrees with a scan of the stored objects',
                        {**detail, 'problems': problems[:3]})


def mdib_walk(ctx: core.Ctx, arg):
    rng = ctx.rng('c11mdib', arg['i'])
    weights = {'descr_update': 8, 'descr_create': 4, 'descr_delete': 3, 'descr_recreate': 3, 'descr_parent_child': 3, 'alert': 2, 'metric': 2,
               'context': 3, 'location': 1, 'descr_with_state': 2}
    for hno in range(arg['n']):
        mdib_file = MDIB_FILES[(arg['i'] + hno) % len(MDIB_FILES)]
        world = World(mdib_file, role_provider=False, async_mgr=hno % 2 == 1)
        consumer, cm = world.add_consumer()
        mdib = world.mdib
        memo = {}
        shapes = []
        for step in range(arg['len']):
            op = mdibops.gen_op(rng, mdib, memo, weights)
            ap = mdibops.apply_op(mdib, op, memo)
            shapes.append((op['op'], op.get('sub'), op.get('iface'), ap.outcome))
            detail = {'mdib_file': mdib_file, 'step': step, 'op': op, 'outcome': ap.outcome}
            opk = op['op']
            _walk(ctx, f'provider.after_{opk}', [('provider.descriptions', mdib.descriptions), ('provider.states', mdib.states),
                                                  ('provider.context_states', mdib.context_states)], detail)
            _walk(ctx, f'consumer.after_{opk}', [('consumer.descriptions', cm.descriptions), ('consumer.states', cm.states),
                                                  ('consumer.context_states', cm.context_states)], detail)
            if step % 10 == 5:
                # subscription table: a second consumer subscribes / unsubscribes
                c2, _ = world.add_consumer(with_mdib=False)
                mgrs = list(world.provider._subscriptions_managers.values())
                _walk(ctx, 'subscriptions.after_subscribe', [(f'subscriptions.{type(m).__name__}', m._subscriptions) for m in mgrs], detail)
                c2.stop_all(unsubscribe=True)
                _walk(ctx, 'subscriptions.after_unsubscribe', [(f'subscriptions.{type(m).__name__}', m._subscriptions) for m in mgrs], detail)
            # the lookups must answer like a scan for the indexed attributes touched
            for d in list(mdib.descriptions.objects)[:50]:
                cs = getattr(d, 'ConditionSignaled', None)
                if cs is not None:
                    got = {id(x) for x in mdib.descriptions.condition_signaled.get(cs, [])}
                    want = {id(x) for x in mdib.descriptions.objects if getattr(x, 'ConditionSignaled', None) == cs}
                    ctx.count('mdib.condition_signaled_queries')
                    if got != want:
                        ctx.witness('mdib.condition_signaled_lookup', 'descriptions.condition_signaled lookup differs from a scan', detail)
        _foreign_grouping(ctx, rng, world, cm, mdib_file)
        ctx.case(tuple(shapes))
        world.stop()
    ctx.count('mdib.histories', arg['n'])


def _foreign_grouping(ctx, rng, world, cm, mdib_file):
    """A DescriptionModificationReport as ANOTHER BICEPS provider may group it: ONE report part carries several descriptors with the same parent
    (the library's own provider sends one descriptor per part).  Built with the library's message types, written to XML, read back and handed
    to the consumer MDIB; indexed attributes (Source, ConditionSignaled) of several descriptors of one part change."""
    from sdc11073.mdib.mdibbase import MdibVersionGroup
    mdib = world.mdib
    defs = mdib.sdc_definitions
    msg_types, nsh = defs.data_model.msg_types, defs.data_model.ns_helper
    by_parent = {}
    for d in mdib.descriptions.objects:
        if d.NODETYPE.localname in ('AlertConditionDescriptor', 'LimitAlertConditionDescriptor', 'AlertSignalDescriptor'):
            by_parent.setdefault(d.parent_handle, []).append(d)
    groups = [(p, ds) for p, ds in sorted(by_parent.items()) if len(ds) >= 2]
    if not groups:
        ctx.count('mdib.foreign_grouping.no_siblings')
        return
    metrics = sorted(d.Handle for d in mdib.descriptions.objects if 'Metric' in d.NODETYPE.localname)
    conditions = sorted(d.Handle for d in mdib.descriptions.objects if 'AlertCondition' in d.NODETYPE.localname)
    for round_no in range(3):
        parent, ds = rng.choice(groups)
        chosen = rng.sample(sorted(ds, key=lambda d: d.Handle), min(len(ds), rng.randrange(2, 5)))
        report = msg_types.DescriptionModificationReport()
        part = report.add_report_part()
        part.ModificationType = msg_types.DescriptionModificationType.UPDATE
        part.ParentDescriptor = parent
        for d in chosen:
            cur = cm.descriptions.handle.get_one(d.Handle, allow_none=True)
            if cur is None:
                continue
            c = cur.mk_copy()
            c.DescriptorVersion += 1
            if hasattr(c, 'Source') and metrics:
                c.Source = rng.sample(metrics, min(len(metrics), rng.randrange(0, 3)))
            if hasattr(c, 'ConditionSignaled') and conditions:
                c.ConditionSignaled = rng.choice(conditions + [None])
            part.Descriptor.append(c)
            st = cm.states.descriptor_handle.get_one(d.Handle, allow_none=True)
            if st is not None:
                st = st.mk_copy()
                st.DescriptorVersion = c.DescriptorVersion
                st.StateVersion += 1
                part.State.append(st)
        if len(part.Descriptor) < 2:
            continue
        vg = MdibVersionGroup(cm.mdib_version + 1, cm.sequence_id, cm.instance_id)
        report.set_mdib_version_group(vg)
        node = report.as_etree_node(report.NODETYPE, nsh.partial_map(nsh.MSG, nsh.PM, nsh.XSI))
        received = msg_types.DescriptionModificationReport.from_node(node)
        try:
            cm.process_incoming_description_modifications(vg, received)
        except Exception as ex:  # noqa: BLE001
            ctx.count(f'mdib.foreign_grouping.raised.{type(ex).__name__}')
            continue
        ctx.count('mdib.foreign_grouping.reports')
        ctx.count('mdib.foreign_grouping.descriptors_in_one_part', len(part.Descriptor))
        _walk(ctx, 'consumer.after_foreign_grouped_update', [('consumer.descriptions', cm.descriptions), ('consumer.states', cm.states)],
              {'mdib_file': mdib_file, 'parent': parent, 'descriptors': [d.Handle for d in part.Descriptor]})
