"""C11 part 2: MDIB-level workload - transactions and incoming reports that change indexed attributes (parent, ConditionSignaled,
Source list, handle re-creation) on provider and consumer, and the subscription table; index-vs-scan walker at every quiescent point."""
from __future__ import annotations

from .. import core, mdibops
from ..mdibharness import MDIB_FILES, World
from ..tablewalk import index_vs_scan
from . import c11_api


def jobs(ctx):
    q = ctx.quick
    out = [['mdib_walk', {'i': k, 'n': 2 if q else 10, 'len': 40 if q else 150}] for k in range(4 if q else 16)]
    out += [['mdib_consumer_reports', {'i': k, 'n': 1 if q else 6, 'rounds': 2 if q else 4}] for k in range(4 if q else 12)]
    out += [['mdib_tables', {'i': k, 'n': 150 if q else 4000, 'len': 40}] for k in range(2 if q else 8)]
    out += [['mdib_subs_lifecycle', {'i': k, 'flavour': f}] for f in sorted(c11_api.SUB_FLAVOURS) for k in range(1 if q else 4)]
    return out


def mdib_consumer_reports(ctx, arg):
    return c11_api.consumer_reports(ctx, arg)


def mdib_tables(ctx, arg):
    return c11_api.mdib_tables(ctx, arg)


def mdib_subs_lifecycle(ctx, arg):
    return c11_api.subs_lifecycle(ctx, arg)


def _walk(ctx, label, tables, detail):
    for name, table in tables:
        with table.lock:
            problems = index_vs_scan(table)
        ctx.count('mdib.walks')
        if problems:
            ctx.witness(f'mdib.lookup_ne_scan.{label}.{name.split(".")[-1]}', f'{name}: a lookup disagrees with a scan of the stored objects',
                        {**detail, 'problems': problems[:3]})


WEIGHTS = {'descr_update': 8, 'descr_create': 4, 'descr_delete': 3, 'descr_recreate': 3, 'descr_parent_child': 3, 'alert': 2, 'metric': 2,
           'context': 3, 'location': 1, 'descr_with_state': 2,
           # round 4: every other kind of the shared generator (rejected / aborted transactions, several descriptors in one transaction, entity
           # interface, removal of context states - which no report can tell the consumer, its tables still have to be consistent in themselves)
           'component': 1, 'operational': 1, 'rt': 1, 'descr_multi': 3, 'entity_stash': 1, 'entity_write_stashed': 1, 'empty': 1, 'abort': 2,
           'unget': 1, 'reject': 3, 'descr_ctx_entity': 2, 'ctx_delete': 2}
# own operations at fixed steps of every history (they also guarantee the reach floors), the rest is drawn
DIRECTED = {3: 'reuse_ctx_state', 5: 'reject:ctx_handle_in_use', 6: 'alert_create', 8: 'reject:existing_descriptor', 9: 'reuse_single_state', 12: 'reuse_descriptor', 15: 'alert_create', 17: 'alert_update_inplace',
            19: 'alert_delete', 22: 'reuse_entity', 25: 'reuse_ctx_state', 28: 'alert_create', 31: 'reuse_descriptor'}
UNIQUE_KEY_REJECTS = ('existing_descriptor', 'ctx_handle_in_use')


def mdib_walk(ctx: core.Ctx, arg):
    rng = ctx.rng('c11mdib', arg['i'])
    c11_api.template_reuse_directed(ctx, ctx.rng('c11reuse', arg['i']), MDIB_FILES[arg['i'] % len(MDIB_FILES)])
    for hno in range(arg['n']):
        mdib_file = MDIB_FILES[(arg['i'] + hno) % len(MDIB_FILES)]
        world = World(mdib_file, role_provider=False, async_mgr=hno % 2 == 1)
        consumer, cm = world.add_consumer()
        mdib = world.mdib
        rec = c11_api.install_recorder(mdib)
        memo = {}
        own_memo = {}
        shapes = []
        n_steps = arg['len']
        directed = dict(DIRECTED)
        directed[n_steps - 4] = 'subtree_delete_alertsystem'
        directed[n_steps - 2] = 'subtree_delete_vmd'
        w0 = sum(ctx.witness_counts.values())
        for step in range(n_steps):
            if sum(ctx.witness_counts.values()) != w0:
                # the tables of this history are broken: everything later would only repeat the finding under other keys
                ctx.count('mdib.histories_stopped_at_first_witness')
                break
            own = directed.get(step) or (rng.choice(c11_api.OWN_OPS[:7]) if step > 32 and rng.random() < 0.15 else None)
            before = c11_api.snap3(mdib)
            forced = None
            if own is not None and own.startswith('reject:'):
                cat = mdibops.catalog(mdib)
                forced = {'op': 'reject', 'sub': own.split(':')[1], 'metric': rng.choice(cat['metric']) if cat['metric'] else None,
                          'alert': rng.choice(cat['alert']) if cat['alert'] else None, 'context': rng.choice(cat['context']) if cat['context'] else None,
                          'seed': rng.randrange(1 << 30), 'iface': 'classic'}
                own = None
            if own is not None:
                opk = own
                detail = {'mdib_file': mdib_file, 'step': step, 'op': {'op': own}}

                def inner_walk(label, detail=detail):
                    c11_api.walk3(ctx, f'provider.after_{label}', mdib, 'provider', detail)
                    c11_api.walk3(ctx, f'consumer.after_{label}', cm, 'consumer', detail)
                try:
                    outcome = c11_api.own_op(ctx, mdib, own, rng, own_memo, inner_walk)
                except Exception as ex:  # noqa: BLE001
                    outcome = f'raised:{type(ex).__name__}'
                    detail['exception'] = repr(ex)[:300]
                    ctx.count(f'mdib.own_op_raised.{own}.{type(ex).__name__}')
                detail['outcome'] = outcome
                shapes.append((own, outcome))
                label = 'template_reuse' if own.startswith('reuse_') else own
            else:
                op = forced or mdibops.gen_op(rng, mdib, memo, WEIGHTS)
                ap = mdibops.apply_op(mdib, op, memo)
                shapes.append((op['op'], op.get('sub'), op.get('iface'), ap.outcome))
                detail = {'mdib_file': mdib_file, 'step': step, 'op': op, 'outcome': ap.outcome}
                label = opk = op['op']
                if op['op'] == 'reject' and op.get('sub') in UNIQUE_KEY_REJECTS and ap.outcome.startswith('raised') \
                        and ap.outcome != 'raised:BodyAbort':
                    ctx.count('mdib.rejected_unique_key_ops')
                    if c11_api.snap3(mdib) != before:
                        ctx.witness('mdib.rejected_op_changes_table.provider', 'a transaction rejected because the unique key (handle) already exists '
                                    'does not leave the tables exactly as they were', detail)
                if ap.outcome.startswith('raised'):
                    ctx.count('mdib.ops_raised')
            _walk(ctx, f'provider.after_{label}', [('provider.descriptions', mdib.descriptions), ('provider.states', mdib.states),
                                                    ('provider.context_states', mdib.context_states)], detail)
            _walk(ctx, f'consumer.after_{label}', [('consumer.descriptions', cm.descriptions), ('consumer.states', cm.states),
                                                    ('consumer.context_states', cm.context_states)], detail)
            # the objects that the transaction API handed out / took belong to the application
            c11_api.mutate_handouts(ctx, mdib, rec, detail, step)
            if step % 10 == 5:
                # subscription table: a second consumer subscribes / unsubscribes
                c2, _ = world.add_consumer(with_mdib=False)
                mgrs = list(world.provider._subscriptions_managers.values())
                _walk(ctx, 'subscriptions.after_subscribe', [(f'subscriptions.{type(m).__name__}', m._subscriptions) for m in mgrs], detail)
                c2.subscription_mgr.unsubscribe_all()
                c11_api.stop_in_background(lambda c2=c2: c2.stop_all(unsubscribe=False))
                _walk(ctx, 'subscriptions.after_unsubscribe', [(f'subscriptions.{type(m).__name__}', m._subscriptions) for m in mgrs], detail)
            # the lookups must answer like a scan for the indexed attributes touched
            for d in list(mdib.descriptions.objects)[:50]:
                cs = getattr(d, 'ConditionSignaled', None)
                if cs is not None:
                    got = {id(x) for x in mdib.descriptions.condition_signaled.get(cs, [])}
                    want = {id(x) for x in mdib.descriptions.objects if getattr(x, 'ConditionSignaled', None) == cs}
                    ctx.count('mdib.condition_signaled_queries')
                    if got != want:
                        ctx.witness('mdib.condition_signaled_lookup', 'descriptions.condition_signaled lookup differs from a scan', detail)
            # the public read-only API: pure, and answering like a scan
            if step % 8 == 4 or step in (n_steps - 4, n_steps - 2, n_steps - 1):
                qdetail = {'mdib_file': mdib_file, 'step': step, 'after_op': opk}
                c11_api.run_queries(ctx, mdib, 'provider', rng, qdetail, n_handles=3 if ctx.quick else 5)
                c11_api.run_queries(ctx, cm, 'consumer', rng, qdetail, n_handles=3 if ctx.quick else 5)
                _walk(ctx, 'provider.after_queries', [('provider.descriptions', mdib.descriptions), ('provider.states', mdib.states),
                                                      ('provider.context_states', mdib.context_states)], qdetail)
                _walk(ctx, 'consumer.after_queries', [('consumer.descriptions', cm.descriptions), ('consumer.states', cm.states),
                                                      ('consumer.context_states', cm.context_states)], qdetail)
            if step % 16 == 12 or step == n_steps - 1:
                c11_api.run_wire_queries(ctx, world, consumer, rng, {'mdib_file': mdib_file, 'step': step, 'after_op': opk})
        if sum(ctx.witness_counts.values()) == w0:
            _foreign_grouping(ctx, rng, world, cm, mdib_file)
        ctx.case(tuple(shapes))
        c11_api.stop_in_background(world.stop)
    ctx.count('mdib.histories', arg['n'])


def _foreign_grouping(ctx, rng, world, cm, mdib_file):
    """A DescriptionModificationReport as ANOTHER BICEPS provider may group it: ONE report part carries several descriptors with the same parent
    (the library's own provider sends one descriptor per part).  Built with the library's message types, written to XML, read back and handed
    to the consumer MDIB; indexed attributes (Source, ConditionSignaled) of several descriptors of one part change."""
    from sdc11073.mdib.mdibbase import MdibVersionGroup
    mdib = world.mdib
    defs = mdib.sdc_definitions
    msg_types, nsh = defs.data_model.msg_types, defs.data_model.ns_helper
    by_parent = {}
    for d in mdib.descriptions.objects:
        if d.NODETYPE.localname in ('AlertConditionDescriptor', 'LimitAlertConditionDescriptor', 'AlertSignalDescriptor'):
            by_parent.setdefault(d.parent_handle, []).append(d)
    groups = [(p, ds) for p, ds in sorted(by_parent.items()) if len(ds) >= 2]
    if not groups:
        ctx.count('mdib.foreign_grouping.no_siblings')
        return
    metrics = sorted(d.Handle for d in mdib.descriptions.objects if 'Metric' in d.NODETYPE.localname)
    conditions = sorted(d.Handle for d in mdib.descriptions.objects if 'AlertCondition' in d.NODETYPE.localname)
    for round_no in range(3):
        parent, ds = rng.choice(groups)
        chosen = rng.sample(sorted(ds, key=lambda d: d.Handle), min(len(ds), rng.randrange(2, 5)))
        report = msg_types.DescriptionModificationReport()
        part = report.add_report_part()
        part.ModificationType = msg_types.DescriptionModificationType.UPDATE
        part.ParentDescriptor = parent
        for d in chosen:
            cur = cm.descriptions.handle.get_one(d.Handle, allow_none=True)
            if cur is None:
                continue
            c = cur.mk_copy()
            c.DescriptorVersion += 1
            if hasattr(c, 'Source') and metrics:
                c.Source = rng.sample(metrics, min(len(metrics), rng.randrange(0, 3)))
            if hasattr(c, 'ConditionSignaled') and conditions:
                c.ConditionSignaled = rng.choice(conditions + [None])
            part.Descriptor.append(c)
            st = cm.states.descriptor_handle.get_one(d.Handle, allow_none=True)
            if st is not None:
                st = st.mk_copy()
                st.DescriptorVersion = c.DescriptorVersion
                st.StateVersion += 1
                part.State.append(st)
        if len(part.Descriptor) < 2:
            continue
        vg = MdibVersionGroup(cm.mdib_version + 1, cm.sequence_id, cm.instance_id)
        report.set_mdib_version_group(vg)
        node = report.as_etree_node(report.NODETYPE, nsh.partial_map(nsh.MSG, nsh.PM, nsh.XSI))
        received = msg_types.DescriptionModificationReport.from_node(node)
        try:
            cm.process_incoming_description_modifications(vg, received)
        except Exception as ex:  # noqa: BLE001
            ctx.count(f'mdib.foreign_grouping.raised.{type(ex).__name__}')
            continue
        ctx.count('mdib.foreign_grouping.reports')
        ctx.count('mdib.foreign_grouping.descriptors_in_one_part', len(part.Descriptor))
        _walk(ctx, 'consumer.after_foreign_grouped_update', [('consumer.descriptions', cm.descriptions), ('consumer.states', cm.states)],
              {'mdib_file': mdib_file, 'parent': parent, 'descriptors': [d.Handle for d in part.Descriptor]})
