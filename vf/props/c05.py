"""C05 - BICEPS / WS-* data types round-trip losslessly through schema-valid XML.

For every class built from property descriptors (found by reflection over the nine type modules) the structural
generator ``vf.xmlgen`` produces values from the schema value space; each value v is

  written with the class' real writer (as_etree_node / mk_state_node / mk_node), serialised, parsed again,
  validated by the independent XSD oracle (``vf.xsdoracle``: states inside msg:GetMdStateResponse, descriptors inside a
  msg:DescriptionModificationReport part with xsi:type, messages as their global element, data types against a probe element
  of their named type), read back with the class' real ``from_node`` -> v2, written again.

Oracles:  canon(v) == canon(v2)  (``vf.canon``; additionally the library's own ``==`` where it is defined),
          C14N(xml(v)) == C14N(xml(v2)),  schema validity,  and for XML in which optional parts are absent:
          every absent member reads as what the schema documentation declares as implied value (differential: the same
          XML with the implied literal written explicitly must read equal), else as None / empty / the constructor's
          default - and never as an object that is shared with another instance: every mutable part of the value that was read
          (any depth, ``vf.c05_alias``) is compared by identity with a second parse, a constructed instance and all class-level
          default objects, and one value is edited in place while the other one, later parses / instances and their XML are watched.

Namespace configurations (``w_nsconfig``, class ``NsCfg``): the same round trip with NamespaceHelpers that use other prefixes and / or a
default namespace, composed into documents the three ways the library does it, and ``as_etree_node`` with the prefix maps the library
uses elsewhere ({} / one namespace); xsi:type values must be resolvable by a peer (keys ``ns.<family>[.<composition>].…``).
The validator the library builds for itself (``schema_resolver.mk_schema_validator``) must agree with the independent oracle.
"""
from __future__ import annotations

import re
import traceback

from lxml import etree

from .. import c05_alias as alias
from .. import core
from .. import xmlgen as xg
from .. import xsdoracle as xo
from ..canon import c14n, canon, canon_diff

MODULE = 'vf.props.c05'
XSI_TYPE = '{%s}type' % xo.XSI

# XSD documents an implied value that the library deliberately does not model as a member value (recorded as assumption)
IMPLIED_NOT_MODELLED = {('CodedValue', 'CodingSystem'), ('Translation', 'CodingSystem')}


# =============================================================================================
# writing / reading one value with the real code
# =============================================================================================
class NsCfg:
    """One way of handing namespaces to the writers (everything but the default configuration of the main loop).

    containers (``mk_node`` / ``mk_state_node`` / ``update_node`` take the NamespaceHelper of the caller):
        helper   'default' | 'other_prefixes' | 'default_ns' (participant model is the default namespace) | both
        comp     how the node gets into its document:
                 'parent'       mk_node(tag, helper, parent_node) - what ContainerListProperty does; the wrapper declares the three
                                namespaces with prefixes of its own (w0, w1, w2), so the node has to declare what it uses itself
                 'update_node'  SubElement(parent, tag, nsmap=helper.partial_map(PM, XSI)) + update_node(node, helper) - what
                                mdibbase.make_descriptor_node does; same wrapper
                 'append'       parent.append(mk_state_node(tag, helper)) into a parent created with nsmap=helper.ns_map - what
                                mdibbase._reconstruct_mdib does
    data types / messages (``as_etree_node(tag, ns_map)`` takes a prefix map):
        'empty_map' {} (the library: RetrievabilityInfo, header block), 'own_ns_map' only the namespace of the element itself
        (the library: partial_map(WSD) for wsd:AppSequence), 'other_prefixes', 'default_ns' (namespace of the element is default)
    """

    def __init__(self, name, family, helper=None, comp=None):
        self.name, self.family, self.helper_name, self.comp = name, family, helper, comp
        self.kp = f'ns.{family}.' + (f'{comp}.' if comp else '')

    def __repr__(self):
        return self.name


_HELPERS = {}


def ns_helpers() -> dict:
    """the NamespaceHelper variants (built with the library's own constructor)"""
    if not _HELPERS:
        from enum import Enum

        from sdc11073.namespaces import NamespaceHelper, PrefixesEnum, PrefixNamespace, default_ns_helper
        renamed = {'PM': 'pm', 'MSG': 'mm', 'EXT': 'e', 'XSI': 'i', 'WSA': 'a', 'WSE': 'ev', 'WSD': 'd', 'DPWS': 'dp', 'WSX': 'mex'}
        other = Enum('OtherPrefixes', {m.name: PrefixNamespace(renamed.get(m.name, m.prefix), m.namespace, m.schema_location_url,
                                                               m.local_schema_file) for m in PrefixesEnum}, type=PrefixNamespace)
        pm_ns = PrefixesEnum.PM.namespace
        _HELPERS.update({'default': default_ns_helper, 'other_prefixes': NamespaceHelper(other),
                         'default_ns': NamespaceHelper(PrefixesEnum, default_ns=pm_ns),
                         'other_prefixes_default_ns': NamespaceHelper(other, default_ns=pm_ns),
                         '_enums': (PrefixesEnum, other), '_cls': NamespaceHelper})
    return _HELPERS


def container_cfgs() -> list[NsCfg]:
    out = []
    for helper, family in (('default', 'default'), ('other_prefixes', 'other_prefixes'), ('default_ns', 'default_ns'),
                           ('other_prefixes_default_ns', 'default_ns')):
        for comp in ('parent', 'update_node', 'append'):
            if helper == 'default' and comp == 'append':
                continue        # the main loop
            out.append(NsCfg(f'{helper}/{comp}', family, helper, comp))
    return out


def type_cfgs() -> list[NsCfg]:
    return [NsCfg('empty_map', 'partial_map'), NsCfg('own_ns_map', 'partial_map'), NsCfg('other_prefixes', 'other_prefixes'),
            NsCfg('default_ns', 'default_ns'), NsCfg('other_prefixes_default_ns', 'default_ns')]


_ALL_NS = ('PM', 'MSG', 'EXT', 'XSI', 'WSA', 'WSE', 'WSD', 'DPWS', 'WSX')


class Codec:
    """How one class is written to / read from XML with the library's own entry points."""

    def __init__(self, info: xg.ClassInfo, oracle: xo.Oracle, cfg: NsCfg | None = None):
        from sdc11073.namespaces import default_ns_helper as nsh
        self.info = info
        self.cls = info.cls
        self.oracle = oracle
        self.nsh = nsh
        self.cfg = cfg
        self.ctx, self.home = xg.schema_home(oracle.index, info)
        self.nsmap = nsh.partial_map(nsh.PM, nsh.MSG, nsh.EXT, nsh.XSI, nsh.WSA, nsh.WSE, nsh.WSD, nsh.DPWS, nsh.WSX)
        self.schema_mode = self._schema_mode()

    def _schema_mode(self) -> str:
        i = self.info
        if i.key == 'addressing_types.HeaderInformationBlock':
            return 'header'     # its members are the wsa:* children of s12:Header (validated there, lax)
        if self.ctx is None:
            return 'none:no schema type known for this class (validated as member of its host classes)'
        if i.kind in ('state', 'descriptor'):
            if getattr(self.cls, 'NODETYPE', None) is None:
                return 'none:abstract base container (no NODETYPE)'
            if self.ctx.abstract:
                return 'none:type is abstract in the schema'
            return i.kind
        if self.home[0] == 'child':
            return 'none:anonymous type of a child element (validated as member of its host classes)'
        if self.ctx.abstract:
            return 'none:type is abstract in the schema'
        if self.home[0] == 'element':
            return 'element'
        return 'probe'

    # ---- write -----------------------------------------------------------------------------------------
    def root_tag(self):
        if self.schema_mode == 'probe':
            return etree.QName(self.oracle.probes[self.home[1]])
        if self.schema_mode == 'element':
            return etree.QName(self.home[1])
        node_type = getattr(self.cls, 'NODETYPE', None)
        if self.info.kind == 'message':
            return node_type
        return etree.QName(xo.NS['pm'], 'Probe')

    # ---- non-default namespace configurations ------------------------------------------------------------
    def cfg_applicable(self) -> str | None:
        """None, or why this configuration cannot be used for this class"""
        cfg = self.cfg
        if cfg is None or self.info.kind in ('state', 'descriptor'):
            return None
        if cfg.name.endswith('default_ns') and self.root_tag().namespace is None:
            return 'root element is an unqualified probe element: it cannot live under a default namespace'
        if cfg.name == 'empty_map' and self.root_tag().namespace is None:
            # in a real document the element of a pm: / wsa: ... type is itself in that namespace, so the namespace is always
            # declared where the members are written (lxml generates a prefix); the unqualified probe root would hide that
            return 'root element is an unqualified probe element: with {} the namespace of the type itself would be undeclared'
        return None

    def default_namespace(self) -> str | None:
        """the namespace that is the default namespace in the written XML under this configuration"""
        cfg = self.cfg
        if cfg is None:
            return None
        if self.info.kind in ('state', 'descriptor'):
            return xo.NS['pm'] if cfg.helper_name.endswith('default_ns') else None
        return self.root_tag().namespace if cfg.name.endswith('default_ns') else None

    def _type_ns_map(self) -> dict:
        cfg, hs = self.cfg, ns_helpers()
        root_ns = self.root_tag().namespace
        if root_ns is None and self.home is not None and self.home[0] in ('type', 'element'):
            root_ns = xo.split_clark(self.home[1])[0]
        if cfg.name == 'empty_map':
            return {}
        if cfg.name == 'own_ns_map':
            own = [p for p in hs['_enums'][0] if p.namespace == root_ns]
            return self.nsh.partial_map(*own[:1])
        enum_cls = hs['_enums'][1 if cfg.name.startswith('other_prefixes') else 0]
        helper = hs['_cls'](enum_cls, default_ns=root_ns if cfg.name.endswith('default_ns') else None)
        return helper.partial_map(*[getattr(helper, n) for n in _ALL_NS])

    def _write_container_cfg(self, obj):
        from sdc11073.xml_types import msg_qnames, pm_qnames
        cfg = self.cfg
        helper = ns_helpers()[cfg.helper_name]
        state = self.info.kind == 'state'
        has_type = getattr(self.cls, 'NODETYPE', None) is not None
        nsmap = dict(helper.ns_map) if cfg.comp == 'append' else {'w0': xo.NS['msg'], 'w1': xo.NS['pm'], 'w2': xo.XSI}
        root = etree.Element(msg_qnames.GetMdStateResponse if state else msg_qnames.DescriptionModificationReport, nsmap=nsmap)
        root.set('MdibVersion', '1')
        root.set('SequenceId', 'urn:uuid:0b1b8a5c-2b0e-4c4e-9d7e-000000000001')
        parent = etree.SubElement(root, msg_qnames.MdState if state else msg_qnames.ReportPart)
        tag = pm_qnames.State if state else msg_qnames.Descriptor
        if cfg.comp == 'parent':
            node = obj.mk_node(tag, helper, parent, set_xsi_type=has_type)
        elif cfg.comp == 'update_node':
            node = etree.SubElement(parent, tag, nsmap=helper.partial_map(helper.PM, helper.XSI))
            obj.update_node(node, helper, has_type)
        else:
            node = obj.mk_state_node(tag, helper, set_xsi_type=has_type) if state else obj.mk_node(tag, helper, set_xsi_type=has_type)
            parent.append(node)
        return root, node

    def write(self, obj):
        """-> (document root to validate / None, node of the object itself)"""
        from sdc11073.xml_types import msg_qnames, pm_qnames
        kind = self.info.kind
        if self.cfg is not None:
            if kind in ('state', 'descriptor'):
                return self._write_container_cfg(obj)
            node = obj.as_etree_node(self.root_tag(), self._type_ns_map())
            if node is None:
                return None, None
            if self.info.key == 'mex_types.Metadata':
                body = etree.Element(etree.QName(xo.NS['s12'], 'Body'), nsmap={'s12': xo.NS['s12']})
                body.append(node)
                return body, node
            return node, node
        if kind == 'state':
            has_type = getattr(self.cls, 'NODETYPE', None) is not None
            node = obj.mk_state_node(pm_qnames.State, self.nsh, set_xsi_type=has_type)
            return self.oracle.wrap_state(node), node
        if kind == 'descriptor':
            has_type = getattr(self.cls, 'NODETYPE', None) is not None
            node = obj.mk_node(msg_qnames.Descriptor, self.nsh, set_xsi_type=has_type)
            return self.oracle.wrap_descriptor(node), node
        node = obj.as_etree_node(self.root_tag(), dict(self.nsmap))
        if node is None:
            return None, None
        if self.info.key == 'mex_types.Metadata':
            body = etree.Element(etree.QName(xo.NS['s12'], 'Body'), nsmap={'s12': xo.NS['s12']})
            body.append(node)
            return body, node
        return node, node

    def locate(self, doc):
        """the node of the object inside the re-parsed document"""
        kind = self.info.kind
        if kind in ('state', 'descriptor'):
            return doc[0][0]
        return doc

    def read(self, node, obj=None):
        kind = self.info.kind
        if kind == 'descriptor':
            return self.cls.from_node(node, getattr(obj, 'parent_handle', None))
        return self.cls.from_node(node)

    def validate(self, doc, node_in_doc) -> list[str]:
        mode = self.schema_mode
        if mode.startswith('none'):
            return []
        if mode == 'header':
            env = etree.Element(etree.QName(xo.NS['s12'], 'Envelope'), nsmap={'s12': xo.NS['s12'], 'wsa': xo.NS['wsa']})
            header = etree.SubElement(env, etree.QName(xo.NS['s12'], 'Header'))
            for child in self.oracle.reparse(doc):
                header.append(child)
            etree.SubElement(env, etree.QName(xo.NS['s12'], 'Body'))
            return self.oracle.validate(env)
        if self.info.key == 'mex_types.Metadata':
            return self.oracle.validate(node_in_doc, reparse=True)
        return self.oracle.validate(doc, reparse=False)


def _clock_blind(text: str) -> str:
    return re.sub(r' DateAndTime="[0-9]+"', '', text)


def _member_of_error(text: str):
    """XMLTypeBase.update_node wraps errors as 'In <Class>.<member>, ...' at every nesting level: the innermost one is the cause"""
    found = re.findall(r'In (\w+)\.(\w+),', text)
    return found[-1] if found else None


def _standalone_clean(child, nsh, nsmap) -> bool:
    """does this sub-object survive write -> read on its own?"""
    try:
        tag = etree.QName(xo.NS['pm'], 'Standalone')
        if hasattr(child, 'as_etree_node'):
            node = child.as_etree_node(tag, dict(nsmap))
            back = type(child).from_node(etree.fromstring(etree.tostring(node)))
        else:
            node = child.mk_node(tag, nsh)
            node = etree.fromstring(etree.tostring(node))
            if getattr(child, 'is_descriptor_container', False):
                back = type(child).from_node(node, child.parent_handle)
            else:
                back = type(child).from_node(node)
        return canon(child) == canon(back)
    except Exception:  # noqa: BLE001
        return False


def blame(root, path: str, nsh, nsmap) -> str:
    """'<DeclaringClass>.<member>' that is responsible for a canon difference at ``path``.

    Walk down from the root; the first sub-object on the path that round-trips cleanly *on its own* is innocent, so the
    member of its owner that holds it is to blame (e.g. ClinicalInfo.Code, which is read from the wrong element);
    otherwise descend.  A defect of an inner type is therefore reported under the inner type, whatever the host."""
    tokens = re.findall(r'[^.\[\]#]+|\[\d+\]', path.split('#')[0])
    owner = root
    i = 0
    last = (type(root), tokens[0] if tokens else '')
    while i < len(tokens):
        name = tokens[i]
        i += 1
        last = (type(owner), name)
        try:
            value = getattr(owner, name)
            while i < len(tokens) and tokens[i].startswith('['):
                value = value[int(tokens[i][1:-1])]
                i += 1
        except Exception:  # noqa: BLE001
            break
        if i >= len(tokens) or not hasattr(value, 'sorted_container_properties'):
            break
        if _standalone_clean(value, nsh, nsmap):
            break
        owner = value
    cls, member = last
    return f'{xg.declaring_class(cls, member)}.{member}'


class Checker:
    def __init__(self, ctx: core.Ctx):
        self.ctx = ctx
        self.oracle = xo.oracle()
        self.infos = xg.enumerate_classes()
        self.reg = xg.class_registry(self.infos)
        self.codecs: dict = {}
        self.class_parts = alias.class_level_parts([i.cls for i in self.infos])
        self.lib_schema = None
        try:    # the validator the library builds for itself (pysoap.msgfactory / msgreader do exactly this)
            from sdc11073 import schema_resolver
            from sdc11073.namespaces import PrefixesEnum, default_ns_helper
            self.lib_schema = schema_resolver.mk_schema_validator(list(PrefixesEnum), default_ns_helper)
            ctx.count('schema_resolver.validators_built')
        except Exception as ex:  # noqa: BLE001
            ctx.witness('schema_resolver.cannot_build', f'schema_resolver.mk_schema_validator fails for the bundled namespaces: {type(ex).__name__}',
                        {'error': repr(ex)[:800]})

    def codec(self, info, cfg: NsCfg | None = None) -> Codec:
        key = (info.key, cfg.name if cfg is not None else None)
        if key not in self.codecs:
            self.codecs[key] = Codec(info, self.oracle, cfg)
        return self.codecs[key]

    # ---- the round trip --------------------------------------------------------------------------------
    def check_value(self, info: xg.ClassInfo, obj, shape, what='value', cfg: NsCfg | None = None, directed=False) -> dict | None:  # noqa: PLR0911, PLR0912, PLR0915, C901
        """One value through write -> validate -> read -> write.  ``cfg``: a non-default namespace configuration (its witness
        keys carry the prefix ``ns.<family>.[<composition>.]``, its counters the prefix ``ns.``)."""
        ctx = self.ctx
        codec = self.codec(info, cfg)
        kp = cfg.kp if cfg is not None else ''
        cp = 'ns.' if cfg is not None else ''
        cname = info.name

        def witness(key, what, detail):
            # a defect that shows in the default configuration shows in the others as well: reported once, under its plain key
            # (both parts of a slice run in one process, the default configuration first)
            if kp and key.startswith(kp) and key[len(kp):] in ctx.witness_counts:
                ctx.count('ns.repeats_of_default_configuration_witnesses(suppressed)')
                return
            ctx.witness(key, what, detail)

        c1 = canon(obj) if cfg is None else _prefix_blind(canon(obj))
        try:
            doc, node = codec.write(obj)
        except Exception as ex:  # noqa: BLE001
            txt = ''.join(traceback.format_exception_only(type(ex), ex))
            mem = _member_of_error(txt)
            key = f'write.{xg.declaring_class(self.reg.get(mem[0], [info.cls])[-1], mem[1])}.{mem[1]}' if mem else f'write.{cname}'
            witness(kp + key, f'writing a generated {what} of {cname} raises {type(ex).__name__}' + _cfg_text(cfg),
                        {'class': info.key, 'canon': repr(c1)[:1500], 'error': txt[-900:]})
            ctx.count(cp + 'write.raised')
            return None
        if doc is None:
            ctx.count(cp + 'write.returns_none')
            return None
        ctx.count(cp + 'written')
        try:
            text1 = etree.tostring(doc)
            redoc = etree.fromstring(text1)
        except Exception as ex:  # noqa: BLE001
            witness(f'{kp}serialize.{cname}', f'serialising / re-parsing the written tree raises {type(ex).__name__}' + _cfg_text(cfg),
                        {'class': info.key, 'error': repr(ex)[:500], 'canon': repr(c1)[:1500]})
            return None
        node1 = codec.locate(redoc) if info.key != 'mex_types.Metadata' else redoc
        x1 = _clock_blind(c14n(redoc))   # taken now: readers hand out live child elements of this document (any-content members)
        # ---- QNames in attribute content: xsi:type must be resolvable with the declarations the peer sees ---------------
        if cfg is not None:
            ctx.count('ns.xsi_type.documents_checked')
            bad = _unresolvable_xsi_types(redoc, node1 if info.kind in ('state', 'descriptor') else None, self.oracle.index, ctx)
            if bad:
                ctx.count('ns.xsi_type.unresolvable')
                for where, value, why in bad[:2]:
                    witness(f'{kp}xsi_type_unresolvable.{where}',
                                f'{cname}: xsi:type="{value}" written for the {where} element {why}' + _cfg_text(cfg),
                                {'class': info.key, 'configuration': cfg.name, 'xml': text1[:2500].decode('utf-8', 'replace')})
                return {'ok': False}    # schema rejection and read errors of this document are consequences
        # ---- schema ---------------------------------------------------------------------------------------
        if not codec.schema_mode.startswith('none'):
            try:
                errors = codec.validate(redoc, redoc[0] if info.key == 'mex_types.Metadata' else node1)
            except Exception as ex:  # noqa: BLE001
                errors = [f'validator raised {ex!r}']
            ctx.count(cp + 'schema.validated')
            if errors:
                ctx.count(cp + 'schema.rejected')
                witness(f'{kp}schema.{_schema_key(errors, info.cls)}',
                            f'{cname}: written XML is rejected by the bundled schema: {errors[0][:200]}' + _cfg_text(cfg),
                            {'class': info.key, 'errors': errors[:4], 'xml': text1[:3000].decode('utf-8', 'replace'), 'shape': repr(shape)[:400]})
            # the library's own validator (schema_resolver.mk_schema_validator resolves the bundled files by schema location)
            if codec.schema_mode in ('state', 'descriptor', 'element') and info.key != 'mex_types.Metadata' and self.lib_schema is not None:
                ctx.count('schema_resolver.verdicts_compared')
                lib_ok = bool(self.lib_schema.validate(redoc))
                if lib_ok != (not errors):
                    verdict = 'accepts' if lib_ok else 'rejects'
                    last = '' if lib_ok else str(self.lib_schema.error_log.last_error)[:300]
                    witness(f'{kp}schema_resolver.library_validator_{verdict}',
                                f'{cname}: the validator built by schema_resolver.mk_schema_validator {verdict} a document that the bundled '
                                f'schema files (loaded independently) {"reject" if lib_ok else "accept"}: {last or errors[0][:200]}',
                                {'class': info.key, 'xml': text1[:2500].decode('utf-8', 'replace')})
        # ---- read back ------------------------------------------------------------------------------------
        try:
            obj2 = codec.read(node1, obj)
        except Exception as ex:  # noqa: BLE001
            txt = traceback.format_exc()
            ctx.count(cp + 'read.raised')
            witness(f'{kp}read.{_exc_site(ex)}', f'reading back the XML written for a {cname} raises {type(ex).__name__}' + _cfg_text(cfg),
                        {'class': info.key, 'error': txt[-1200:], 'xml': text1[:3000].decode('utf-8', 'replace')})
            return None
        ctx.count(cp + 'read_back')
        c2 = canon(obj2) if cfg is None else _prefix_blind(canon(obj2))
        ok = True
        if c1 != c2:
            ok = False
            ctx.count(cp + 'roundtrip.canon_mismatch')
            for path, left, right in canon_diff(c1, c2, limit=4):
                key_part = blame(obj, path, codec.nsh, codec.nsmap)
                witness(f'{kp}roundtrip.{key_part}',
                            f'{cname}: member {path} changes in write -> read: {_brief(left)} -> {_brief(right)}' + _cfg_text(cfg),
                            {'class': info.key, 'path': path, 'before': repr(left)[:600], 'after': repr(right)[:600],
                             'xml': text1[:2500].decode('utf-8', 'replace')})
        else:
            ctx.count(cp + 'roundtrip.canon_equal')
        # ---- the value that was read owns all of its parts --------------------------------------------------
        if cfg is None:
            p2 = alias.parts(obj2)
            ctx.count('shared.read_values_checked')
            ctx.count('shared.parts_checked', len(p2))
            for i in p2:
                if i in self.class_parts:
                    owner, below, _o = self.class_parts[i]
                    witness(f'shared_default.{owner}',
                                f'{cname}: the value read from XML contains (at {p2[i][0] or "itself"}) the class-level default / implied object of '
                                f'{owner}{"." + below if below else ""}: every instance read or created shares it',
                                {'class': info.key, 'path': p2[i][0], 'part_type': type(p2[i][1]).__name__,
                                 'xml': text1[:1500].decode('utf-8', 'replace')})
                    break
            both = alias.shared(alias.parts(obj), p2)
            if both:
                witness(f'shared_with_written.{xg.declaring_class(info.cls, _top(both[0][1]))}.{_top(both[0][1])}',
                            f'{cname}: the value read back shares the {both[0][2]} at {both[0][1]} with the value that was written',
                            {'class': info.key, 'shared': both[:5]})
        # the library's own notion of equality
        try:
            lib_eq = (obj == obj2) if type(obj).__eq__ is not object.__eq__ and _eq_meaningful(obj) else None
        except RuntimeError:
            lib_eq = None
            ctx.count(cp + 'lib_eq.refused(CodedValue comparison raises by design)')
        except Exception as ex:  # noqa: BLE001
            lib_eq = None
            ctx.count(f'{cp}lib_eq.raised.{type(ex).__name__}')
        if lib_eq is not None:
            ctx.count(cp + 'lib_eq.evaluated')
            if lib_eq is False and c1 == c2:
                witness(f'{kp}lib_eq.{cname}', f'{cname}: canonical forms are equal but the library __eq__ says the re-read value differs',
                            {'class': info.key, 'canon': repr(c1)[:1500]})
            if lib_eq is True and c1 != c2:
                ctx.count(cp + 'lib_eq.true_but_canon_differs')
        # ---- write again ------------------------------------------------------------------------------------
        try:
            doc2, _node2 = codec.write(obj2)
            redoc2 = etree.fromstring(etree.tostring(doc2))
        except Exception as ex:  # noqa: BLE001
            if ok:
                txt = ''.join(traceback.format_exception_only(type(ex), ex))
                mem = _member_of_error(txt)
                key = f'rewrite_raises.{mem[0]}.{mem[1]}' if mem else f'rewrite_raises.{cname}'
                witness(kp + key, f'{cname}: the value read back cannot be written again ({type(ex).__name__})' + _cfg_text(cfg),
                            {'class': info.key, 'error': txt[-900:], 'xml': text1[:2500].decode('utf-8', 'replace')})
            return {'ok': False}
        x2 = _clock_blind(c14n(redoc2))
        # writing the value again must not alter the XML document written before (the value read back refers to elements of that
        # document: a writer that moves instead of copies takes them out of it - a message still queued for sending would change)
        x1_after = _clock_blind(c14n(redoc))
        ctx.count(cp + 'rewrite.earlier_output_checked')
        if x1_after != x1:
            kind = _shrunk_parent_kind(x1, redoc)
            witness(f'{kp}rewrite.earlier_output_altered.{kind}',
                        f'{cname}: writing the value that was read back altered the XML document it was read from ({kind} content was moved out of it)',
                        {'class': info.key, 'before': x1[:2000], 'after': x1_after[:2000], 'diff_at': _first_diff(x1, x1_after)})
        ctx.count(cp + 'rewrite.compared')
        if x1 != x2:
            ctx.count(cp + 'rewrite.differs')
            if ok:  # a value difference was already reported with its member
                witness(f'{kp}rewrite.{cname}', f'{cname}: value is stable but the second XML differs from the first' + _cfg_text(cfg),
                            {'class': info.key, 'first': x1[:2500], 'second': x2[:2500], 'diff_at': _first_diff(x1, x2)})
            ok = False
        # ---- the ORIGINAL object written a second time: writing must not have changed it, nor depend on what was written before --
        if directed and cfg is None:
            try:
                doc3, _n3 = codec.write(obj)
                x3 = _clock_blind(c14n(etree.fromstring(etree.tostring(doc3))))
                ctx.count('rewrite.same_object_compared')
                if x3 != x1:
                    witness(f'rewrite_same_object.{cname}', f'{cname}: writing the same object a second time yields another XML',
                                {'class': info.key, 'first': x1[:2500], 'second': x3[:2500], 'diff_at': _first_diff(x1, x3)})
                if canon(obj) != c1:
                    d = canon_diff(c1, canon(obj), limit=1)
                    witness(f'write_changes_value.{xg.declaring_class(info.cls, _top(d[0][0]))}.{_top(d[0][0])}' if d else f'write_changes_value.{cname}',
                                f'{cname}: writing the value to XML changed the value itself' + (f' at {d[0][0]}: {_brief(d[0][1])} -> {_brief(d[0][2])}' if d else ''),
                                {'class': info.key})
            except Exception as ex:  # noqa: BLE001
                witness(f'rewrite_same_object_raises.{cname}', f'{cname}: the object that was written once cannot be written a second time '
                            f'({type(ex).__name__})', {'class': info.key, 'error': repr(ex)[-600:]})
        return {'ok': ok, 'xml': text1, 'obj2': obj2, 'node1': node1, 'redoc': redoc}

    # ---- absent optional parts --------------------------------------------------------------------------
    def check_absent(self, info: xg.ClassInfo, gen: xg.Gen):  # noqa: C901, PLR0912, PLR0915
        """XML with every schema-optional part absent: implied / default values, nothing shared between two parses."""
        ctx = self.ctx
        codec = self.codec(info)
        cls = info.cls
        if info.key == 'mex_types.Metadata':
            return  # its reader takes the s12:Body and builds sections by dialect; members are covered by the section classes
        try:
            obj = gen.instance(cls, xg.Plan(mode='min'))
            doc, _ = codec.write(obj)
            if doc is None:
                return
            text = etree.tostring(doc)
            doc_a = etree.fromstring(text)
            node_a = codec.locate(doc_a)
            stripped = []
            for name, prop in xg.props_of(cls):
                names = xg.mro_names(prop)
                if 'CurrentTimestampAttributeProperty' in names or not _present_in(node_a, prop, names):
                    continue
                decl = gen._decl(codec.ctx, prop, names)  # noqa: SLF001
                if getattr(prop, '_sub_element_name', 1) is None:
                    continue
                if decl is None:
                    # an element the schema only admits as open content (xs:any minOccurs=0, e.g. wse:NotifyTo in wse:Delivery):
                    # optional by the schema, whatever the library declares -> may be absent (the stripped XML is validated below)
                    if not (isinstance(codec.ctx, xo.Complex) and codec.ctx.any_element and '_ElementBase' in names):
                        continue
                    decl = ('elem', xo.ElemDecl('', 0, None, None))
                if (decl[0] == 'attr' and not decl[2]) or (decl[0] == 'elem' and decl[1].min == 0):
                    _remove(node_a, prop, names)
                    stripped.append(name)
            if stripped and not codec.schema_mode.startswith('none'):
                if codec.validate(doc_a, node_a):
                    ctx.count('absent.stripped_xml_invalid(using unstripped)')
                    ctx.extra.setdefault('absent_stripped_xml_invalid', []).append(f'{info.key}: {stripped}')
                    doc_a = etree.fromstring(text)
            text = etree.tostring(doc_a)
            node_a = codec.locate(etree.fromstring(text))
            a = codec.read(node_a, obj)
            b = codec.read(codec.locate(etree.fromstring(text)), obj)
            fresh = gen.construct(cls)
            ca = dict(canon(a)[3])
            cfresh = dict(canon(fresh)[3])
        except Exception as ex:  # noqa: BLE001  (reported by check_value on the same plan)
            ctx.count('absent.setup_failed')
            ctx.extra.setdefault('absent_check_not_possible', []).append(f'{info.key}: {type(ex).__name__}: {str(ex)[:120]}')
            return
        ctx.count('absent.classes')
        for name, prop in xg.props_of(cls):
            names = xg.mro_names(prop)
            if 'CurrentTimestampAttributeProperty' in names or _present_in(node_a, prop, names):
                continue
            ctx.count('absent.members_checked')
            decl_cls = xg.declaring_class(cls, name)
            value = getattr(a, name)
            cv = ca[name]
            # (1) schema-documented implied value: differential against the same XML with the literal written out
            implied = _implied_literal(codec.ctx, prop, names)
            if implied is not None and (decl_cls, name) not in IMPLIED_NOT_MODELLED:
                try:
                    node_c = codec.locate(etree.fromstring(text))
                    _write_literal(node_c, prop, names, implied)
                    c_obj = codec.read(node_c, obj)
                    expected = dict(canon(c_obj)[3])[name]
                except Exception as ex:  # noqa: BLE001
                    ctx.count(f'absent.implied_literal_unreadable.{type(ex).__name__}')
                    expected = None
                if expected is not None:
                    ctx.count('absent.implied_checked')
                    if cv != expected:
                        ctx.witness(f'implied.{decl_cls}.{name}',
                                    f'{cls.__name__}.{name} absent in XML reads as {_brief(cv)}; the schema documents the implied value "{implied}" '
                                    f'(which reads as {_brief(expected)})', {'class': info.key, 'xml': text[:1500].decode('utf-8', 'replace')})
                    continue
            elif implied is not None:
                ctx.count('absent.implied_not_modelled(assumption)')
            # (2) otherwise: None / empty / what the constructor sets
            allowed = [None, ('list', ()), cfresh.get(name)]
            ctx.count('absent.default_checked')
            if cv not in allowed:
                ctx.witness(f'absent.{decl_cls}.{name}', f'{cls.__name__}.{name} absent in XML reads as {_brief(cv)}, neither None/empty nor the constructor default',
                            {'class': info.key, 'allowed': repr(allowed)[:600], 'xml': text[:1500].decode('utf-8', 'replace')})
            # (3) never a value belonging to another object
            other = getattr(b, name)
            shared_with = None
            if _mutable(value):
                if value is getattr(prop, '_default_py_value', None):
                    shared_with = 'the class-level default object (and so with every other instance parsed or created)'
                elif value is other:
                    shared_with = 'a second, independent parse of the same bytes'
                elif value is getattr(fresh, name):
                    shared_with = 'a freshly constructed instance'
            ctx.count('absent.identity_checked')
            if shared_with:
                ctx.witness(f'absent_shared.{decl_cls}.{name}',
                            f'{cls.__name__}.{name} absent in XML reads as an object that is shared with {shared_with}',
                            {'class': info.key, 'value_type': type(value).__name__, 'xml': text[:1500].decode('utf-8', 'replace')})
        absent_names = {name for name, prop in xg.props_of(cls)
                        if 'CurrentTimestampAttributeProperty' not in xg.mro_names(prop) and not _present_in(node_a, prop, xg.mro_names(prop))}
        self.check_ownership(info, codec, gen, a, b, fresh, text, obj, absent_names)
        self.check_update_of_used_instance(info, codec, gen, text, obj)

    # ---- (3b) ... never a value belonging to another object: at any depth, and observed by editing in place ----------------
    def check_ownership(self, info, codec, gen, a, b, fresh, text, obj, absent_names):  # noqa: PLR0913, C901, PLR0912
        """``a`` and ``b`` were read from the same bytes (every schema-optional part absent), ``fresh`` was constructed.
        No mutable part of ``a`` - at any depth - may be a part of ``b``, of ``fresh`` or of a class-level default object; and editing
        ``a`` in place must change neither ``b``, nor what is read / constructed / written afterwards."""
        ctx = self.ctx
        cls = info.cls
        xml = text[:1500].decode('utf-8', 'replace')
        pa, pb, pf = alias.parts(a), alias.parts(b), alias.parts(fresh)
        ctx.count('owned.classes_checked')
        ctx.count('owned.parts_checked', len(pa))
        ctx.count('owned.nested_parts_checked', sum(1 for path, _o in pa.values() if '.' in path or '[' in path))
        reported = set()

        def report(path, part, with_what):
            member = _top(path)
            key = f'{"absent_shared" if member in absent_names else "parse_shared"}.{xg.declaring_class(cls, member)}.{member}'
            if key in reported:
                return
            reported.add(key)
            ctx.witness(key, f'{cls.__name__}.{member}{" (absent in the XML)" if member in absent_names else ""} reads as a value whose part '
                             f'{path} ({type(part).__name__}) is shared with {with_what}',
                        {'class': info.key, 'path': path, 'part_type': type(part).__name__, 'xml': xml})

        for i, (path, part) in pa.items():
            if not path:
                continue
            if i in self.class_parts:
                owner, below, _o = self.class_parts[i]
                report(path, part, f'the class-level default object of {owner}{"." + below if below else ""} (and so with every other '
                                   f'instance read or created)')
            elif i in pb:
                report(path, part, f'a second, independent parse of the same bytes (there: {pb[i][0]})')
            elif i in pf:
                report(path, part, f'a freshly constructed instance (there: {pf[i][0]})')
        for i, (path, part) in pf.items():
            if path and i in self.class_parts:
                owner, below, _o = self.class_parts[i]
                ctx.witness(f'constructed_shared.{owner}', f'a constructed {cls.__name__} holds at {path} the class-level default object of {owner}',
                            {'class': info.key, 'path': path})
                break
        # ---- the multi step sequence: read A, read B, edit A in place ------------------------------------------------------
        try:
            ca0, cb0, cf0 = canon(a), canon(b), canon(fresh)
            xb0 = _clock_blind(c14n(etree.fromstring(etree.tostring(codec.write(b)[0]))))
        except Exception:  # noqa: BLE001
            ctx.count('owned.edit_probe_setup_failed')
            return
        edits = alias.mutate_in_place(a)
        ctx.count('owned.edit_probes')
        ctx.count('owned.edits_made', edits)
        if not edits:
            return

        def leak(kind, before, after, who):
            for path, left, right in canon_diff(before, after, limit=2):
                member = _top(path)
                key = f'edit_leaks.{xg.declaring_class(cls, member)}.{member}'
                if key in reported:
                    continue
                reported.add(key)
                ctx.witness(key, f'{cls.__name__}: after a value read from XML was edited in place, {who} differs at {path}: '
                                 f'{_brief(left)} -> {_brief(right)} (the edited part did not belong to the edited value alone)',
                            {'class': info.key, 'observed_in': kind, 'path': path, 'before': repr(left)[:400], 'after': repr(right)[:400], 'xml': xml})

        try:
            leak('other_instance', cb0, canon(b), 'a second value that was read from the same bytes before')
            c = codec.read(codec.locate(etree.fromstring(text)), obj)
            leak('read_later', ca0, canon(c), 'a value read from the same bytes afterwards')
            leak('constructed_later', cf0, canon(gen.construct(cls)), 'a newly constructed instance')
            xb1 = _clock_blind(c14n(etree.fromstring(etree.tostring(codec.write(b)[0]))))
            ctx.count('owned.edit_probe_comparisons', 4)
            if xb1 != xb0 and not any(k.startswith('edit_leaks.') for k in reported):
                ctx.witness(f'edit_leaks.{cls.__name__}', f'{cls.__name__}: after another value was edited in place, the XML written for this one changed',
                            {'class': info.key, 'diff_at': _first_diff(xb0, xb1)})
        except Exception as ex:  # noqa: BLE001
            # the sentinel reached an object that is written / read here: that alone is a leak
            if not any(k.startswith('edit_leaks.') for k in reported):
                ctx.witness(f'edit_leaks.{cls.__name__}', f'{cls.__name__}: after a value read from XML was edited in place, reading / '
                            f'constructing / writing ANOTHER value raises {type(ex).__name__}',
                            {'class': info.key, 'error': repr(ex)[-500:], 'xml': xml})

    # ---- reading into an instance that already holds a value ---------------------------------------------------------------
    def check_update_of_used_instance(self, info, codec, gen, text, obj, _unused=None):
        """``update_from_node`` (the reader behind every ``from_node``) on an instance that holds OTHER data: afterwards the instance
        should equal what ``from_node`` yields for the same XML (parts that are absent in the XML fall back to their implied / default
        value and do not keep what the instance held before).  The library itself only ever calls update_from_node on instances it has
        just constructed, and the statement speaks of the value that reading yields, not of re-using instances: differences are
        RECORDED (evidence key ``reuse_keeps_old(observation)``), they are not violations."""
        ctx = self.ctx
        cls = info.cls
        if not hasattr(cls, 'update_from_node'):
            return
        try:
            full = gen.instance(cls, xg.Plan(mode='max'))
            doc, _ = codec.write(full)
            used = codec.read(codec.locate(etree.fromstring(etree.tostring(doc))), full)
            node = codec.locate(etree.fromstring(text))
            expected = codec.read(codec.locate(etree.fromstring(text)), obj)
            if getattr(used, 'is_descriptor_container', False):
                used.parent_handle = expected.parent_handle
            c_before = canon(used)
            used.update_from_node(node)
        except Exception:  # noqa: BLE001
            ctx.count('reuse.setup_failed')
            return
        ctx.count('reuse.instances_updated')
        ce, cu = canon(expected), canon(used)
        if c_before == ce:
            ctx.count('reuse.trivial(max value equals min value)')
            return
        ctx.count('reuse.compared')
        props = dict(xg.props_of(cls))
        diffs = canon_diff(ce, cu, limit=3)
        if diffs:
            ctx.count('reuse.differs(observation, not a violation)')
        for path, left, right in diffs:
            prop = props.get(_top(path))
            # mechanism = the class that implements update_from_node for this kind of member
            site = next((c.__name__ for c in type(prop).__mro__ if 'update_from_node' in c.__dict__), type(prop).__name__) if prop is not None else cls.__name__
            ctx.extra.setdefault('reuse_keeps_old(observation)', []).append(
                f'{site}: {cls.__name__}.update_from_node on an instance that held another value: member {path} ({type(prop).__name__}) reads '
                f'{_brief(right)}, from_node of the same XML yields {_brief(left)}')


def _prefix_blind(c):
    """canonical form with raw XML members compared as infosets without prefixes (exclusive C14N keeps the prefixes, and under another
    namespace configuration the library legitimately writes other prefixes for the same names)"""
    if isinstance(c, tuple):
        if len(c) == 2 and c[0] == 'xml' and isinstance(c[1], str):
            try:
                return ('xml*', _infoset(etree.fromstring(c[1].encode('utf-8'))))
            except Exception:  # noqa: BLE001
                return c
        return tuple(_prefix_blind(x) for x in c)
    return c


def _infoset(el):
    kids = tuple((_infoset(k), k.tail or '') for k in el if isinstance(k.tag, str))
    return (el.tag, tuple(sorted(el.attrib.items())), el.text or '', kids)


def _cfg_text(cfg) -> str:
    return f' [namespace configuration {cfg.name}]' if cfg is not None else ''


def _top(path: str) -> str:
    """first member name of a canon / parts path ('CoreData.Middlename[0]' -> 'CoreData')"""
    return re.split(r'[.\[#]', path, maxsplit=1)[0] if path else ''


def _unresolvable_xsi_types(doc, object_node, index, ctx) -> list:
    """[(root|child, attribute value, why)] for every xsi:type in ``doc`` (as a peer parsed it) whose QName cannot be resolved with the
    namespace declarations in scope (XSD: no prefix = the default namespace) or does not name a type of the bundled schemas"""
    out = []
    for el in doc.iter():
        if not isinstance(el.tag, str):
            continue
        value = el.get(XSI_TYPE)
        if value is None:
            continue
        ctx.count('ns.xsi_type.attributes_checked')
        prefix, _, local = value.rpartition(':')
        ns = el.nsmap.get(prefix or None)
        where = 'root' if el is object_node else 'child'
        q = xo.clark(ns, local)
        if prefix and ns is None:
            out.append((where, value, f'uses the prefix "{prefix}" that is not declared in scope (declared: {sorted(k or "" for k in el.nsmap)})'))
        elif ns != xo.XS and index.complex(q) is None and q not in index._stypes:  # noqa: SLF001
            out.append((where, value, f'resolves to {q}, which is no type of the bundled schemas'
                                      + (' (no default namespace is declared in scope)' if not prefix and ns is None else '')))
    return out


def _qname_namespaces(obj) -> set:
    """namespaces of all QName values inside a value"""
    found = set()
    seen = set()

    def walk(x, depth=0):
        if depth > 40 or id(x) in seen:
            return
        if isinstance(x, etree.QName):
            found.add(x.namespace)
        elif isinstance(x, (list, tuple)):
            seen.add(id(x))
            for y in x:
                walk(y, depth + 1)
        elif callable(getattr(x, 'sorted_container_properties', None)) and not isinstance(x, type):
            seen.add(id(x))
            for name, _prop in x.sorted_container_properties():
                try:
                    walk(getattr(x, name), depth + 1)
                except Exception:  # noqa: BLE001, S110
                    pass
    walk(obj)
    return found


def _remove(node, prop, names):
    if '_AttributeBase' in names:
        an = prop._attribute_name  # noqa: SLF001
        node.attrib.pop(an.text if hasattr(an, 'text') else an, None)
        return
    sub = prop._sub_element_name  # noqa: SLF001
    for child in node.findall(sub.text if hasattr(sub, 'text') else str(sub)):
        node.remove(child)


def _eq_meaningful(obj, depth=0) -> bool:
    """XMLTypeBase.__eq__ compares member values with ==; containers (no __eq__) and raw lxml elements compare by identity,
    so the library's equality says nothing about values that contain them."""
    if depth > 12:
        return True
    for name, _prop in obj.sorted_container_properties():
        v = getattr(obj, name)
        items = v if isinstance(v, list) else [v]
        plain_list = isinstance(v, list) and type(v).__name__ != 'ExtensionLocalValue'
        for x in items:
            if isinstance(x, etree._Element):  # noqa: SLF001
                if plain_list or not isinstance(v, list):
                    return False
            elif hasattr(x, 'sorted_container_properties'):
                if not hasattr(type(x), 'as_etree_node'):   # ContainerBase
                    return False
                if not _eq_meaningful(x, depth + 1):
                    return False
    return True


def _mutable(v) -> bool:
    import enum
    from decimal import Decimal
    return not (v is None or isinstance(v, (str, int, float, bool, Decimal, enum.Enum, etree.QName, tuple, frozenset)))


def _present_in(node, prop, names) -> bool:
    if '_AttributeBase' in names:
        an = prop._attribute_name  # noqa: SLF001
        return (an.text if hasattr(an, 'text') else an) in node.attrib
    sub = getattr(prop, '_sub_element_name', None)
    if sub is None:
        return True  # the node itself
    return node.find(sub.text if hasattr(sub, 'text') else str(sub)) is not None


def _implied_literal(cctx, prop, names):
    if not isinstance(cctx, xo.Complex):
        return None
    if '_AttributeBase' in names:
        an = prop._attribute_name  # noqa: SLF001
        return cctx.implied.get(('attr', an.text if hasattr(an, 'text') else an))
    sub = getattr(prop, '_sub_element_name', None)
    if sub is None:
        return None
    return cctx.implied.get(('elem', sub.text if hasattr(sub, 'text') else str(sub)))


def _write_literal(node, prop, names, literal):
    if '_AttributeBase' in names:
        an = prop._attribute_name  # noqa: SLF001
        node.set(an.text if hasattr(an, 'text') else an, literal)
        return
    sub = prop._sub_element_name  # noqa: SLF001
    el = etree.Element(sub.text if hasattr(sub, 'text') else str(sub))
    el.text = literal
    node.insert(0, el)   # position is irrelevant for the reader (find by name); this XML is not validated


def _brief(x) -> str:
    s = repr(x)
    return s if len(s) <= 90 else s[:87] + '...'


def _shrunk_parent_kind(before_text: str, after_doc) -> str:
    """which kind of member lost children: 'Extension' (ext:Extension content) or 'AnyEtreeNode' (raw lxml element members)"""
    try:
        before = etree.fromstring(before_text.encode('utf-8') if isinstance(before_text, str) else before_text)
    except Exception:  # noqa: BLE001
        return 'unknown'

    def walk(a, b):
        ka = [c for c in a if isinstance(c.tag, str)]
        kb = [c for c in b if isinstance(c.tag, str)]
        if len(ka) != len(kb):
            return a.tag
        for x, y in zip(ka, kb):
            r = walk(x, y)
            if r:
                return r
        return None
    tag = walk(before, after_doc)
    if tag is None:
        return 'unknown'
    return 'Extension' if tag.endswith('}Extension') else 'AnyEtreeNode'


def _first_diff(a: str, b: str) -> str:
    for i, (x, y) in enumerate(zip(a, b)):
        if x != y:
            return f'@{i}: ...{a[max(0, i - 60):i + 60]!r} vs ...{b[max(0, i - 60):i + 60]!r}'
    return f'length {len(a)} vs {len(b)}'


_SCHEMA_KINDS = (('is not expected', 'unexpected_element'), ('Missing child', 'missing_child'), ('is required but missing', 'missing_attribute'),
                 ('is not allowed', 'not_allowed'), ('not a valid value of the atomic type', 'bad_atomic_value'),
                 ('not a valid value of the list type', 'bad_list_value'), ('union type', 'bad_union_value'),
                 ('is not an element of the set', 'not_in_enumeration'), ('facet', 'facet'), ('abstract', 'abstract_type'),
                 ('No matching global', 'no_global_declaration'), ('no corresponding namespace declaration', 'qname_prefix_unbound'),
                 ('xsi:type', 'xsi_type'), ('not a valid value', 'bad_value'))


def _schema_key(errors: list[str], cls: type) -> str:
    """stable mechanism key of a validation error: <offending element>[.<attribute>].<rule>.

    * the element is the root of the class under test (probe.* / State / Descriptor / the message element): the class name is
      used, and if the error names an attribute that is a member of the class, ``<DeclaringClass>.<member>``;
    * the element is the sub-element of exactly one member of the class under test: ``<DeclaringClass>.<member>``;
    * otherwise the element's local name (the error is inside a nested type, the same whatever the host)."""
    m = errors[0]
    el = re.search(r"Element '([^']*)'", m)
    at = re.search(r"attribute '([^']*)'", m)
    local = el.group(1).split(':')[-1] if el else 'unknown'
    attr = at.group(1).split(':')[-1] if at else None
    what = next((tag for needle, tag in _SCHEMA_KINDS if needle in m), 'other')
    node_type = getattr(cls, 'NODETYPE', None)
    is_root = local.startswith('probe.') or local in ('State', 'Descriptor') or (node_type is not None and local == node_type.localname)
    try:
        props = xg.props_of(cls)
    except Exception:  # noqa: BLE001
        props = []
    if is_root:
        if attr is not None:
            for name, prop in props:
                an = getattr(prop, '_attribute_name', None)
                if an is not None and (an.localname if hasattr(an, 'localname') else an) == attr:
                    return f'{xg.declaring_class(cls, name)}.{name}.{what}'
        return '.'.join(x for x in (cls.__name__, attr, what) if x)
    hits = []
    for name, prop in props:
        sub = getattr(prop, '_sub_element_name', None)
        if sub is not None and getattr(sub, 'localname', None) == local:
            hits.append(name)
    if len(hits) == 1 and what in ('bad_union_value', 'bad_atomic_value', 'bad_list_value', 'bad_value', 'facet', 'not_in_enumeration') and attr is None:
        return f'{xg.declaring_class(cls, hits[0])}.{hits[0]}.{what}'
    return '.'.join(x for x in (local, attr, what) if x)


def _exc_site(ex) -> str:
    """'<Class>.<member>.<Exc>' (raised inside a property of that class) or '<Class>.from_node.<Exc>' - innermost library frame"""
    frames = []
    tb = ex.__traceback__
    while tb is not None:
        frames.append(tb.tb_frame)
        tb = tb.tb_next
    for fr in reversed(frames):
        if '/sdc11073/' not in fr.f_code.co_filename:
            continue
        loc = fr.f_locals
        slf, inst = loc.get('self'), loc.get('instance')
        if slf is not None and inst is not None and hasattr(slf, 'update_xml_value') and hasattr(inst, 'sorted_container_properties'):
            for name, prop in inst.sorted_container_properties():
                if prop is slf:
                    return f'{xg.declaring_class(type(inst), name)}.{name}.{type(ex).__name__}'
        c = loc.get('cls')
        if isinstance(c, type) and fr.f_code.co_name == 'from_node':
            return f'{c.__name__}.from_node.{type(ex).__name__}'
    return type(ex).__name__


# =============================================================================================
# plans per class
# =============================================================================================
def plans_for(gen: xg.Gen, info: xg.ClassInfo, cctx, budget: int, rng):  # noqa: C901, PLR0912
    """directed plans (always) + random plans up to ``budget``; yields (label, Plan)"""
    mem = xg.members(gen, info.cls, cctx)
    opt = [m for m in mem if m.optional and not m.has_default]
    lists = [m for m in mem if m.is_list]
    yield 'min', xg.Plan(mode='min')
    yield 'max', xg.Plan(mode='max')
    n = 2
    # presence masks
    if len(opt) <= 6:
        for mask in range(1 << len(opt)):
            yield 'mask', xg.Plan(mode='min', present={m.name: bool(mask >> i & 1) for i, m in enumerate(opt)})
            n += 1
    else:
        for m in opt:
            yield 'single_present', xg.Plan(mode='min', present={m.name: True})
            yield 'single_absent', xg.Plan(mode='max', present={m.name: False})
            n += 2
        for i, m in enumerate(opt):          # pairwise: every pair (present, present) and (present, absent) at least once
            for m2 in opt[i + 1:]:
                if n >= budget * 0.5:
                    break
                yield 'pair', xg.Plan(mode='min', present={m.name: True, m2.name: True})
                n += 1
    # where the library's is_optional flag and the schema disagree (exact declaration of the owner type, scalar members):
    # the library's docstring says the flag "reflects if this element is optional in schema"
    for m in mem:
        if m.is_list or m.schema_optional is None or m.has_default or 'ExtensionNodeProperty' in m.names:
            continue
        if m.lib_optional and not m.schema_optional:
            yield 'lib_optional_absent', xg.Plan(mode='min', present={m.name: False}, trust={m.name: 'lib'})
            n += 1
        elif not m.lib_optional and m.schema_optional:
            yield 'schema_optional_absent', xg.Plan(mode='min', present={m.name: False}, trust={m.name: 'schema'})
            n += 1
    # list lengths
    for m in lists:
        for length in (0, 1, 2, 5):
            yield 'list_len', xg.Plan(mode='min', lens={m.name: length})
            n += 1
    # every enum member
    for m in mem:
        if m.enum is not None:
            for ev in list(m.enum):
                yield 'enum', xg.Plan(mode='min', values={m.name: ev}, present={m.name: True})
                n += 1
    # every registered substitution
    for m in mem:
        if m.is_sub and hasattr(m.prop, 'value_class'):
            try:
                subs = gen.substitutions(m.prop, m.names, info.cls)
            except Exception:  # noqa: BLE001
                subs = []
            if len(subs) > 1:
                for sc in subs:
                    yield 'subst', xg.Plan(mode='min', present={m.name: True}, lens={m.name: 1}, subst={m.name: sc})
                    n += 1
    # corner strings
    for m in mem:
        if m.is_string:
            simple = m.decl[1] if m.decl is not None and m.decl[0] in ('attr', 'text') else (
                m.decl[1].type if m.decl is not None and m.decl[0] == 'elem' and isinstance(m.decl[1].type, xo.Simple) else None)
            plain = simple is None or (simple.primitive == 'string' and not simple.enums and not simple.is_list)
            if not plain or m.names & {'AnyURIAttributeProperty', 'AnyUriTextElement'}:
                continue
            min_len = max(1 if m.names & {'HandleAttributeProperty', 'HandleRefAttributeProperty', 'CodeIdentifierAttributeProperty',
                                          'SymbolicCodeNameAttributeProperty', 'LocalizedTextRefAttributeProperty',
                                          'ExtensionAttributeProperty'} else 0, simple.min_len if simple else 0)
            for s in xg.CORNER_STRINGS:
                if len(s) >= min_len and n < budget * 3:
                    yield 'string', xg.Plan(mode='min', values={m.name: s})
                    n += 1
    # corner strings inside lists of strings (one element per list item): plain xsd:string items only
    for m in mem:
        if m.is_list and 'SubElementTextListProperty' in m.names and 'SubElementHandleRefListProperty' not in m.names:
            simple = m.decl[1].type if m.decl is not None and m.decl[0] == 'elem' and isinstance(m.decl[1].type, xo.Simple) else None
            klass = getattr(m.prop._converter._element_converter, '_klass', (str,))  # noqa: SLF001
            if klass not in ((str,), str) or (m.decl is not None and simple is None):
                continue
            if simple is not None and not (simple.primitive == 'string' and not simple.enums and not simple.is_list and simple.min_len == 0):
                continue
            hi = m.decl[1].max if m.decl is not None and m.decl[1].max is not None else 99
            for chunk in (['', 'a'], [' ', 'x\ty', 'ü中Ж'], ['<tag/>', '&amp;', ''], ['\U0001F600']):
                yield 'string_list', xg.Plan(mode='min', values={m.name: chunk[:hi]})
                n += 1
    while n < budget:
        yield 'rand', xg.Plan(mode='rand')
        n += 1


def shape_of(info, label, obj):
    """what makes a case distinct: class, plan kind, and for every top level member its presence / length / class / enum"""
    import enum
    parts = []
    for name, _prop in obj.sorted_container_properties():
        try:
            v = getattr(type(obj), name).get_actual_value(obj) if hasattr(getattr(type(obj), name), 'get_actual_value') else getattr(obj, name)
        except Exception:  # noqa: BLE001
            v = '?'
        if v is None:
            parts.append('-')
        elif isinstance(v, list):
            parts.append(f'[{len(v)}]' + (type(v[0]).__name__ if v else ''))
        elif isinstance(v, enum.Enum):
            parts.append(str(v.value))
        elif isinstance(v, str):
            parts.append('s%d%s' % (min(len(v), 9), 'u' if any(ord(ch) > 127 for ch in v) else ''))
        elif isinstance(v, (int, float, bool)) or type(v).__name__ == 'Decimal':
            parts.append(type(v).__name__[0])
        else:
            parts.append(type(v).__name__)
    return (info.key, label, tuple(parts))


# =============================================================================================
# worker
# =============================================================================================
def w_slice(ctx: core.Ctx, arg):
    """one slice of the classes: the main round trip, then the namespace configurations (one Checker: the oracle, the library's
    validator and the registry of class-level default objects are built once per process)"""
    chk = Checker(ctx)
    w_classes(ctx, arg, chk)
    w_nsconfig(ctx, arg, chk)


def w_classes(ctx: core.Ctx, arg, chk=None):
    chk = chk or Checker(ctx)
    by_key = {i.key: i for i in chk.infos}
    budget = arg['budget']
    for key in arg['classes']:
        info = by_key[key]
        rng = ctx.rng('c05', key)
        gen = xg.Gen(rng, chk.oracle.index)
        codec = None
        try:
            xg.props_of(info.cls)
            codec = chk.codec(info)
            gen.construct(info.cls)
        except Exception as ex:  # noqa: BLE001
            ctx.extra.setdefault('cannot_instantiate', []).append(f'{key}: {type(ex).__name__}: {str(ex)[:200]}')
            ctx.witness(f'instantiate.{info.name}', f'{info.name} cannot be instantiated at all: {type(ex).__name__}: {str(ex)[:160]}',
                        {'class': key, 'error': traceback.format_exc()[-900:]})
            ctx.count('classes.not_instantiable')
            continue
        ctx.count('classes.exercised')
        ctx.count(f'classes.schema_mode.{codec.schema_mode.split(":")[0]}')
        if codec.schema_mode.startswith('none'):
            ctx.extra.setdefault('classes_without_standalone_schema_check', []).append(f'{key}: {codec.schema_mode[5:]}')
        done = 0
        gen_failed = set()
        for label, plan in plans_for(gen, info, codec.ctx, budget, rng):
            try:
                obj = gen.instance(info.cls, plan)
            except xg.CannotGenerate as ex:
                gen_failed.add(str(ex)[:240])
                ctx.count('generator.cannot_generate')
                continue
            except Exception as ex:  # noqa: BLE001
                gen_failed.add(f'{label}: {type(ex).__name__}: {str(ex)[:200]}')
                ctx.count('generator.raised')
                continue
            shape = shape_of(info, label, obj)
            res = chk.check_value(info, obj, shape, directed=label != 'rand')
            ctx.case(shape)
            ctx.count(f'plan.{label}')
            done += 1
            if res and res.get('ok') and done == 2 and arg.get('sample'):
                ctx.sample({'class': key, 'plan': label, 'xml': res['xml'][:1200].decode('utf-8', 'replace')})
        chk.check_absent(info, gen)
        for msg in sorted(gen_failed):
            ctx.extra.setdefault('generator_gaps', []).append(f'{key}: {msg}')
        ctx.count('setget.scalars_checked', gen.setget_checked)
        gen.setget_checked = 0
        for member, was_set, got in gen.setget_mismatches[:50]:
            ctx.witness(f'setget.{member}', f'{member}: the value {was_set} was assigned, the member reads {got}',
                        {'class': key, 'member': member, 'assigned': was_set, 'reads': got})
        del gen.setget_mismatches[:]
        for r in sorted(gen.setter_rejects):
            ctx.extra.setdefault('typed_setter_rejects_schema_conformant_value', []).append(r)
        for k, v in gen.strategy_use.items():
            ctx.count(f'strategy.{k}', v)
        if done == 0:
            ctx.extra.setdefault('cannot_instantiate', []).append(f'{key}: generator produced no value ({sorted(gen_failed)[:2]})')


def ns_plans(gen: xg.Gen, info: xg.ClassInfo, cctx, n_rand: int):
    """values for the namespace configurations: minimal, maximal, every registered xsi:type substitution of every member
    (xsi:type is where prefixes matter), then random ones"""
    yield 'min', xg.Plan(mode='min')
    yield 'max', xg.Plan(mode='max')
    for m in xg.members(gen, info.cls, cctx):
        if m.is_sub and hasattr(m.prop, 'value_class'):
            try:
                subs = gen.substitutions(m.prop, m.names, info.cls)
            except Exception:  # noqa: BLE001
                subs = []
            if len(subs) > 1:
                for sc in subs:
                    yield 'subst', xg.Plan(mode='min', present={m.name: True}, lens={m.name: 1}, subst={m.name: sc})
    for _ in range(n_rand):
        yield 'rand', xg.Plan(mode='rand')


def w_nsconfig(ctx: core.Ctx, arg, chk=None):
    """the same round trip with the namespaces handed to the writers in other ways than the default one (see NsCfg)"""
    chk = chk or Checker(ctx)
    by_key = {i.key: i for i in chk.infos}
    for key in arg['classes']:
        info = by_key[key]
        try:
            xg.props_of(info.cls)
            xg.Gen(ctx.rng('c05ns', key), chk.oracle.index).construct(info.cls)
        except Exception:  # noqa: BLE001  (reported by w_classes)
            continue
        ctx.count('ns.classes')
        cfgs = container_cfgs() if info.kind in ('state', 'descriptor') else type_cfgs()
        for cfg in cfgs:
            codec = chk.codec(info, cfg)
            if codec.cfg_applicable() is not None:
                ctx.count('ns.cfg_not_applicable(unqualified probe root)')
                continue
            gen = xg.Gen(ctx.rng('c05ns', key), chk.oracle.index)   # the same values under every configuration
            default_ns = codec.default_namespace()
            for label, plan in ns_plans(gen, info, codec.ctx, arg['n_rand']):
                try:
                    obj = gen.instance(info.cls, plan)
                except Exception:  # noqa: BLE001  (generator gaps are listed by w_classes)
                    ctx.count('ns.generator_failed')
                    continue
                if default_ns is not None and default_ns in _qname_namespaces(obj):
                    # lxml 6.1 (trusted component) crashes the process when a QName whose namespace is bound as DEFAULT namespace
                    # before any prefix is assigned to element text / an attribute - such values cannot be written at all
                    ctx.count('ns.skipped(QName value in the default namespace crashes lxml)')
                    continue
                shape = shape_of(info, label, obj)
                chk.check_value(info, obj, shape, cfg=cfg)
                ctx.case((cfg.name,) + shape)
                ctx.count(f'ns.cfg.{cfg.name}')
                ctx.count(f'ns.family.{cfg.family}')


def w_observations(ctx: core.Ctx, arg):  # noqa: ARG001
    """Behaviour that was examined and is NOT demanded by the statement of C05: recorded (verified at run time), never a witness."""
    from sdc11073.mdib import statecontainers as sc
    from sdc11073.namespaces import default_ns_helper as nsh
    from sdc11073.xml_types import addressing_types, mex_types, msg_types
    obs = []
    try:   # any-content members hand the caller's lxml elements to the written tree without copying them
        epr = addressing_types.EndpointReferenceType()
        epr.Address = 'urn:x'
        epr.ReferenceParameters = [etree.Element('{urn:verif:foreign}P')]
        first = epr.as_etree_node(nsh.WSA.tag('EndpointReference'), nsh.partial_map(nsh.WSA))
        before = etree.tostring(first)
        epr.as_etree_node(nsh.WSA.tag('EndpointReference'), nsh.partial_map(nsh.WSA))
        if etree.tostring(first) != before:
            obs.append('AnyEtreeNodeListProperty.update_xml_value moves the member elements into the new tree (no copy): writing the same '
                       'EndpointReferenceType twice empties wsa:ReferenceParameters of the tree written first; a value read with from_node '
                       'keeps live children of the source document, so writing it removes them from that document')
    except Exception as ex:  # noqa: BLE001
        obs.append(f'(observation 1 could not be evaluated: {ex!r})')
    try:   # typed setter of MetricReportPart.MetricState
        part = msg_types.MetricReportPart()
        try:
            part.MetricState = [sc.NumericMetricStateContainer(None)]
        except ValueError:
            obs.append('MetricReportPart.MetricState is declared with value_class=AbstractContextStateContainer: assigning a list of metric states '
                       'raises ValueError (the library itself only appends); see witness schema.MetricState.type.xsi_type')
    except Exception as ex:  # noqa: BLE001
        obs.append(f'(observation 2 could not be evaluated: {ex!r})')
    try:   # unknown dialect in received metadata
        body = etree.fromstring('<b><wsx:Metadata xmlns:wsx="%s"><wsx:MetadataSection Dialect="urn:unknown"/></wsx:Metadata></b>' % xo.NS['wsx'])
        try:
            mex_types.Metadata.from_node(body)
        except TypeError:
            obs.append('mex_types.Metadata.from_node raises TypeError (unpacking None) for a MetadataSection with a dialect it does not know, '
                       'instead of skipping it as the code below the unpacking intends (robustness of reading foreign input: property C13)')
    except Exception as ex:  # noqa: BLE001
        obs.append(f'(observation 3 could not be evaluated: {ex!r})')
    try:   # xsi:type of a ContainerProperty member is resolved with the declarations of the PARENT element
        from sdc11073.xml_types import msg_qnames
        pm_ns, msg_ns = xo.NS['pm'], xo.NS['msg']
        doc = etree.fromstring(f'<m:SetAlertState xmlns:m="{msg_ns}"><m:OperationHandleRef>op</m:OperationHandleRef>'
                               f'<m:ProposedAlertState xmlns:p="{pm_ns}" xmlns:xsi="{xo.XSI}" xsi:type="p:AlertSignalState" '
                               f'DescriptorHandle="d" ActivationState="On"/></m:SetAlertState>')
        assert msg_qnames.SetAlertState == doc.tag
        if not xo.oracle().validate(doc):
            try:
                msg_types.SetAlertState.from_node(doc)
            except KeyError:
                obs.append('ContainerProperty.get_py_value_from_node resolves the xsi:type QName with node.nsmap of the PARENT element: a schema-valid '
                           'msg:SetAlertState whose msg:ProposedAlertState declares the prefix used in its xsi:type on itself (as many serialisers '
                           'do) cannot be read (KeyError). ContainerListProperty uses the nsmap of the element itself. Today hidden in the '
                           "library's own round trip because its writer takes the prefix from the parent as well "
                           '(see witness ns.partial_map.xsi_type_unresolvable.child); reading foreign lexical forms: property C13')
    except Exception as ex:  # noqa: BLE001
        obs.append(f'(observation 4 could not be evaluated: {ex!r})')
    try:   # lxml crash
        obs.append('lxml 6.1.x terminates the process (segmentation fault) when a QName whose namespace is bound as the DEFAULT namespace '
                   "before any prefix (nsmap={None: ns, 'p': ns} - what NamespaceHelper(default_ns=ns).partial_map yields) is assigned to "
                   'element text or to an attribute value (NodeTextQNameProperty, NodeTextQNameListProperty, QNameAttributeProperty): not '
                   'evaluated here (it would kill the worker); values with such QNames are skipped under the default_ns configurations '
                   '(counter ns.skipped(...)); lxml is a trusted component')
    except Exception:  # noqa: BLE001, S110
        pass
    ctx.extra['observations_not_counted_as_violations'] = obs
    ctx.count('observations.evaluated', len(obs))


def dispatch(ctx: core.Ctx, job):
    globals()[job[0]](ctx, job[1])


def run(ctx: core.Ctx):
    infos = xg.enumerate_classes()
    budget = ctx.pick(150, 5000)
    ctx.rule = ('classes: every XMLTypeBase / ContainerBase subclass defined in pm_types, msg_types, eventing_types, wsd_types, addressing_types, '
                'dpws_types, mex_types, descriptorcontainers, statecontainers (reflection). Per class: directed plans (minimal, maximal, all 2^n '
                'presence masks of the optional members for n<=6 else single/pairwise, list lengths 0/1/2/5 per list member, every enum member, '
                'every registered xsi:type substitution, corner strings per string member) + seeded random fills up to the budget. '
                'distinct = (class, plan kind, per top-level member: absent / list length+item class / enum value / string length class / '
                'value class); every case writes, validates, reads and re-writes at least one element, so every case is non-trivial. '
                'Namespace configurations (w_nsconfig): per class minimal, maximal, every xsi:type substitution and some random values are '
                'round-tripped again with the namespaces handed to the writers in other ways: containers with NamespaceHelpers that use other '
                'prefixes and / or the participant model as default namespace, composed into a document by mk_node(parent_node), by '
                'SubElement+update_node, and by append(mk_state_node()) as mdibbase does; data types / messages with as_etree_node prefix maps '
                '{} / own namespace only / other prefixes / default namespace (distinct additionally by configuration). '
                'Per class once: XML with all schema-optional parts absent is read twice, compared part by part (object identity at any depth) '
                'with the other parse, a constructed instance and all class-level default objects, then one of the two values is edited in '
                'place and the other value, a later parse, a later constructed instance and the XML written for them must not change')
    ctx.extra['classes_enumerated'] = len(infos)
    ctx.extra['classes_by_module'] = {m: sum(1 for i in infos if i.module == m) for m, _ in xg.MODULES}
    # cost-balanced jobs: round-robin over classes sorted by number of members
    order = sorted(infos, key=lambda i: -len(_safe_props(i.cls)))
    njobs = 16 if ctx.quick else 48
    jobs = [['w_slice', {'classes': [i.key for i in order[k::njobs]], 'budget': budget, 'sample': k < 3, 'n_rand': ctx.pick(6, 120)}]
            for k in range(njobs)]
    jobs.append(['w_observations', {}])
    core.fanout(ctx, MODULE, 'dispatch', jobs, timeout=ctx.pick(600.0, 3000.0))
    # namespace configurations
    ctx.floor('ns.classes', int(len(infos) * 0.9))
    ctx.floor('ns.roundtrip.canon_equal', ctx.pick(5000, 80000))
    ctx.floor('ns.schema.validated', ctx.pick(4000, 60000))
    ctx.floor('ns.xsi_type.attributes_checked', ctx.pick(3000, 50000))
    ctx.floor('ns.family.other_prefixes', ctx.pick(1500, 20000))
    ctx.floor('ns.family.default_ns', ctx.pick(1500, 20000))
    ctx.floor('ns.family.partial_map', ctx.pick(1500, 20000))
    # ownership of the parts of a value that was read
    ctx.floor('shared.read_values_checked', ctx.pick(20000, 600000))
    ctx.floor('owned.classes_checked', 200)
    ctx.floor('owned.nested_parts_checked', 150)
    ctx.floor('owned.edit_probes', 150)
    ctx.floor('rewrite.same_object_compared', ctx.pick(5000, 5000))
    ctx.floor('schema_resolver.verdicts_compared', ctx.pick(8000, 250000))
    ctx.floor('classes.exercised', int(len(infos) * 0.9))
    ctx.floor('schema.validated', ctx.pick(15000, 500000))
    ctx.floor('roundtrip.canon_equal', ctx.pick(20000, 600000))
    ctx.floor('rewrite.compared', ctx.pick(20000, 600000))
    ctx.floor('lib_eq.evaluated', ctx.pick(5000, 150000))
    ctx.floor('absent.members_checked', 500)
    ctx.floor('absent.implied_checked', 100)
    ctx.assumptions += [
        'values are drawn from the schema value space: facets (enumeration, minLength, bounds, minOccurs, required) come from my own index of the '
        'bundled xsd files; Decimals have <= 18 significant digits, timestamps are whole milliseconds, durations whole microseconds '
        '(what happens beyond that resolution is property C18)',
        'a member with a default_py_value is never set to None by the generator: its absence on the wire is documented to read as the default, '
        'so None is not a distinct wire value',
        'list members are never None (the empty list is the empty value)',
        'CodedValue/Translation.CodingSystem: BICEPS documents an implied coding system; the library leaves the member None by design '
        '(not counted as a violation)',
        'ClockState.DateAndTime is rewritten with the current time on every serialisation and is excluded from all comparisons',
        'lxml / libxml2 (serialiser, parser, schema validator) are trusted',
        'namespace configurations: lxml crashes the process when a QName is written whose namespace is bound as default namespace before any '
        'prefix; values holding such a QName are skipped under the default-namespace configurations (counter ns.skipped...)',
        'namespace configurations: raw XML members (extensions, any content) are compared as infosets without prefixes; the unqualified probe '
        'root of the schema oracle is not used with {} or a default namespace (the element of a real document is in the namespace of its type)',
        'composition "append" mirrors mdibbase._reconstruct_mdib: the parent is created with nsmap=helper.ns_map and the node that '
        'mk_state_node / mk_node returned is appended (lxml drops declarations that repeat a namespace already bound by an ancestor)',
    ]


def _safe_props(cls):
    try:
        return xg.props_of(cls)
    except Exception:  # noqa: BLE001
        return []
