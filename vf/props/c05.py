"""C05 - BICEPS / WS-* data types round-trip losslessly through schema-valid XML.

For every class built from property descriptors (found by reflection over the nine type modules) the structural
generator ``vf.xmlgen`` produces values from the schema value space; each value v is

  written with the class' real writer (as_etree_node / mk_state_node / mk_node), serialised, parsed again,
  validated by the independent XSD oracle (``vf.xsdoracle``: states inside msg:GetMdStateResponse, descriptors inside a
  msg:DescriptionModificationReport part with xsi:type, messages as their global element, data types against a probe element
  of their named type), read back with the class' real ``from_node`` -> v2, written again.

Oracles:  canon(v) == canon(v2)  (``vf.canon``; additionally the library's own ``==`` where it is defined),
          C14N(xml(v)) == C14N(xml(v2)),  schema validity,  and for XML in which optional parts are absent:
          every absent member reads as what the schema documentation declares as implied value (differential: the same
          XML with the implied literal written explicitly must read equal), else as None / empty / the constructor's
          default - and never as an object that is shared with another instance.
"""
from __future__ import annotations

import re
import traceback

from lxml import etree

from .. import core
from .. import xmlgen as xg
from .. import xsdoracle as xo
from ..canon import c14n, canon, canon_diff

MODULE = 'vf.props.c05'
XSI_TYPE = '{%s}type' % xo.XSI

# XSD documents an implied value that the library deliberately does not model as a member value (recorded as assumption)
IMPLIED_NOT_MODELLED = {('CodedValue', 'CodingSystem'), ('Translation', 'CodingSystem')}


# =============================================================================================
# writing / reading one value with the real code
# =============================================================================================
class Codec:
    """How one class is written to / read from XML with the library's own entry points."""

    def __init__(self, info: xg.ClassInfo, oracle: xo.Oracle):
        from sdc11073.namespaces import default_ns_helper as nsh
        self.info = info
        self.cls = info.cls
        self.oracle = oracle
        self.nsh = nsh
        self.ctx, self.home = xg.schema_home(oracle.index, info)
        self.nsmap = nsh.partial_map(nsh.PM, nsh.MSG, nsh.EXT, nsh.XSI, nsh.WSA, nsh.WSE, nsh.WSD, nsh.DPWS, nsh.WSX)
        self.schema_mode = self._schema_mode()

    def _schema_mode(self) -> str:
        i = self.info
        if i.key == 'addressing_types.HeaderInformationBlock':
            return 'header'     # its members are the wsa:* children of s12:Header (validated there, lax)
        if self.ctx is None:
            return 'none:no schema type known for this class (validated as member of its host classes)'
        if i.kind in ('state', 'descriptor'):
            if getattr(self.cls, 'NODETYPE', None) is None:
                return 'none:abstract base container (no NODETYPE)'
            if self.ctx.abstract:
                return 'none:type is abstract in the schema'
            return i.kind
        if self.home[0] == 'child':
            return 'none:anonymous type of a child element (validated as member of its host classes)'
        if self.ctx.abstract:
            return 'none:type is abstract in the schema'
        if self.home[0] == 'element':
            return 'element'
        return 'probe'

    # ---- write -----------------------------------------------------------------------------------------
    def root_tag(self):
        if self.schema_mode == 'probe':
            return etree.QName(self.oracle.probes[self.home[1]])
        if self.schema_mode == 'element':
            return etree.QName(self.home[1])
        node_type = getattr(self.cls, 'NODETYPE', None)
        if self.info.kind == 'message':
            return node_type
        return etree.QName(xo.NS['pm'], 'Probe')

    def write(self, obj):
        """-> (document root to validate / None, node of the object itself)"""
        from sdc11073.xml_types import msg_qnames, pm_qnames
        kind = self.info.kind
        if kind == 'state':
            has_type = getattr(self.cls, 'NODETYPE', None) is not None
            node = obj.mk_state_node(pm_qnames.State, self.nsh, set_xsi_type=has_type)
            return self.oracle.wrap_state(node), node
        if kind == 'descriptor':
            has_type = getattr(self.cls, 'NODETYPE', None) is not None
            node = obj.mk_node(msg_qnames.Descriptor, self.nsh, set_xsi_type=has_type)
            return self.oracle.wrap_descriptor(node), node
        node = obj.as_etree_node(self.root_tag(), dict(self.nsmap))
        if node is None:
            return None, None
        if self.info.key == 'mex_types.Metadata':
            body = etree.Element(etree.QName(xo.NS['s12'], 'Body'), nsmap={'s12': xo.NS['s12']})
            body.append(node)
            return body, node
        return node, node

    def locate(self, doc):
        """the node of the object inside the re-parsed document"""
        kind = self.info.kind
        if kind in ('state', 'descriptor'):
            return doc[0][0]
        return doc

    def read(self, node, obj=None):
        kind = self.info.kind
        if kind == 'descriptor':
            return self.cls.from_node(node, getattr(obj, 'parent_handle', None))
        return self.cls.from_node(node)

    def validate(self, doc, node_in_doc) -> list[str]:
        mode = self.schema_mode
        if mode.startswith('none'):
            return []
        if mode == 'header':
            env = etree.Element(etree.QName(xo.NS['s12'], 'Envelope'), nsmap={'s12': xo.NS['s12'], 'wsa': xo.NS['wsa']})
            header = etree.SubElement(env, etree.QName(xo.NS['s12'], 'Header'))
            for child in self.oracle.reparse(doc):
                header.append(child)
            etree.SubElement(env, etree.QName(xo.NS['s12'], 'Body'))
            return self.oracle.validate(env)
        if self.info.key == 'mex_types.Metadata':
            return self.oracle.validate(node_in_doc, reparse=True)
        return self.oracle.validate(doc, reparse=False)


def _clock_blind(text: str) -> str:
    return re.sub(r' DateAndTime="[0-9]+"', '', text)


def _member_of_error(text: str):
    """XMLTypeBase.update_node wraps errors as 'In <Class>.<member>, ...' at every nesting level: the innermost one is the cause"""
    found = re.findall(r'In (\w+)\.(\w+),', text)
    return found[-1] if found else None


def _standalone_clean(child, nsh, nsmap) -> bool:
    """does this sub-object survive write -> read on its own?"""
    try:
        tag = etree.QName(xo.NS['pm'], 'Standalone')
        if hasattr(child, 'as_etree_node'):
            node = child.as_etree_node(tag, dict(nsmap))
            back = type(child).from_node(etree.fromstring(etree.tostring(node)))
        else:
            node = child.mk_node(tag, nsh)
            node = etree.fromstring(etree.tostring(node))
            if getattr(child, 'is_descriptor_container', False):
                back = type(child).from_node(node, child.parent_handle)
            else:
                back = type(child).from_node(node)
        return canon(child) == canon(back)
    except Exception:  # noqa: BLE001
        return False


def blame(root, path: str, nsh, nsmap) -> str:
    """'<DeclaringClass>.<member>' that is responsible for a canon difference at ``path``.

    Walk down from the root; the first sub-object on the path that round-trips cleanly *on its own* is innocent, so the
    member of its owner that holds it is to blame (e.g. ClinicalInfo.Code, which is read from the wrong element);
    otherwise descend.  A defect of an inner type is therefore reported under the inner type, whatever the host."""
    tokens = re.findall(r'[^.\[\]#]+|\[\d+\]', path.split('#')[0])
    owner = root
    i = 0
    last = (type(root), tokens[0] if tokens else '')
    while i < len(tokens):
        name = tokens[i]
        i += 1
        last = (type(owner), name)
        try:
            value = getattr(owner, name)
            while i < len(tokens) and tokens[i].startswith('['):
                value = value[int(tokens[i][1:-1])]
                i += 1
        except Exception:  # noqa: BLE001
            break
        if i >= len(tokens) or not hasattr(value, 'sorted_container_properties'):
            break
        if _standalone_clean(value, nsh, nsmap):
            break
        owner = value
    cls, member = last
    return f'{xg.declaring_class(cls, member)}.{member}'


class Checker:
    def __init__(self, ctx: core.Ctx):
        self.ctx = ctx
        self.oracle = xo.oracle()
        self.infos = xg.enumerate_classes()
        self.reg = xg.class_registry(self.infos)
        self.codecs: dict[str, Codec] = {}

    def codec(self, info) -> Codec:
        if info.key not in self.codecs:
            self.codecs[info.key] = Codec(info, self.oracle)
        return self.codecs[info.key]

    # ---- the round trip --------------------------------------------------------------------------------
    def check_value(self, info: xg.ClassInfo, obj, shape, what='value') -> dict | None:  # noqa: PLR0911, PLR0912, C901
        ctx = self.ctx
        codec = self.codec(info)
        cname = info.name
        c1 = canon(obj)
        try:
            doc, node = codec.write(obj)
        except Exception as ex:  # noqa: BLE001
            txt = ''.join(traceback.format_exception_only(type(ex), ex))
            mem = _member_of_error(txt)
            key = f'write.{xg.declaring_class(self.reg.get(mem[0], [info.cls])[-1], mem[1])}.{mem[1]}' if mem else f'write.{cname}'
            ctx.witness(key, f'writing a generated {what} of {cname} raises {type(ex).__name__}',
                        {'class': info.key, 'canon': repr(c1)[:1500], 'error': txt[-900:]})
            ctx.count('write.raised')
            return None
        if doc is None:
            ctx.count('write.returns_none')
            return None
        ctx.count('written')
        try:
            text1 = etree.tostring(doc)
            redoc = etree.fromstring(text1)
        except Exception as ex:  # noqa: BLE001
            ctx.witness(f'serialize.{cname}', f'serialising / re-parsing the written tree raises {type(ex).__name__}',
                        {'class': info.key, 'error': repr(ex)[:500], 'canon': repr(c1)[:1500]})
            return None
        node1 = codec.locate(redoc) if info.key != 'mex_types.Metadata' else redoc
        x1 = _clock_blind(c14n(redoc))   # taken now: readers hand out live child elements of this document (any-content members)
        # ---- schema ---------------------------------------------------------------------------------------
        if not codec.schema_mode.startswith('none'):
            try:
                errors = codec.validate(redoc, redoc[0] if info.key == 'mex_types.Metadata' else node1)
            except Exception as ex:  # noqa: BLE001
                errors = [f'validator raised {ex!r}']
            ctx.count('schema.validated')
            if errors:
                ctx.count('schema.rejected')
                ctx.witness(f'schema.{_schema_key(errors, info.cls)}', f'{cname}: written XML is rejected by the bundled schema: {errors[0][:200]}',
                            {'class': info.key, 'errors': errors[:4], 'xml': text1[:3000].decode('utf-8', 'replace'), 'shape': repr(shape)[:400]})
        # ---- read back ------------------------------------------------------------------------------------
        try:
            obj2 = codec.read(node1, obj)
        except Exception as ex:  # noqa: BLE001
            txt = traceback.format_exc()
            ctx.count('read.raised')
            ctx.witness(f'read.{_exc_site(ex)}', f'reading back the XML written for a {cname} raises {type(ex).__name__}',
                        {'class': info.key, 'error': txt[-1200:], 'xml': text1[:3000].decode('utf-8', 'replace')})
            return None
        ctx.count('read_back')
        c2 = canon(obj2)
        ok = True
        if c1 != c2:
            ok = False
            ctx.count('roundtrip.canon_mismatch')
            for path, left, right in canon_diff(c1, c2, limit=4):
                key_part = blame(obj, path, codec.nsh, codec.nsmap)
                ctx.witness(f'roundtrip.{key_part}', f'{cname}: member {path} changes in write -> read: {_brief(left)} -> {_brief(right)}',
                            {'class': info.key, 'path': path, 'before': repr(left)[:600], 'after': repr(right)[:600],
                             'xml': text1[:2500].decode('utf-8', 'replace')})
        else:
            ctx.count('roundtrip.canon_equal')
        # the library's own notion of equality
        try:
            lib_eq = (obj == obj2) if type(obj).__eq__ is not object.__eq__ and _eq_meaningful(obj) else None
        except RuntimeError:
            lib_eq = None
            ctx.count('lib_eq.refused(CodedValue comparison raises by design)')
        except Exception as ex:  # noqa: BLE001
            lib_eq = None
            ctx.count(f'lib_eq.raised.{type(ex).__name__}')
        if lib_eq is not None:
            ctx.count('lib_eq.evaluated')
            if lib_eq is False and c1 == c2:
                ctx.witness(f'lib_eq.{cname}', f'{cname}: canonical forms are equal but the library __eq__ says the re-read value differs',
                            {'class': info.key, 'canon': repr(c1)[:1500]})
            if lib_eq is True and c1 != c2:
                ctx.count('lib_eq.true_but_canon_differs')
        # ---- write again ------------------------------------------------------------------------------------
        try:
            doc2, _node2 = codec.write(obj2)
            redoc2 = etree.fromstring(etree.tostring(doc2))
        except Exception as ex:  # noqa: BLE001
            if ok:
                txt = ''.join(traceback.format_exception_only(type(ex), ex))
                mem = _member_of_error(txt)
                key = f'rewrite_raises.{mem[0]}.{mem[1]}' if mem else f'rewrite_raises.{cname}'
                ctx.witness(key, f'{cname}: the value read back cannot be written again ({type(ex).__name__})',
                            {'class': info.key, 'error': txt[-900:], 'xml': text1[:2500].decode('utf-8', 'replace')})
            return {'ok': False}
        x2 = _clock_blind(c14n(redoc2))
        # writing the value again must not alter the XML document written before (the value read back refers to elements of that
        # document: a writer that moves instead of copies takes them out of it - a message still queued for sending would change)
        x1_after = _clock_blind(c14n(redoc))
        ctx.count('rewrite.earlier_output_checked')
        if x1_after != x1:
            kind = _shrunk_parent_kind(x1, redoc)
            ctx.witness(f'rewrite.earlier_output_altered.{kind}',
                        f'{cname}: writing the value that was read back altered the XML document it was read from ({kind} content was moved out of it)',
                        {'class': info.key, 'before': x1[:2000], 'after': x1_after[:2000], 'diff_at': _first_diff(x1, x1_after)})
        ctx.count('rewrite.compared')
        if x1 != x2:
            ctx.count('rewrite.differs')
            if ok:  # a value difference was already reported with its member
                ctx.witness(f'rewrite.{cname}', f'{cname}: value is stable but the second XML differs from the first',
                            {'class': info.key, 'first': x1[:2500], 'second': x2[:2500], 'diff_at': _first_diff(x1, x2)})
            ok = False
        return {'ok': ok, 'xml': text1, 'obj2': obj2, 'node1': node1, 'redoc': redoc}

    # ---- absent optional parts --------------------------------------------------------------------------
    def check_absent(self, info: xg.ClassInfo, gen: xg.Gen):  # noqa: C901, PLR0912, PLR0915
        """XML with every schema-optional part absent: implied / default values, nothing shared between two parses."""
        ctx = self.ctx
        codec = self.codec(info)
        cls = info.cls
        if info.key == 'mex_types.Metadata':
            return  # its reader takes the s12:Body and builds sections by dialect; members are covered by the section classes
        try:
            obj = gen.instance(cls, xg.Plan(mode='min'))
            doc, _ = codec.write(obj)
            if doc is None:
                return
            text = etree.tostring(doc)
            doc_a = etree.fromstring(text)
            node_a = codec.locate(doc_a)
            stripped = []
            for name, prop in xg.props_of(cls):
                names = xg.mro_names(prop)
                if 'CurrentTimestampAttributeProperty' in names or not _present_in(node_a, prop, names):
                    continue
                decl = gen._decl(codec.ctx, prop, names)  # noqa: SLF001
                if decl is None or getattr(prop, '_sub_element_name', 1) is None:
                    continue
                if (decl[0] == 'attr' and not decl[2]) or (decl[0] == 'elem' and decl[1].min == 0):
                    _remove(node_a, prop, names)
                    stripped.append(name)
            if stripped and not codec.schema_mode.startswith('none'):
                if codec.validate(doc_a, node_a):
                    ctx.count('absent.stripped_xml_invalid(using unstripped)')
                    ctx.extra.setdefault('absent_stripped_xml_invalid', []).append(f'{info.key}: {stripped}')
                    doc_a = etree.fromstring(text)
            text = etree.tostring(doc_a)
            node_a = codec.locate(etree.fromstring(text))
            a = codec.read(node_a, obj)
            b = codec.read(codec.locate(etree.fromstring(text)), obj)
            fresh = gen.construct(cls)
            ca = dict(canon(a)[3])
            cfresh = dict(canon(fresh)[3])
        except Exception as ex:  # noqa: BLE001  (reported by check_value on the same plan)
            ctx.count('absent.setup_failed')
            ctx.extra.setdefault('absent_check_not_possible', []).append(f'{info.key}: {type(ex).__name__}: {str(ex)[:120]}')
            return
        ctx.count('absent.classes')
        for name, prop in xg.props_of(cls):
            names = xg.mro_names(prop)
            if 'CurrentTimestampAttributeProperty' in names or _present_in(node_a, prop, names):
                continue
            ctx.count('absent.members_checked')
            decl_cls = xg.declaring_class(cls, name)
            value = getattr(a, name)
            cv = ca[name]
            # (1) schema-documented implied value: differential against the same XML with the literal written out
            implied = _implied_literal(codec.ctx, prop, names)
            if implied is not None and (decl_cls, name) not in IMPLIED_NOT_MODELLED:
                try:
                    node_c = codec.locate(etree.fromstring(text))
                    _write_literal(node_c, prop, names, implied)
                    c_obj = codec.read(node_c, obj)
                    expected = dict(canon(c_obj)[3])[name]
                except Exception as ex:  # noqa: BLE001
                    ctx.count(f'absent.implied_literal_unreadable.{type(ex).__name__}')
                    expected = None
                if expected is not None:
                    ctx.count('absent.implied_checked')
                    if cv != expected:
                        ctx.witness(f'implied.{decl_cls}.{name}',
                                    f'{cls.__name__}.{name} absent in XML reads as {_brief(cv)}; the schema documents the implied value "{implied}" '
                                    f'(which reads as {_brief(expected)})', {'class': info.key, 'xml': text[:1500].decode('utf-8', 'replace')})
                    continue
            elif implied is not None:
                ctx.count('absent.implied_not_modelled(assumption)')
            # (2) otherwise: None / empty / what the constructor sets
            allowed = [None, ('list', ()), cfresh.get(name)]
            ctx.count('absent.default_checked')
            if cv not in allowed:
                ctx.witness(f'absent.{decl_cls}.{name}', f'{cls.__name__}.{name} absent in XML reads as {_brief(cv)}, neither None/empty nor the constructor default',
                            {'class': info.key, 'allowed': repr(allowed)[:600], 'xml': text[:1500].decode('utf-8', 'replace')})
            # (3) never a value belonging to another object
            other = getattr(b, name)
            shared_with = None
            if _mutable(value):
                if value is getattr(prop, '_default_py_value', None):
                    shared_with = 'the class-level default object (and so with every other instance parsed or created)'
                elif value is other:
                    shared_with = 'a second, independent parse of the same bytes'
                elif value is getattr(fresh, name):
                    shared_with = 'a freshly constructed instance'
            ctx.count('absent.identity_checked')
            if shared_with:
                ctx.witness(f'absent_shared.{decl_cls}.{name}',
                            f'{cls.__name__}.{name} absent in XML reads as an object that is shared with {shared_with}',
                            {'class': info.key, 'value_type': type(value).__name__, 'xml': text[:1500].decode('utf-8', 'replace')})


def _remove(node, prop, names):
    if '_AttributeBase' in names:
        an = prop._attribute_name  # noqa: SLF001
        node.attrib.pop(an.text if hasattr(an, 'text') else an, None)
        return
    sub = prop._sub_element_name  # noqa: SLF001
    for child in node.findall(sub.text if hasattr(sub, 'text') else str(sub)):
        node.remove(child)


def _eq_meaningful(obj, depth=0) -> bool:
    """XMLTypeBase.__eq__ compares member values with ==; containers (no __eq__) and raw lxml elements compare by identity,
    so the library's equality says nothing about values that contain them."""
    if depth > 12:
        return True
    for name, _prop in obj.sorted_container_properties():
        v = getattr(obj, name)
        items = v if isinstance(v, list) else [v]
        plain_list = isinstance(v, list) and type(v).__name__ != 'ExtensionLocalValue'
        for x in items:
            if isinstance(x, etree._Element):  # noqa: SLF001
                if plain_list or not isinstance(v, list):
                    return False
            elif hasattr(x, 'sorted_container_properties'):
                if not hasattr(type(x), 'as_etree_node'):   # ContainerBase
                    return False
                if not _eq_meaningful(x, depth + 1):
                    return False
    return True


def _mutable(v) -> bool:
    import enum
    from decimal import Decimal
    return not (v is None or isinstance(v, (str, int, float, bool, Decimal, enum.Enum, etree.QName, tuple, frozenset)))


def _present_in(node, prop, names) -> bool:
    if '_AttributeBase' in names:
        an = prop._attribute_name  # noqa: SLF001
        return (an.text if hasattr(an, 'text') else an) in node.attrib
    sub = getattr(prop, '_sub_element_name', None)
    if sub is None:
        return True  # the node itself
    return node.find(sub.text if hasattr(sub, 'text') else str(sub)) is not None


def _implied_literal(cctx, prop, names):
    if not isinstance(cctx, xo.Complex):
        return None
    if '_AttributeBase' in names:
        an = prop._attribute_name  # noqa: SLF001
        return cctx.implied.get(('attr', an.text if hasattr(an, 'text') else an))
    sub = getattr(prop, '_sub_element_name', None)
    if sub is None:
        return None
    return cctx.implied.get(('elem', sub.text if hasattr(sub, 'text') else str(sub)))


def _write_literal(node, prop, names, literal):
    if '_AttributeBase' in names:
        an = prop._attribute_name  # noqa: SLF001
        node.set(an.text if hasattr(an, 'text') else an, literal)
        return
    sub = prop._sub_element_name  # noqa: SLF001
    el = etree.Element(sub.text if hasattr(sub, 'text') else str(sub))
    el.text = literal
    node.insert(0, el)   # position is irrelevant for the reader (find by name); this XML is not validated


def _brief(x) -> str:
    s = repr(x)
    return s if len(s) <= 90 else s[:87] + '...'


def _shrunk_parent_kind(before_text: str, after_doc) -> str:
    """which kind of member lost children: 'Extension' (ext:Extension content) or 'AnyEtreeNode' (raw lxml element members)"""
    try:
        before = etree.fromstring(before_text.encode('utf-8') if isinstance(before_text, str) else before_text)
    except Exception:  # noqa: BLE001
        return 'unknown'

    def walk(a, b):
        ka = [c for c in a if isinstance(c.tag, str)]
        kb = [c for c in b if isinstance(c.tag, str)]
        if len(ka) != len(kb):
            return a.tag
        for x, y in zip(ka, kb):
            r = walk(x, y)
            if r:
                return r
        return None
    tag = walk(before, after_doc)
    if tag is None:
        return 'unknown'
    return 'Extension' if tag.endswith('}Extension') else 'AnyEtreeNode'


def _first_diff(a: str, b: str) -> str:
    for i, (x, y) in enumerate(zip(a, b)):
        if x != y:
            return f'@{i}: ...{a[max(0, i - 60):i + 60]!r} vs ...{b[max(0, i - 60):i + 60]!r}'
    return f'length {len(a)} vs {len(b)}'


_SCHEMA_KINDS = (('is not expected', 'unexpected_element'), ('Missing child', 'missing_child'), ('is required but missing', 'missing_attribute'),
                 ('is not allowed', 'not_allowed'), ('not a valid value of the atomic type', 'bad_atomic_value'),
                 ('not a valid value of the list type', 'bad_list_value'), ('union type', 'bad_union_value'),
                 ('is not an element of the set', 'not_in_enumeration'), ('facet', 'facet'), ('abstract', 'abstract_type'),
                 ('No matching global', 'no_global_declaration'), ('no corresponding namespace declaration', 'qname_prefix_unbound'),
                 ('xsi:type', 'xsi_type'), ('not a valid value', 'bad_value'))


def _schema_key(errors: list[str], cls: type) -> str:
    """stable mechanism key of a validation error: <offending element>[.<attribute>].<rule>.

    * the element is the root of the class under test (probe.* / State / Descriptor / the message element): the class name is
      used, and if the error names an attribute that is a member of the class, ``<DeclaringClass>.<member>``;
    * the element is the sub-element of exactly one member of the class under test: ``<DeclaringClass>.<member>``;
    * otherwise the element's local name (the error is inside a nested type, the same whatever the host)."""
    m = errors[0]
    el = re.search(r"Element '([^']*)'", m)
    at = re.search(r"attribute '([^']*)'", m)
    local = el.group(1).split(':')[-1] if el else 'unknown'
    attr = at.group(1).split(':')[-1] if at else None
    what = next((tag for needle, tag in _SCHEMA_KINDS if needle in m), 'other')
    node_type = getattr(cls, 'NODETYPE', None)
    is_root = local.startswith('probe.') or local in ('State', 'Descriptor') or (node_type is not None and local == node_type.localname)
    try:
        props = xg.props_of(cls)
    except Exception:  # noqa: BLE001
        props = []
    if is_root:
        if attr is not None:
            for name, prop in props:
                an = getattr(prop, '_attribute_name', None)
                if an is not None and (an.localname if hasattr(an, 'localname') else an) == attr:
                    return f'{xg.declaring_class(cls, name)}.{name}.{what}'
        return '.'.join(x for x in (cls.__name__, attr, what) if x)
    hits = []
    for name, prop in props:
        sub = getattr(prop, '_sub_element_name', None)
        if sub is not None and getattr(sub, 'localname', None) == local:
            hits.append(name)
    if len(hits) == 1 and what in ('bad_union_value', 'bad_atomic_value', 'bad_list_value', 'bad_value', 'facet', 'not_in_enumeration') and attr is None:
        return f'{xg.declaring_class(cls, hits[0])}.{hits[0]}.{what}'
    return '.'.join(x for x in (local, attr, what) if x)


def _exc_site(ex) -> str:
    """'<Class>.<member>.<Exc>' (raised inside a property of that class) or '<Class>.from_node.<Exc>' - innermost library frame"""
    frames = []
    tb = ex.__traceback__
    while tb is not None:
        frames.append(tb.tb_frame)
        tb = tb.tb_next
    for fr in reversed(frames):
        if '/sdc11073/' not in fr.f_code.co_filename:
            continue
        loc = fr.f_locals
        slf, inst = loc.get('self'), loc.get('instance')
        if slf is not None and inst is not None and hasattr(slf, 'update_xml_value') and hasattr(inst, 'sorted_container_properties'):
            for name, prop in inst.sorted_container_properties():
                if prop is slf:
                    return f'{xg.declaring_class(type(inst), name)}.{name}.{type(ex).__name__}'
        c = loc.get('cls')
        if isinstance(c, type) and fr.f_code.co_name == 'from_node':
            return f'{c.__name__}.from_node.{type(ex).__name__}'
    return type(ex).__name__


# =============================================================================================
# plans per class
# =============================================================================================
def plans_for(gen: xg.Gen, info: xg.ClassInfo, cctx, budget: int, rng):  # noqa: C901, PLR0912
    """directed plans (always) + random plans up to ``budget``; yields (label, Plan)"""
    mem = xg.members(gen, info.cls, cctx)
    opt = [m for m in mem if m.optional and not m.has_default]
    lists = [m for m in mem if m.is_list]
    yield 'min', xg.Plan(mode='min')
    yield 'max', xg.Plan(mode='max')
    n = 2
    # presence masks
    if len(opt) <= 6:
        for mask in range(1 << len(opt)):
            yield 'mask', xg.Plan(mode='min', present={m.name: bool(mask >> i & 1) for i, m in enumerate(opt)})
            n += 1
    else:
        for m in opt:
            yield 'single_present', xg.Plan(mode='min', present={m.name: True})
            yield 'single_absent', xg.Plan(mode='max', present={m.name: False})
            n += 2
        for i, m in enumerate(opt):          # pairwise: every pair (present, present) and (present, absent) at least once
            for m2 in opt[i + 1:]:
                if n >= budget * 0.5:
                    break
                yield 'pair', xg.Plan(mode='min', present={m.name: True, m2.name: True})
                n += 1
    # where the library's is_optional flag and the schema disagree (exact declaration of the owner type, scalar members):
    # the library's docstring says the flag "reflects if this element is optional in schema"
    for m in mem:
        if m.is_list or m.schema_optional is None or m.has_default or 'ExtensionNodeProperty' in m.names:
            continue
        if m.lib_optional and not m.schema_optional:
            yield 'lib_optional_absent', xg.Plan(mode='min', present={m.name: False}, trust={m.name: 'lib'})
            n += 1
        elif not m.lib_optional and m.schema_optional:
            yield 'schema_optional_absent', xg.Plan(mode='min', present={m.name: False}, trust={m.name: 'schema'})
            n += 1
    # list lengths
    for m in lists:
        for length in (0, 1, 2, 5):
            yield 'list_len', xg.Plan(mode='min', lens={m.name: length})
            n += 1
    # every enum member
    for m in mem:
        if m.enum is not None:
            for ev in list(m.enum):
                yield 'enum', xg.Plan(mode='min', values={m.name: ev}, present={m.name: True})
                n += 1
    # every registered substitution
    for m in mem:
        if m.is_sub and hasattr(m.prop, 'value_class'):
            try:
                subs = gen.substitutions(m.prop, m.names, info.cls)
            except Exception:  # noqa: BLE001
                subs = []
            if len(subs) > 1:
                for sc in subs:
                    yield 'subst', xg.Plan(mode='min', present={m.name: True}, lens={m.name: 1}, subst={m.name: sc})
                    n += 1
    # corner strings
    for m in mem:
        if m.is_string:
            simple = m.decl[1] if m.decl is not None and m.decl[0] in ('attr', 'text') else (
                m.decl[1].type if m.decl is not None and m.decl[0] == 'elem' and isinstance(m.decl[1].type, xo.Simple) else None)
            plain = simple is None or (simple.primitive == 'string' and not simple.enums and not simple.is_list)
            if not plain or m.names & {'AnyURIAttributeProperty', 'AnyUriTextElement'}:
                continue
            min_len = max(1 if m.names & {'HandleAttributeProperty', 'HandleRefAttributeProperty', 'CodeIdentifierAttributeProperty',
                                          'SymbolicCodeNameAttributeProperty', 'LocalizedTextRefAttributeProperty',
                                          'ExtensionAttributeProperty'} else 0, simple.min_len if simple else 0)
            for s in xg.CORNER_STRINGS:
                if len(s) >= min_len and n < budget * 3:
                    yield 'string', xg.Plan(mode='min', values={m.name: s})
                    n += 1
    # corner strings inside lists of strings (one element per list item): plain xsd:string items only
    for m in mem:
        if m.is_list and 'SubElementTextListProperty' in m.names and 'SubElementHandleRefListProperty' not in m.names:
            simple = m.decl[1].type if m.decl is not None and m.decl[0] == 'elem' and isinstance(m.decl[1].type, xo.Simple) else None
            klass = getattr(m.prop._converter._element_converter, '_klass', (str,))  # noqa: SLF001
            if klass not in ((str,), str) or (m.decl is not None and simple is None):
                continue
            if simple is not None and not (simple.primitive == 'string' and not simple.enums and not simple.is_list and simple.min_len == 0):
                continue
            hi = m.decl[1].max if m.decl is not None and m.decl[1].max is not None else 99
            for chunk in (['', 'a'], [' ', 'x\ty', 'ü中Ж'], ['<tag/>', '&amp;', ''], ['\U0001F600']):
                yield 'string_list', xg.Plan(mode='min', values={m.name: chunk[:hi]})
                n += 1
    while n < budget:
        yield 'rand', xg.Plan(mode='rand')
        n += 1


def shape_of(info, label, obj):
    """what makes a case distinct: class, plan kind, and for every top level member its presence / length / class / enum"""
    import enum
    parts = []
    for name, _prop in obj.sorted_container_properties():
        try:
            v = getattr(type(obj), name).get_actual_value(obj) if hasattr(getattr(type(obj), name), 'get_actual_value') else getattr(obj, name)
        except Exception:  # noqa: BLE001
            v = '?'
        if v is None:
            parts.append('-')
        elif isinstance(v, list):
            parts.append(f'[{len(v)}]' + (type(v[0]).__name__ if v else ''))
        elif isinstance(v, enum.Enum):
            parts.append(str(v.value))
        elif isinstance(v, str):
            parts.append('s%d%s' % (min(len(v), 9), 'u' if any(ord(ch) > 127 for ch in v) else ''))
        elif isinstance(v, (int, float, bool)) or type(v).__name__ == 'Decimal':
            parts.append(type(v).__name__[0])
        else:
            parts.append(type(v).__name__)
    return (info.key, label, tuple(parts))


# =============================================================================================
# worker
# =============================================================================================
def w_classes(ctx: core.Ctx, arg):
    chk = Checker(ctx)
    by_key = {i.key: i for i in chk.infos}
    budget = arg['budget']
    for key in arg['classes']:
        info = by_key[key]
        rng = ctx.rng('c05', key)
        gen = xg.Gen(rng, chk.oracle.index)
        codec = None
        try:
            xg.props_of(info.cls)
            codec = chk.codec(info)
            gen.construct(info.cls)
        except Exception as ex:  # noqa: BLE001
            ctx.extra.setdefault('cannot_instantiate', []).append(f'{key}: {type(ex).__name__}: {str(ex)[:200]}')
            ctx.witness(f'instantiate.{info.name}', f'{info.name} cannot be instantiated at all: {type(ex).__name__}: {str(ex)[:160]}',
                        {'class': key, 'error': traceback.format_exc()[-900:]})
            ctx.count('classes.not_instantiable')
            continue
        ctx.count('classes.exercised')
        ctx.count(f'classes.schema_mode.{codec.schema_mode.split(":")[0]}')
        if codec.schema_mode.startswith('none'):
            ctx.extra.setdefault('classes_without_standalone_schema_check', []).append(f'{key}: {codec.schema_mode[5:]}')
        done = 0
        gen_failed = set()
        for label, plan in plans_for(gen, info, codec.ctx, budget, rng):
            try:
                obj = gen.instance(info.cls, plan)
            except xg.CannotGenerate as ex:
                gen_failed.add(str(ex)[:240])
                ctx.count('generator.cannot_generate')
                continue
            except Exception as ex:  # noqa: BLE001
                gen_failed.add(f'{label}: {type(ex).__name__}: {str(ex)[:200]}')
                ctx.count('generator.raised')
                continue
            shape = shape_of(info, label, obj)
            res = chk.check_value(info, obj, shape)
            ctx.case(shape)
            ctx.count(f'plan.{label}')
            done += 1
            if res and res.get('ok') and done == 2 and arg.get('sample'):
                ctx.sample({'class': key, 'plan': label, 'xml': res['xml'][:1200].decode('utf-8', 'replace')})
        chk.check_absent(info, gen)
        for msg in sorted(gen_failed):
            ctx.extra.setdefault('generator_gaps', []).append(f'{key}: {msg}')
        ctx.count('setget.scalars_checked', gen.setget_checked)
        gen.setget_checked = 0
        for member, was_set, got in gen.setget_mismatches[:50]:
            ctx.witness(f'setget.{member}', f'{member}: the value {was_set} was assigned, the member reads {got}',
                        {'class': key, 'member': member, 'assigned': was_set, 'reads': got})
        del gen.setget_mismatches[:]
        for r in sorted(gen.setter_rejects):
            ctx.extra.setdefault('typed_setter_rejects_schema_conformant_value', []).append(r)
        for k, v in gen.strategy_use.items():
            ctx.count(f'strategy.{k}', v)
        if done == 0:
            ctx.extra.setdefault('cannot_instantiate', []).append(f'{key}: generator produced no value ({sorted(gen_failed)[:2]})')


def w_observations(ctx: core.Ctx, arg):  # noqa: ARG001
    """Behaviour that was examined and is NOT demanded by the statement of C05: recorded (verified at run time), never a witness."""
    from sdc11073.mdib import statecontainers as sc
    from sdc11073.namespaces import default_ns_helper as nsh
    from sdc11073.xml_types import addressing_types, mex_types, msg_types
    obs = []
    try:   # any-content members hand the caller's lxml elements to the written tree without copying them
        epr = addressing_types.EndpointReferenceType()
        epr.Address = 'urn:x'
        epr.ReferenceParameters = [etree.Element('{urn:verif:foreign}P')]
        first = epr.as_etree_node(nsh.WSA.tag('EndpointReference'), nsh.partial_map(nsh.WSA))
        before = etree.tostring(first)
        epr.as_etree_node(nsh.WSA.tag('EndpointReference'), nsh.partial_map(nsh.WSA))
        if etree.tostring(first) != before:
            obs.append('AnyEtreeNodeListProperty.update_xml_value moves the member elements into the new tree (no copy): writing the same '
                       'EndpointReferenceType twice empties wsa:ReferenceParameters of the tree written first; a value read with from_node '
                       'keeps live children of the source document, so writing it removes them from that document')
    except Exception as ex:  # noqa: BLE001
        obs.append(f'(observation 1 could not be evaluated: {ex!r})')
    try:   # typed setter of MetricReportPart.MetricState
        part = msg_types.MetricReportPart()
        try:
            part.MetricState = [sc.NumericMetricStateContainer(None)]
        except ValueError:
            obs.append('MetricReportPart.MetricState is declared with value_class=AbstractContextStateContainer: assigning a list of metric states '
                       'raises ValueError (the library itself only appends); see witness schema.MetricState.type.xsi_type')
    except Exception as ex:  # noqa: BLE001
        obs.append(f'(observation 2 could not be evaluated: {ex!r})')
    try:   # unknown dialect in received metadata
        body = etree.fromstring('<b><wsx:Metadata xmlns:wsx="%s"><wsx:MetadataSection Dialect="urn:unknown"/></wsx:Metadata></b>' % xo.NS['wsx'])
        try:
            mex_types.Metadata.from_node(body)
        except TypeError:
            obs.append('mex_types.Metadata.from_node raises TypeError (unpacking None) for a MetadataSection with a dialect it does not know, '
                       'instead of skipping it as the code below the unpacking intends (robustness of reading foreign input: property C13)')
    except Exception as ex:  # noqa: BLE001
        obs.append(f'(observation 3 could not be evaluated: {ex!r})')
    ctx.extra['observations_not_counted_as_violations'] = obs
    ctx.count('observations.evaluated', len(obs))


def dispatch(ctx: core.Ctx, job):
    globals()[job[0]](ctx, job[1])


def run(ctx: core.Ctx):
    infos = xg.enumerate_classes()
    budget = ctx.pick(150, 5000)
    ctx.rule = ('classes: every XMLTypeBase / ContainerBase subclass defined in pm_types, msg_types, eventing_types, wsd_types, addressing_types, '
                'dpws_types, mex_types, descriptorcontainers, statecontainers (reflection). Per class: directed plans (minimal, maximal, all 2^n '
                'presence masks of the optional members for n<=6 else single/pairwise, list lengths 0/1/2/5 per list member, every enum member, '
                'every registered xsi:type substitution, corner strings per string member) + seeded random fills up to the budget. '
                'distinct = (class, plan kind, per top-level member: absent / list length+item class / enum value / string length class / '
                'value class); every case writes, validates, reads and re-writes at least one element, so every case is non-trivial')
    ctx.extra['classes_enumerated'] = len(infos)
    ctx.extra['classes_by_module'] = {m: sum(1 for i in infos if i.module == m) for m, _ in xg.MODULES}
    # cost-balanced jobs: round-robin over classes sorted by number of members
    order = sorted(infos, key=lambda i: -len(_safe_props(i.cls)))
    njobs = 16 if ctx.quick else 48
    jobs = [['w_classes', {'classes': [i.key for i in order[k::njobs]], 'budget': budget, 'sample': k < 3}] for k in range(njobs)]
    jobs.append(['w_observations', {}])
    core.fanout(ctx, MODULE, 'dispatch', jobs, timeout=ctx.pick(600.0, 3000.0))
    ctx.floor('classes.exercised', int(len(infos) * 0.9))
    ctx.floor('schema.validated', ctx.pick(15000, 500000))
    ctx.floor('roundtrip.canon_equal', ctx.pick(20000, 600000))
    ctx.floor('rewrite.compared', ctx.pick(20000, 600000))
    ctx.floor('lib_eq.evaluated', ctx.pick(5000, 150000))
    ctx.floor('absent.members_checked', 500)
    ctx.floor('absent.implied_checked', 100)
    ctx.assumptions += [
        'values are drawn from the schema value space: facets (enumeration, minLength, bounds, minOccurs, required) come from my own index of the '
        'bundled xsd files; Decimals have <= 18 significant digits, timestamps are whole milliseconds, durations whole microseconds '
        '(what happens beyond that resolution is property C18)',
        'a member with a default_py_value is never set to None by the generator: its absence on the wire is documented to read as the default, '
        'so None is not a distinct wire value',
        'list members are never None (the empty list is the empty value)',
        'CodedValue/Translation.CodingSystem: BICEPS documents an implied coding system; the library leaves the member None by design '
        '(not counted as a violation)',
        'ClockState.DateAndTime is rewritten with the current time on every serialisation and is excluded from all comparisons',
        'lxml / libxml2 (serialiser, parser, schema validator) are trusted',
    ]


def _safe_props(cls):
    try:
        return xg.props_of(cls)
    except Exception:  # noqa: BLE001
        return []
