"""C18 - scalar XML value conversions are exact over the wire value space.

Monitors run the real converters of ``sdc11073.xml_types.dataconverters`` / ``isoduration`` and compare
with arithmetic / lexical oracles written from XSD part 2.
"""
from __future__ import annotations

import datetime
import enum
import inspect
import re
import threading
import time
from decimal import Decimal
from fractions import Fraction

from .. import core
from ..c18_wire import RX_DATE_UNION, w_foreign, w_props  # noqa: F401  (workers, reached through dispatch)

MODULE = 'vf.props.c18'

# ---- lexical recognisers, written from XSD part 2 (whitespace is collapsed by the XML processor first) ----
RX_BOOLEAN = re.compile(r'^(true|false|1|0)$')
RX_INTEGER = re.compile(r'^[+-]?[0-9]+$', re.ASCII)
RX_UNSIGNED = re.compile(r'^\+?[0-9]+$', re.ASCII)
RX_DECIMAL = re.compile(r'^[+-]?([0-9]+(\.[0-9]*)?|\.[0-9]+)$', re.ASCII)
RX_DURATION_SDPI = re.compile(r'^PT([0-9]+H)?([0-9]+M)?([0-9]+(\.[0-9]+)?S)?$', re.ASCII)


_RX_XML_WS = re.compile(r'[ \t\n\r]+')


def collapse(s: str) -> str:
    """whiteSpace = collapse of XSD part 2: only #x20 #x9 #xA #xD are white space (str.split() would also swallow U+00A0, U+2003, \\x0b ...)"""
    return _RX_XML_WS.sub(' ', s).strip(' ')


# =============================================================================================
# timestamps
# =============================================================================================
def w_timestamps(ctx: core.Ctx, arg):
    from sdc11073.xml_types.dataconverters import TimestampConverter as T
    lo, hi, step = arg['lo'], arg['hi'], arg.get('step', 1)
    to_py, to_xml = T.to_py, T.to_xml
    bad = 0
    first_bad = []
    n = 0
    for m in range(lo, hi, step):
        s = str(m)
        py = to_py(s)
        back = to_xml(py)
        n += 1
        if back != s:
            bad += 1
            if len(first_bad) < 5:
                first_bad.append({'xml': s, 'py': repr(py), 'back': back})
        elif not (isinstance(py, (int, float)) and abs(Fraction(py) - Fraction(m, 1000)) < Fraction(1, 1000)):
            ctx.witness('ts.to_py_wrong_value', 'timestamp to_py returns a value off by >= 1 ms', {'xml': s, 'py': repr(py)})
    ctx.count('ts.xml_py_xml.evaluated', n)
    ctx.case(('ts-range', lo, hi, step), n=n)
    ctx.distinct.add(core.h(('ts', lo, hi, step)))
    if bad:
        ctx.count('ts.xml_py_xml.not_identical', bad)
        ctx.witness('ts.xml_py_xml', f'millisecond timestamps do not survive XML->Python->XML ({bad} of {n} in [{lo},{hi}) step {step})',
                    {'range': [lo, hi, step], 'first': first_bad})
    if arg.get('sample'):
        ctx.sample({'kind': 'timestamp xml->py->xml', 'xml': str(lo), 'py': repr(to_py(str(lo))), 'back': to_xml(to_py(str(lo)))})


def w_timestamps_py(ctx: core.Ctx, arg):
    """Python -> XML -> Python: |delta| < 1 ms, for arbitrary float / int / Decimal second values."""
    from sdc11073.xml_types.dataconverters import TimestampConverter as T
    rng = ctx.rng('tspy', arg['i'])
    n = arg['n']
    now = 1_790_000_000.0
    for i in range(n):
        kind = rng.randrange(6)
        if kind == 0:
            x = rng.random() * 10 ** rng.randrange(0, 13)
        elif kind == 1:
            x = now + rng.random() * 1e6
        elif kind == 2:
            x = rng.randrange(0, 2 ** 53 // 1000) / 1000
        elif kind == 3:
            x = rng.randrange(0, 2 ** 40)
        elif kind == 4:
            x = Decimal(rng.randrange(0, 10 ** 15)) / Decimal(1000) + Decimal(rng.randrange(0, 1000)) / Decimal(10 ** 6)
        else:
            x = float(rng.randrange(0, 10 ** 10)) + rng.choice([0.0005, 0.9995, 0.4999, 0.001, 0.999])
        try:
            T.check_valid(x)
            s = T.to_xml(x)
            back = T.to_py(s)
        except Exception as ex:  # noqa: BLE001
            ctx.witness('ts.py_xml_py.raises', 'valid timestamp raises in to_xml/to_py', {'x': repr(x), 'ex': repr(ex)})
            continue
        ctx.count('ts.py_xml_py.evaluated')
        ctx.case(('tspy', kind, s[-4:]), n=1)
        if not RX_UNSIGNED.match(s) or s.startswith('+'):
            ctx.witness('ts.to_xml_lexical', 'timestamp written in a form that is not an xsd:unsignedLong', {'x': repr(x), 'xml': s})
        if abs(Fraction(back) - Fraction(x)) >= Fraction(1, 1000):
            ctx.witness('ts.py_xml_py', 'Python->XML->Python changes a timestamp by >= 1 ms', {'x': repr(x), 'xml': s, 'back': repr(back)})
        if i == 0:
            ctx.sample({'kind': 'timestamp py->xml->py', 'x': repr(x), 'xml': s, 'back': repr(back)})
        # the same instant in a non-canonical but valid xsd:unsignedLong form (leading zeros, '+'): read as the same value
        if i % 8 == 0:
            alt = rng.choice(['0', '00', '000', '+', '+0']) + s
            try:
                back2 = T.to_py(alt)
            except Exception as ex:  # noqa: BLE001
                ctx.witness('ts.to_py_raises', 'valid xsd:unsignedLong lexical (leading zeros / plus sign) rejected', {'xml': alt, 'ex': repr(ex)})
                continue
            ctx.count('ts.noncanonical.evaluated')
            if Fraction(back2) != Fraction(back) or T.to_xml(back2) != s:
                ctx.witness('ts.to_py_wrong_value', 'non-canonical millisecond timestamp read as a different value', {'xml': alt, 'py': repr(back2)})


# =============================================================================================
# decimals
# =============================================================================================
def _decimal_strings(rng, per_shape):
    """all (sign, digit count 1..18, exponent placement) shapes x random digit strings, in plain xsd:decimal notation."""
    for ndig in range(1, 19):
        for scale in range(-18, 19):  # value = int(digits) * 10**(-scale) ; scale>0: fraction digits
            for sign in ('', '-', '+'):
                for k in range(per_shape):
                    if k == 0:
                        digits = '1' + '0' * (ndig - 1)
                    elif k == 1:
                        digits = '9' * ndig
                    elif k == 2:
                        digits = str(rng.randrange(1, 10)) + ''.join(rng.choice('0123456789') for _ in range(ndig - 2)) + (
                            str(rng.randrange(1, 10)) if ndig > 1 else '')
                    else:
                        digits = ''.join(rng.choice('0123456789') for _ in range(ndig))
                    yield sign, digits, scale


def _plain(sign, digits, scale):
    if scale <= 0:
        return f'{sign}{digits}{"0" * (-scale)}'
    if scale >= len(digits):
        return f'{sign}0.{"0" * (scale - len(digits))}{digits}'
    return f'{sign}{digits[:-scale]}.{digits[-scale:]}'


def _sig_digits(d: Decimal) -> int:
    if d == 0:
        return 1
    t = d.normalize().as_tuple()
    digits = len(t.digits)
    # integer with trailing zeros: those zeros are digits of the lexical form too
    if t.exponent > 0:
        digits += t.exponent
    if -t.exponent > len(t.digits):
        digits = -t.exponent  # leading fraction zeros count as digits of totalDigits? no: only significant ones
        digits = len(t.digits)
    return digits


def _dec_class(s_in: str, d: Decimal) -> str:
    """mechanism class of a decimal for the known-findings key (input class, not value)."""
    t = d.as_tuple()
    py = str(d)
    if 'E' in py or 'e' in py:
        return 'python_str_uses_exponent'
    if d < 0:
        return 'negative'
    if '.' in py and len(py.split('.')[0]) + len(py.split('.')[1]) > 18:
        return 'over18chars'
    return 'plain'


def w_decimals(ctx: core.Ctx, arg):
    from sdc11073.xml_types.dataconverters import DecimalConverter as D
    rng = ctx.rng('dec', arg['i'])
    per_shape = arg['per_shape']
    first = True
    for sign, digits, scale in _decimal_strings(rng, per_shape):
        s = _plain(sign, digits, scale)
        # valid non-canonical spellings of the same number: leading zeros, '.5' for '0.5', '5.' for '5', trailing fraction zeros (the digit
        # budget of 18 is kept: zeros are only appended while the literal has at most 18 digits)
        v = rng.randrange(8)
        if v == 0:
            body = s[len(sign):]
            s = sign + '0' * rng.randrange(1, 4) + body
        elif v == 1 and s[len(sign):].startswith('0.'):
            s = sign + s[len(sign) + 1:]
        elif v == 2 and '.' not in s:
            s += '.'
        elif v == 3 and '.' in s and len(digits) < 18:
            s += '0' * rng.randrange(1, 19 - len(digits))
        if v < 4:
            ctx.count('dec.noncanonical.evaluated')
        true_val = Fraction(int(digits), 1) / (Fraction(10) ** scale) * (-1 if sign == '-' else 1)
        # statement: decimals of up to 18 digits with exponents in [-18,18]
        try:
            py = D.to_py(s)
        except Exception as ex:  # noqa: BLE001
            ctx.witness('dec.to_py_raises', 'valid xsd:decimal lexical rejected', {'xml': s, 'ex': repr(ex)})
            continue
        ctx.count('dec.xml_py.evaluated')
        if not isinstance(py, Decimal) or Fraction(py) != true_val:
            ctx.witness('dec.to_py_value', 'xsd:decimal parsed to a different numeric value', {'xml': s, 'py': repr(py)})
            continue
        try:
            D.check_valid(py)
            out = D.to_xml(py)
        except Exception as ex:  # noqa: BLE001
            ctx.witness('dec.to_xml_raises', 'to_xml raises for a valid decimal', {'py': repr(py), 'ex': repr(ex)})
            continue
        cls = _dec_class(s, py)
        ctx.count(f'dec.class.{cls}')
        ctx.case(('dec', len(digits), scale, sign, cls, digits[:1], digits[-1:]))
        if 'E' in out or 'e' in out:
            ctx.witness('dec.exponent_written', 'exponent notation written to XML', {'py': repr(py), 'xml': out})
            continue
        if not RX_DECIMAL.match(out):
            ctx.witness('dec.to_xml_lexical', 'to_xml output is not an xsd:decimal lexical', {'py': repr(py), 'xml': out})
            continue
        if Fraction(Decimal(out)) != true_val:
            ctx.witness(f'dec.value_changed.{cls}', f'decimal (<=18 digits) changes its numeric value on XML->Python->XML [{cls}]',
                        {'xml_in': s, 'py': repr(py), 'xml_out': out})
            continue
        # idempotence of the pair
        py2 = D.to_py(out)
        if py2 != py:
            ctx.witness('dec.not_idempotent', 'to_py(to_xml(to_py(s))) != to_py(s)', {'xml_in': s, 'xml_out': out})
        if first:
            ctx.sample({'kind': 'decimal xml->py->xml', 'xml_in': s, 'py': repr(py), 'xml_out': out})
            first = False
    # Python-side decimals built with exponents (what applications create): Decimal('1E-7'), Decimal(5).scaleb(3) ...
    for _ in range(arg['n_py']):
        ndig = rng.randrange(1, 19)
        coeff = rng.randrange(0, 10 ** ndig)
        exp = rng.randrange(-18, 19)
        d = Decimal(coeff).scaleb(exp) * rng.choice([1, -1])
        ctx.count('dec.py_xml_py.evaluated')
        try:
            out = D.to_xml(d)
            back = D.to_py(out)
        except Exception as ex:  # noqa: BLE001
            ctx.witness('dec.py_raises', 'to_xml/to_py raises for a Decimal', {'py': repr(d), 'ex': repr(ex)})
            continue
        cls = _dec_class('', d)
        ctx.case(('decpy', ndig, exp, cls))
        if 'E' in out or 'e' in out or not RX_DECIMAL.match(out):
            ctx.witness('dec.exponent_written', 'exponent notation / non-decimal lexical written to XML', {'py': repr(d), 'xml': out})
        elif back != d:
            ctx.witness(f'dec.value_changed.{cls}', f'decimal (<=18 digits) changes its numeric value on Python->XML->Python [{cls}]',
                        {'py': repr(d), 'xml_out': out, 'back': repr(back)})
    # boundary list
    for s in ['0', '-0', '+0', '0.0', '000', '1.', '.5', '-.5', '+1.50', '0.000000000000000001', '999999999999999999',
              '-999999999999999999', '0.123456789012345678', '-0.12345678901234567', '123456789.123456789',
              '-123456789.123456789', '100000000000000000.0', '0.0000001', '0.00000001', '-0.0000001', '1000000000000000000']:
        try:
            py = D.to_py(s)
            out = D.to_xml(py)
        except Exception as ex:  # noqa: BLE001
            ctx.witness('dec.to_py_raises', 'valid xsd:decimal lexical rejected', {'xml': s, 'ex': repr(ex)})
            continue
        ctx.count('dec.boundary.evaluated')
        ctx.case(('decb', s))
        if 'E' in out or 'e' in out or not RX_DECIMAL.match(out):
            ctx.witness('dec.exponent_written', 'exponent notation / non-decimal lexical written to XML', {'xml': s, 'out': out})
        elif Decimal(out) != Decimal(s) and len(s.replace('-', '').replace('+', '').replace('.', '').lstrip('0') or '0') <= 18:
            cls = _dec_class(s, py)
            ctx.witness(f'dec.value_changed.{cls}', f'decimal (<=18 digits) changes its numeric value on XML->Python->XML [{cls}]',
                        {'xml_in': s, 'py': repr(py), 'xml_out': out})


def w_decimal_context(ctx: core.Ctx, arg):
    """the conversions are exact whatever the arithmetic context of the calling thread is (decimal.localcontext / a changed DefaultContext that
    new threads inherit): the converters must not do context-dependent arithmetic (rounding to prec digits)."""
    import decimal
    from sdc11073.xml_types.dataconverters import DecimalConverter as D
    rng = ctx.rng('decctx', arg['i'])
    values = ['120.123456789', '1234567.25', '-0.000000123456789', '999999999999999999', '0.123456789012345678', '100', '42.00', '-7']
    for _ in range(arg['n']):
        nd = rng.randrange(1, 19)
        digits = str(rng.randrange(10 ** (nd - 1), 10 ** nd))
        scale = rng.randrange(0, nd + 1)
        values.append(_plain(rng.choice(['', '-']), digits, scale))

    from sdc11073.xml_types.dataconverters import DurationConverter as DU
    from sdc11073.xml_types.dataconverters import TimestampConverter as T
    stamps = ['1700000000.123', '1790000123.456', '0.001', '12345678.9', '9007199254740.991'] + [
        str(Decimal(rng.randrange(0, 2 ** 53 // 1000)) / 1000) for _ in range(min(arg['n'], 200))]
    spans = ['123456.789012', '0.000001', '86399.999999', '3600', '1234567.5'] + [
        str(Decimal(rng.randrange(0, 10 ** 12)) / 10 ** 6) for _ in range(min(arg['n'], 200))]

    def run_ts_dur(prec, where):
        for conv, key, texts, tol in ((T, 'ts.context_dependent', stamps, Fraction(1, 1000)), (DU, 'dur.context_dependent', spans, Fraction(1, 10 ** 6))):
            for sv in texts:
                x = Decimal(sv)                       # construction from a string is exact in every context
                try:
                    out = conv.to_xml(x)
                    back = conv.to_py(out)
                except Exception as ex:  # noqa: BLE001
                    ctx.witness(key, f'conversion of a Decimal raises under a decimal context with prec={prec}', {'x': sv, 'ex': repr(ex)[:200]})
                    break
                ctx.count(f'{key.split(".")[0]}.context.{where}.prec{prec}')
                err = abs(Fraction(back) - Fraction(x))
                if err >= tol if conv is T else err > tol:
                    ctx.witness(key, f'Python->XML->Python of a Decimal value depends on the decimal context of the calling thread (prec={prec}, {where})',
                                {'x': sv, 'xml': out, 'back': repr(back)})
                    break

    def run(prec, where):
        run_ts_dur(prec, where)
        for sv in values:
            true_val = Fraction(Decimal(sv))   # construction from a string is exact in every context
            try:
                py = D.to_py(sv)
                out = D.to_xml(py)
            except Exception as ex:  # noqa: BLE001
                ctx.witness('dec.context_dependent', f'decimal conversion raises under a decimal context with prec={prec}', {'xml': sv, 'ex': repr(ex)[:200]})
                continue
            ctx.count(f'dec.context.{where}.prec{prec}')
            if Fraction(py) != true_val or Fraction(Decimal(out)) != true_val or 'E' in out:
                ctx.witness('dec.context_dependent', f'decimal conversion depends on the decimal context of the thread (prec={prec}, {where}): the value changes',
                            {'xml_in': sv, 'py': repr(py), 'xml_out': out})
                return
    for prec in (3, 5, 9, 17, 28):
        with decimal.localcontext() as c:
            c.prec = prec
            run(prec, 'localcontext')
        ctx.case(('decctx', prec))
    # a worker thread inherits decimal.DefaultContext
    saved = decimal.DefaultContext.prec
    try:
        decimal.DefaultContext.prec = 6
        th = threading.Thread(target=run, args=(6, 'thread_default_context'))
        th.start()
        th.join(60)
    finally:
        decimal.DefaultContext.prec = saved


def w_decimal_users(ctx: core.Ctx, arg):
    """every place that writes an xsd:decimal must go through the converter: attribute, list attribute (pm:RealTimeValueType), element text.
    Values as applications build them: Decimal('1E+2'), Decimal(100).normalize(), Decimal('1E-7'), results of quantize / arithmetic."""
    from lxml import etree
    from sdc11073.xml_types import pm_types
    rng = ctx.rng('decusers', arg['i'])
    tricky = [Decimal('1E+2'), Decimal(100).normalize(), Decimal('1E-7'), Decimal('2.50E+3'), Decimal('0E-9'), Decimal('-1E+1'), Decimal(5).scaleb(3),
              Decimal('123.4500'), Decimal('1.0') * Decimal('1E+3'), Decimal('7E-12')]
    for case in range(arg['n']):
        vals = [rng.choice(tricky) if rng.random() < 0.6 else Decimal(rng.randrange(-10 ** 6, 10 ** 6)).scaleb(rng.randrange(-6, 4)) for _ in range(rng.randrange(1, 6))]
        # (a) list attribute: SampleArrayValue/@Samples
        sa = pm_types.SampleArrayValue()
        sa.Samples = list(vals)
        node = sa.as_etree_node(etree.QName('urn:vf', 'v'), {})
        text = node.get('Samples')
        ctx.count('dec.users.samples_lists')
        ctx.case(('decusers', 'samples', tuple('E' in str(v) for v in vals)))
        if text is None or 'E' in text or 'e' in text or not all(RX_DECIMAL.match(t) for t in text.split()):
            ctx.witness('dec.exponent_written.list_attribute', 'a list of decimals (Samples) is written with exponent notation / not as xsd:decimal lexicals',
                        {'values': [repr(v) for v in vals], 'xml': text})
        else:
            try:
                back = pm_types.SampleArrayValue.from_node(node).Samples
            except Exception as ex:  # noqa: BLE001
                ctx.witness('dec.users.read_back_raises', 'the library cannot read the decimal list it wrote', {'xml': text, 'ex': repr(ex)[:200]})
                back = None
            if back is not None and [Fraction(b) for b in back] != [Fraction(v) for v in vals]:
                ctx.witness('dec.value_changed.list_attribute', 'a list of decimals changes on Python->XML->Python', {'values': [repr(v) for v in vals], 'xml': text})
        # (b) attribute: Range/@Lower .. , NumericMetricValue/@Value
        v = vals[0]
        for cls, member in ((pm_types.Range, 'Lower'), (pm_types.Range, 'StepWidth'), (pm_types.NumericMetricValue, 'Value')):
            obj = cls()
            setattr(obj, member, v)
            try:
                node = obj.as_etree_node(etree.QName('urn:vf', 'v'), {})
            except Exception as ex:  # noqa: BLE001
                ctx.count(f'dec.users.write_refused.{type(ex).__name__}')
                continue
            text = node.get(member)
            ctx.count('dec.users.attributes')
            if text is None or 'E' in text or 'e' in text or not RX_DECIMAL.match(text):
                ctx.witness('dec.exponent_written.attribute', f'{cls.__name__}.{member} is written with exponent notation / not as xsd:decimal lexical',
                            {'value': repr(v), 'xml': text})
            elif Fraction(Decimal(text)) != Fraction(v):
                ctx.witness('dec.value_changed.attribute', f'{cls.__name__}.{member} changes its value when written', {'value': repr(v), 'xml': text})


# =============================================================================================
# durations
# =============================================================================================
def w_durations(ctx: core.Ctx, arg):
    from sdc11073.xml_types import isoduration
    from sdc11073.xml_types.dataconverters import DurationConverter as DC
    rng = ctx.rng('dur', arg['i'])
    tmax = datetime.timedelta.max.total_seconds()
    for i in range(arg['n']):
        kind = rng.randrange(8)
        if kind == 0:
            x = rng.randrange(0, 10 ** rng.randrange(1, 10)) / 10 ** rng.randrange(0, 7)
        elif kind == 1:
            x = rng.random() * 10 ** rng.randrange(-6, 9)
        elif kind == 2:
            x = rng.randrange(0, 400000)
        elif kind == 3:
            x = Decimal(rng.randrange(0, 10 ** 12)) / Decimal(10 ** rng.randrange(0, 7))
        elif kind == 4:
            x = rng.choice([0, 0.0, 1e-7, 4e-7, 5e-7, 6e-7, 1e-6, 59.999999, 60, 3599.999999, 3600, 86400, 86399.9999996, 0.1, 0.000001])
        elif kind == 5:
            x = rng.randrange(0, 10 ** 6) * 3600 + rng.randrange(0, 60) * 60 + rng.randrange(0, 60)
        elif kind == 6:
            x = rng.random() * tmax * 0.99
        else:
            x = rng.randrange(0, 10 ** 9) + rng.randrange(0, 10 ** 6) / 10 ** 6
        try:
            DC.check_valid(x)
            s = DC.to_xml(x)
        except Exception as ex:  # noqa: BLE001
            ctx.witness('dur.to_xml_raises', 'duration below timedelta.max raises in to_xml', {'x': repr(x), 'ex': repr(ex)})
            continue
        ctx.count('dur.py_xml_py.evaluated')
        ctx.case(('dur', kind, len(s), s[-3:]))
        if not RX_DURATION_SDPI.match(s) or s == 'PT':
            ctx.witness('dur.to_xml_lexical', 'duration string outside the SDPi duration lexical space', {'x': repr(x), 'xml': s})
            continue
        try:
            back = DC.to_py(s)
        except Exception as ex:  # noqa: BLE001
            ctx.witness('dur.roundtrip_raises', 'own duration string not parsed', {'x': repr(x), 'xml': s, 'ex': repr(ex)})
            continue
        # documented resolution: microseconds (rounded); float representation error of large values tolerated by ulp
        tol = Fraction(1, 10 ** 6) + Fraction(abs(float(x))) * Fraction(1, 2 ** 51)
        if abs(Fraction(back) - Fraction(x)) > tol:
            ctx.witness('dur.py_xml_py', 'duration changes by more than 1 us on Python->XML->Python', {'x': repr(x), 'xml': s, 'back': repr(back)})
        # XML -> Python -> XML identical for canonical strings
        s2 = DC.to_xml(back)
        if s2 != s:
            # allow only float artefacts beyond the microsecond (cannot occur after canonical writing below 2**33 s)
            if abs(Fraction(DC.to_py(s2)) - Fraction(back)) > tol:
                ctx.witness('dur.xml_py_xml', 'canonical duration string not stable', {'xml': s, 'back': repr(back), 'xml2': s2})
            else:
                ctx.count('dur.xml_py_xml.float_artefact')
        if i == 0:
            ctx.sample({'kind': 'duration', 'x': repr(x), 'xml': s, 'back': repr(back)})
    # lexical: hand-built valid strings -> value by arithmetic
    for i in range(arg['n']):
        hh = rng.choice([None, rng.randrange(0, 100000)])
        mm = rng.choice([None, rng.randrange(0, 1000)])
        ss = rng.choice([None, rng.randrange(0, 100000)])
        frac = rng.choice([None, ''.join(rng.choice('0123456789') for _ in range(rng.randrange(1, 9)))]) if ss is not None else None
        if hh is None and mm is None and ss is None:
            continue
        s = 'PT' + (f'{hh}H' if hh is not None else '') + (f'{mm}M' if mm is not None else '') + (
            (f'{ss}' + (f'.{frac}' if frac else '') + 'S') if ss is not None else '')
        want = Fraction(hh or 0) * 3600 + Fraction(mm or 0) * 60 + Fraction(ss or 0) + (Fraction(int(frac), 10 ** len(frac)) if frac else 0)
        try:
            got = DC.to_py(s)
        except Exception as ex:  # noqa: BLE001
            ctx.witness('dur.to_py_raises', 'valid SDPi duration rejected', {'xml': s, 'ex': repr(ex)})
            continue
        ctx.count('dur.xml_py.evaluated')
        ctx.case(('durx', hh is None, mm is None, ss is None, frac and len(frac)))
        if abs(Fraction(got) - want) > Fraction(1, 10 ** 6) + want * Fraction(1, 2 ** 51):
            ctx.witness('dur.to_py_value', 'duration parsed to a value off by more than 1 us', {'xml': s, 'got': repr(got), 'want': str(want)})
    for s in _duration_negatives(rng):
        if RX_DURATION_SDPI.match(collapse(s)) and collapse(s) != 'PT':
            continue  # differs from a valid literal only by XML whitespace, which the XML processor collapses
        ctx.count('lex.duration.negatives')
        try:
            got = DC.to_py(s)
        except (ValueError, TypeError, ArithmeticError):
            ctx.count('lex.duration.rejected')
            continue
        except Exception as ex:  # noqa: BLE001
            ctx.count('lex.duration.rejected_other')
            continue
        ctx.witness('lex.duration.accepts_invalid', 'string outside the duration lexical space coerced to a value', {'xml': s, 'got': repr(got)})


def _duration_negatives(rng):
    base = ['', 'PT', 'P', 'T1S', 'PT1', 'PT-1S', '-PT1S', 'PT1.S', 'PT.5S', 'PT1,5S', 'PT1S ', 'pt1s', 'PT1s', 'PT1M1H', 'PT1S1M',
            'P1D', 'P1DT1S', 'P1Y', 'PT1_0S', 'PT١S', 'PT1.5M', 'PT1.5H', 'PT1H1.5', 'PT1e3S', 'PTS', 'PT+1S', 'PT 1S', 'PT1S\n',
            'PT1SX', 'XPT1S', 'PT１S', 'PT1H2', 'PT1.2.3S', 'PTNaNS', 'PTINFS', 'P0', '1', 'true']
    for s in base:
        yield s
    for _ in range(60):
        s = list(rng.choice(['PT1H2M3.5S', 'PT10S', 'PT5M', 'PT0.001S', 'PT12H']))
        op = rng.randrange(3)
        pos = rng.randrange(len(s) + 1)
        if op == 0 and s:
            del s[min(pos, len(s) - 1)]
        elif op == 1:
            s.insert(pos, rng.choice('PTHMS.-+ _eE,x١'))
        else:
            if s:
                s[min(pos, len(s) - 1)] = rng.choice('PTHMS.-+ _eE,x١')
        t = ''.join(s)
        if not RX_DURATION_SDPI.match(t) or t == 'PT':
            yield t


# =============================================================================================
# date / dateTime union
# =============================================================================================
def _days_in_month(y, m):
    if m == 2:
        leap = (y % 4 == 0 and y % 100 != 0) or y % 400 == 0
        return 29 if leap else 28
    return 30 if m in (4, 6, 9, 11) else 31


def w_dates(ctx: core.Ctx, arg):
    from sdc11073.xml_types import isoduration
    rng = ctx.rng('date', arg['i'])
    # directed: date/time values as an application constructs them - int seconds (also multiples of ten), float seconds whose repr() uses
    # an exponent, seconds next to the minute; every time zone class
    utc = datetime.timezone.utc
    for sec in (0, 1, 9, 10, 20, 30, 40, 50, 59, 0.0, 10.0, 7.5, 1e-05, 5e-07, 1e-06, 2.5e-05, 9.999999, 59.999999, 0.000123):
        for tzi in (None, utc, datetime.timezone(datetime.timedelta(hours=5, minutes=30)), datetime.timezone(-datetime.timedelta(minutes=30))):
            ctx.count('date.py_xml_py.directed')
            ctx.case(('date-directed', repr(sec), repr(tzi)))
            try:
                built = isoduration.XsdDateInformation(2024, 2, 29, 23, 59, sec, tz_info=tzi)
                text = str(built)
                if not RX_DATE_UNION.match(text):
                    ctx.witness('date.to_xml_lexical', 'date/time written in a form outside the xsd date / dateTime / gYearMonth / gYear union',
                                {'second': repr(sec), 'out': text})
                    continue
                back = isoduration.parse_date_time(text)
            except Exception as ex:  # noqa: BLE001
                ctx.witness('date.py_xml_py', 'a constructed date/time value cannot be written and read back', {'second': repr(sec), 'ex': repr(ex)[:200]})
                continue
            if (back.year, back.month, back.day, back.hour, back.minute, back.tz_info) != (2024, 2, 29, 23, 59, tzi) or \
                    abs(Fraction(back.second) - Fraction(sec)) > Fraction(1, 10 ** 6):
                ctx.witness('date.py_xml_py', 'a constructed date/time value does not round-trip (py->xml->py)',
                            {'second': repr(sec), 'xml': text, 'read_back': repr(back)})
    for i in range(arg['n']):
        year = rng.choice([rng.randrange(1, 10000), rng.randrange(1900, 2100), rng.randrange(10000, 200000), -rng.randrange(1, 10000), 1, 9999])
        shape = rng.randrange(5)  # gYear, gYearMonth, date, dateTime, dateTime eod
        sign = '-' if year < 0 else ''
        s = f'{sign}{abs(year):04d}'
        month = day = None
        if shape >= 1:
            month = rng.randrange(1, 13)
            s += f'-{month:02d}'
        if shape >= 2:
            day = rng.randrange(1, _days_in_month(abs(year), month) + 1)
            s += f'-{day:02d}'
        frac = None
        canonical = True   # canonical strings must come back identical, the others with the same value (documented resolution: 1 us)
        fkind = 0
        if shape == 3:
            hh, mi, se = rng.randrange(24), rng.randrange(60), rng.randrange(60)
            fkind = rng.randrange(6)
            if fkind in (1, 2, 3):
                frac = ''.join(rng.choice('0123456789') for _ in range(rng.randrange(1, 7))).rstrip('0') or None
            elif fkind == 4:      # trailing zeros: same value, other spelling
                frac = ''.join(rng.choice('0123456789') for _ in range(rng.randrange(1, 6))) + '0' * rng.randrange(1, 4)
                canonical = False
            elif fkind == 5:      # more digits than the resolution
                frac = ''.join(rng.choice('0123456789') for _ in range(rng.randrange(7, 16)))
                canonical = False
            s += f'T{hh:02d}:{mi:02d}:{se:02d}' + (f'.{frac}' if frac else '')
        if shape == 4:
            eod_frac = rng.choice(['', '', '.0', '.000'])
            canonical = not eod_frac
            s += 'T24:00:00' + eod_frac
        tz = rng.randrange(5)
        if tz == 1:
            s += 'Z'
        elif tz in (2, 3):
            th = rng.randrange(0, 15)
            tm = 0 if th == 14 else rng.randrange(0, 60)
            if th == 0 and tm == 0:
                s += 'Z'
            else:
                s += f'{"+" if tz == 2 else "-"}{th:02d}:{tm:02d}'
        try:
            info = isoduration.parse_date_time(s)
            out = str(info)
        except Exception as ex:  # noqa: BLE001
            ctx.witness('date.parse_raises', 'valid xsd date/dateTime/gYear/gYearMonth rejected', {'xml': s, 'ex': repr(ex)})
            continue
        ctx.count('date.xml_py_xml.evaluated')
        ctx.case(('date', shape, tz, fkind, frac and len(frac), year < 0, abs(year) > 9999))
        ok_fields = (info.year == year and info.month == month and info.day == day)
        if shape == 3:
            exact_sec = Fraction(se) + (Fraction(int(frac), 10 ** len(frac)) if frac else 0)
            ok_fields = ok_fields and (info.hour, info.minute) == (hh, mi) and abs(Fraction(info.second) - exact_sec) <= Fraction(1, 10 ** 6)
        if shape == 4:
            ok_fields = ok_fields and info.end_of_day is True
        if not ok_fields:
            ctx.witness('date.fields', 'parsed date fields differ from the lexical value', {'xml': s, 'info': repr(info)})
        if not RX_DATE_UNION.match(out):
            ctx.witness('date.to_xml_lexical', 'date/time written in a form outside the xsd date / dateTime / gYearMonth / gYear union', {'xml': s, 'out': out})
        elif not canonical:
            ctx.count('date.xml_py_xml.noncanonical')
            try:
                info2 = isoduration.parse_date_time(out)
            except Exception as ex:  # noqa: BLE001
                ctx.witness('date.xml_py_xml', 'date/time value written by the library is not read back', {'xml': s, 'out': out, 'ex': repr(ex)})
                continue
            same = (info2.year, info2.month, info2.day, info2.hour, info2.minute, info2.end_of_day, info2.tz_info) == (
                info.year, info.month, info.day, info.hour, info.minute, info.end_of_day, info.tz_info)
            if shape == 3:
                same = same and abs(Fraction(info2.second) - exact_sec) <= Fraction(1, 10 ** 6)
            if not same:
                ctx.witness('date.xml_py_xml', 'date/time value does not round-trip within the microsecond resolution', {'xml': s, 'out': out})
        elif out != s:
            ctx.witness('date.xml_py_xml', 'date/time value does not round-trip identically', {'xml': s, 'out': out})
        else:
            info2 = isoduration.parse_date_time(out)
            if info2 != info:
                ctx.witness('date.py_xml_py', 'date/time value does not round-trip (py->xml->py)', {'xml': s})
        if i == 0:
            ctx.sample({'kind': 'date union', 'xml': s, 'parsed': repr(info), 'out': out})
        # Python -> XML -> Python with a value the application constructs itself (seconds as int or float, whole or fractional)
        if shape == 3:
            sec_variants = [se, float(se)] + ([float(f'{se}.{frac}')] if frac else [])
            for sec in sec_variants:
                try:
                    built = isoduration.XsdDateInformation(year, month, day, hh, mi, sec, tz_info=info.tz_info)
                    text = str(built)
                    back = isoduration.parse_date_time(text)
                except Exception as ex:  # noqa: BLE001
                    ctx.witness('date.py_xml_py', 'a constructed date/time value cannot be written and read back',
                                {'fields': [year, month, day, hh, mi, repr(sec)], 'ex': repr(ex)[:200]})
                    continue
                ctx.count(f'date.py_xml_py.constructed.{type(sec).__name__}')
                same = (back.year, back.month, back.day, back.hour, back.minute) == (year, month, day, hh, mi) and \
                    abs(float(back.second) - float(sec)) < 1e-6 and back.tz_info == built.tz_info
                if not same:
                    ctx.witness('date.py_xml_py', 'a constructed date/time value does not round-trip (py->xml->py)',
                                {'fields': [year, month, day, hh, mi, repr(sec)], 'xml': text, 'read_back': repr(back)})
    negatives = ['', '99', '999', '02020', '2020-13', '2020-00', '2020-1', '2020-01-32', '2020-01-00', '2020-01-01T', '2020-01-01T25:00:00',
                 '2020-01-01T24:00:01', '2020-01-01T23:60:00', '2020-01-01T23:59:60', '2020-01-01T1:00:00', '2020-01-01 10:00:00',
                 '2020-01-01T10:00', '2020-01-01T10:00:00+15:00', '2020-01-01T10:00:00+14:01', '2020-01-01T10:00:00+1:00',
                 '2020-01-01T10:00:00z', '2020-01-01T10:00:00.', '2020-01-01t10:00:00', '+2020', '2020-', '2020-01-', '2020Z0',
                 '２０２０', '2020-01-01T10:00:00+0100', '2020-01T10:00:00', '2020T10:00:00', '0000x', 'NaN', '2020-01-01T10:00:00Z ',
                 '2020-1_0', '2020-01-01T10:00:00.5e1', '2٠20', '2020-٠1', '2020-01-01T10:00:00.٥', '2020-01-01T1٠:00:00']
    for s in negatives:
        if s != collapse(s):
            continue
        ctx.count('lex.date.negatives')
        try:
            got = isoduration.parse_date_time(s)
        except (ValueError, TypeError):
            ctx.count('lex.date.rejected')
            continue
        ctx.witness('lex.date.accepts_invalid', 'string outside the date/time lexical space accepted', {'xml': s, 'got': repr(got)})


# =============================================================================================
# booleans, integers, enums + lexical negatives
# =============================================================================================
def _mutants(rng, seeds, alphabet, n):
    for _ in range(n):
        s = list(rng.choice(seeds))
        op = rng.randrange(3)
        pos = rng.randrange(len(s) + 1)
        if op == 0 and s:
            del s[min(pos, len(s) - 1)]
        elif op == 1:
            s.insert(pos, rng.choice(alphabet))
        elif s:
            s[min(pos, len(s) - 1)] = rng.choice(alphabet)
        yield ''.join(s)


# characters that Python's str.strip() / int() / Decimal() tolerate and XML Schema does not (the complete classes are enumerated by
# c18_wire.w_foreign; here they take part in the random mutation grammar)
_FOREIGN = '\u00a0\u0085\u2003\u2028\u3000\u200b\ufeff\x0b\x0c\x1f\u2212'


def w_lexical(ctx: core.Ctx, arg):
    from sdc11073.xml_types import dataconverters as dc
    rng = ctx.rng('lex', arg['i'])
    n = arg['n']
    # --- booleans -------------------------------------------------------------
    for s, want in (('true', True), ('false', False), ('1', True), ('0', False)):
        got = dc.BooleanConverter.to_py(s)
        ctx.count('bool.valid.evaluated')
        ctx.case(('bool', s))
        if got is not want:
            ctx.witness('bool.value', 'boolean literal mapped to the wrong value', {'xml': s, 'got': repr(got)})
        back = dc.BooleanConverter.to_xml(got)
        if dc.BooleanConverter.to_py(back) is not want or back not in ('true', 'false'):
            ctx.witness('bool.roundtrip', 'boolean does not round trip', {'xml': s, 'back': back})
    bool_neg = ['', 'True', 'TRUE', 'False', 'FALSE', 'yes', 'no', 'banana', '2', '-1', '00', '01', 'tru', 'truee', 't', 'f', 'on', 'off',
                'null', 'None', '１', 'true false', '1.0', '0.0']
    for s in bool_neg + list(_mutants(rng, ['true', 'false', '1', '0'], 'truefalsTF10 _x' + _FOREIGN, n // 4)):
        if RX_BOOLEAN.match(collapse(s)):
            continue
        ctx.count('lex.boolean.negatives')
        ctx.case(('boolneg', s))
        try:
            got = dc.BooleanConverter.to_py(s)
        except (ValueError, TypeError):
            ctx.count('lex.boolean.rejected')
            continue
        ctx.witness('lex.boolean.accepts_invalid', 'string that is no xsd:boolean literal is coerced to a boolean', {'xml': s, 'got': repr(got)})
    # --- integers -------------------------------------------------------------
    for conv_name in ('IntegerConverter', 'UnsignedIntConverter', 'UnsignedLongConverter'):
        conv = getattr(dc, conv_name)
        unsigned = conv_name != 'IntegerConverter'
        for i in range(n):
            mag = rng.randrange(0, 10 ** rng.randrange(1, 21))
            if rng.random() < 0.1:
                mag = rng.choice([0, 1, 2 ** 31 - 1, 2 ** 31, 2 ** 32 - 1, 2 ** 32, 2 ** 63 - 1, 2 ** 63, 2 ** 64 - 1, 2 ** 64])
            sign = rng.choice(['', '+']) if unsigned else rng.choice(['', '+', '-'])
            s = sign + '0' * rng.choice([0, 0, 1, 3]) + str(mag)
            want = -mag if sign == '-' else mag
            try:
                got = conv.to_py(s)
            except Exception as ex:  # noqa: BLE001
                ctx.witness('int.to_py_raises', 'valid xsd integer lexical rejected', {'conv': conv_name, 'xml': s, 'ex': repr(ex)})
                continue
            ctx.count('int.valid.evaluated')
            ctx.case(('int', conv_name, len(s), sign, s[:1]))
            if got != want or isinstance(got, bool) or not isinstance(got, int):
                ctx.witness('int.value', 'integer parsed to a different value', {'conv': conv_name, 'xml': s, 'got': repr(got)})
                continue
            out = conv.to_xml(got)
            if not RX_INTEGER.match(out) or int(out) != want:
                ctx.witness('int.roundtrip', 'integer not written back exactly', {'conv': conv_name, 'xml': s, 'out': out})
        int_neg = ['', ' ', '1_0', '1_000', '١٢٣', '１２', '1.0', '1e3', '0x10', '0b1', '0o7', '--1', '+-1', '1-', 'NaN', 'INF', '-INF', 'abc',
                   '1 2', '1,000', '+', '-', 'True', '½', '1 2', ' 12', '1_']
        for s in int_neg + list(_mutants(rng, ['12345', '-7', '+42', '0', '18446744073709551615'], '0123456789+-_ .eExE١１' + _FOREIGN, n // 4)):
            if RX_INTEGER.match(collapse(s)):
                continue
            ctx.count('lex.integer.negatives')
            ctx.case(('intneg', conv_name, s))
            try:
                got = conv.to_py(s)
            except (ValueError, TypeError):
                ctx.count('lex.integer.rejected')
                continue
            ctx.witness('lex.integer.accepts_invalid', 'string outside the xsd:integer lexical space is coerced to an integer',
                        {'conv': conv_name, 'xml': s, 'got': repr(got)})
    # --- decimals (lexical negatives) --------------------------------------------
    dec_neg = ['', ' ', 'NaN', 'nan', 'sNaN', 'INF', '-INF', 'Infinity', '-Infinity', '1e3', '1E3', '1E-7', '1_0', '1_0.5', '١.٥', '1,5', '1.2.3',
               '+', '-', '.', '-.', '0x1', 'abc', '1 2', '--1', '１.５', '1.5f', 'Inf', '+inf', '1e', 'e1']
    for s in dec_neg + list(_mutants(rng, ['12.345', '-0.5', '+42', '0', '.5', '1.'], '0123456789+-_ .eEnNaIFx١１,' + _FOREIGN, n // 3)):
        if RX_DECIMAL.match(collapse(s)):
            continue
        ctx.count('lex.decimal.negatives')
        ctx.case(('decneg', s))
        try:
            got = dc.DecimalConverter.to_py(s)
        except (ValueError, TypeError, ArithmeticError):
            ctx.count('lex.decimal.rejected')
            continue
        ctx.witness('lex.decimal.accepts_invalid', 'string outside the xsd:decimal lexical space is coerced to a number',
                    {'xml': s, 'got': repr(got)})
    # --- timestamps (lexical negatives; xsd:unsignedLong) ---------------------------------
    ts_neg = ['', '-1', '1.5', '1e3', '1_0', '١٢', 'NaN', '12 34', '0x1', '-0001', 'abc', '1_000_000', '1700000000123\u00a0', '\u20031700000000123',
              '17\u00a000', '1700000000123\u200b', '\u22121']
    for s in ts_neg + list(_mutants(rng, ['1700000000123', '0', '86400000', '+5'], '0123456789+-_ .eEx١１' + _FOREIGN, n // 4)):
        if RX_UNSIGNED.match(collapse(s)) or re.fullmatch(r'-0+', collapse(s)):
            continue  # '-0' is in the lexical space of xsd:unsignedLong
        ctx.count('lex.timestamp.negatives')
        ctx.case(('tsneg', s))
        try:
            got = dc.TimestampConverter.to_py(s)
        except (ValueError, TypeError):
            ctx.count('lex.timestamp.rejected')
            continue
        ctx.witness('lex.timestamp.accepts_invalid', 'string outside the timestamp lexical space (xsd:unsignedLong) is coerced',
                    {'xml': s, 'got': repr(got)})
    # --- enums: every member of every enum class used by an EnumConverter ------------------------
    enum_classes = _enum_classes()
    ctx.extra['enum_classes'] = len(enum_classes)
    for cls in enum_classes:
        conv = dc.EnumConverter(cls)
        literals = set()
        for member in cls:
            lit = conv.to_xml(member)
            literals.add(lit)
            ctx.count('enum.members.evaluated')
            ctx.case(('enum', cls.__name__, member.name))
            try:
                back = conv.to_py(lit)
            except Exception as ex:  # noqa: BLE001
                ctx.witness('enum.roundtrip_raises', 'enum literal written by the library is not read back', {'cls': cls.__name__, 'lit': repr(lit), 'ex': repr(ex)})
                continue
            if back is not member:
                ctx.witness('enum.roundtrip', 'enum member -> literal -> member is not the identity', {'cls': cls.__name__, 'member': member.name})
            if not isinstance(lit, str):
                ctx.witness('enum.literal_type', 'enum literal is not a string', {'cls': cls.__name__, 'member': member.name})
        for lit in list(literals):
            if not isinstance(lit, str):
                continue
            for bad in {lit.upper(), lit.lower(), lit.swapcase(), lit + ' x', lit[:-1], 'x' + lit, ''} - literals:
                ctx.count('lex.enum.negatives')
                try:
                    got = conv.to_py(bad)
                except (ValueError, KeyError, TypeError):
                    ctx.count('lex.enum.rejected')
                    continue
                ctx.witness('lex.enum.accepts_invalid', 'unknown enum literal accepted', {'cls': cls.__name__, 'lit': bad, 'got': repr(got)})


def _enum_classes():
    import sdc11073.xml_types.pm_types as pm
    import sdc11073.xml_types.msg_types as msg
    import sdc11073.xml_types.eventing_types as ev
    import sdc11073.xml_types.wsd_types as wsd
    import sdc11073.xml_types.addressing_types as wsa
    import sdc11073.xml_types.dpws_types as dpws
    import sdc11073.xml_types.mex_types as mex
    import sdc11073.mdib.descriptorcontainers as dcs
    import sdc11073.mdib.statecontainers as scs
    from sdc11073.xml_types import xml_structure as xs
    from sdc11073.xml_types.dataconverters import EnumConverter, ListConverter
    found = {}
    for mod in (pm, msg, ev, wsd, wsa, dpws, mex, dcs, scs):
        for _, cls in inspect.getmembers(mod, inspect.isclass):
            for klass in cls.__mro__:
                for name, prop in vars(klass).items():
                    conv = getattr(prop, '_converter', None)
                    if isinstance(conv, ListConverter):
                        conv = getattr(conv, '_element_converter', None)
                    if isinstance(conv, EnumConverter):
                        k = conv._klass
                        if isinstance(k, type) and issubclass(k, enum.Enum):
                            found[k.__module__ + '.' + k.__name__] = k
    return [found[k] for k in sorted(found)]


# =============================================================================================
def run(ctx: core.Ctx):
    ctx.rule = ('timestamps: every integer ms in the listed ranges (exhaustive windows) + seeded samples up to 2^53/1000; decimals: every '
                '(sign, digit count 1..18, scale -18..18) shape x k digit strings; durations / dates / integers / booleans / enum members from '
                'seeded generators, lexical negatives from a mutation grammar.  distinct = hash of (kind, shape class) resp. range id; '
                'non-trivial = the converter was executed on the case')
    q = ctx.quick
    now_ms = 1_790_000_000_000
    jobs = []
    # exhaustive window from 0 and a dense window around the current epoch; split in 16 ranges each
    lo_n = 2_000_000 if q else 20_000_000
    now_n = 1_000_000 if q else 10_000_000
    nsplit = 16
    for k in range(nsplit):
        jobs.append(('w_timestamps', {'lo': k * lo_n // nsplit, 'hi': (k + 1) * lo_n // nsplit, 'sample': k == 0}))
        jobs.append(('w_timestamps', {'lo': now_ms + k * now_n // nsplit, 'hi': now_ms + (k + 1) * now_n // nsplit}))
    # sampled beyond, up to 2**53/1000 s  (= 2**53 ms)
    for k in range(8):
        start = ctx.rng('tsfar', k).randrange(0, 2 ** 53 // 1000 - 10 ** 10)
        jobs.append(('w_timestamps', {'lo': start, 'hi': start + (100_000 if q else 1_000_000) * 7919, 'step': 7919}))
    for k in range(4 if q else 16):
        jobs.append(('w_timestamps_py', {'i': k, 'n': 20_000 if q else 200_000}))
    for k in range(4 if q else 16):
        jobs.append(('w_decimals', {'i': k, 'per_shape': 3 if q else 80, 'n_py': 5_000 if q else 100_000}))
        jobs.append(('w_decimal_context', {'i': k, 'n': 200 if q else 5000}))
        jobs.append(('w_decimal_users', {'i': k, 'n': 300 if q else 10000}))
    for k in range(2 if q else 16):
        jobs.append(('w_durations', {'i': k, 'n': 10_000 if q else 100_000}))
        jobs.append(('w_dates', {'i': k, 'n': 10_000 if q else 100_000}))
    for k in range(2 if q else 8):
        jobs.append(('w_lexical', {'i': k, 'n': 2_000 if q else 20_000}))
    # characters Python tolerates and XML Schema does not (complete classes), and every declared scalar property over real XML text
    for k in range(1 if q else 4):
        jobs.append(('w_foreign', {'i': k, 'digit_stride': 9 if q else 2}))
    for k in range(2 if q else 16):
        jobs.append(('w_props', {'i': k, 'n': 12 if q else 60}))
    ctx.extra['timestamp_windows_exhaustive'] = [[0, lo_n], [now_ms, now_ms + now_n]]
    core.fanout(ctx, MODULE, 'dispatch', [list(j) for j in jobs])
    for name, floor in (('ts.xml_py_xml.evaluated', lo_n + now_n), ('ts.py_xml_py.evaluated', 1000), ('dec.xml_py.evaluated', 1000),
                        ('dur.py_xml_py.evaluated', 1000), ('date.xml_py_xml.evaluated', 1000), ('enum.members.evaluated', 100),
                        ('lex.boolean.negatives', 10), ('lex.integer.negatives', 10), ('lex.decimal.negatives', 10), ('lex.timestamp.negatives', 10),
                        ('lex.foreign.negatives.space', 1000), ('lex.foreign.negatives.digit', 1000), ('lex.xmlspace.accepted', 50),
                        ('props.py_xml_py.evaluated', 1000), ('props.xml_py.evaluated', 1000), ('lex.props.negatives', 1000),
                        ('lex.props.negatives.space', 50), ('props.decimal.list_attribute', 1), ('props.integer.text_list', 1),
                        ('props.date.element_text', 1), ('date.py_xml_py.directed', 50), ('date.xml_py_xml.noncanonical', 100),
                        ('dec.noncanonical.evaluated', 1000), ('ts.noncanonical.evaluated', 1000), ('ts.context.localcontext.prec28', 5),
                        ('dur.context.localcontext.prec28', 5)):
        ctx.floor(name, floor)
    ctx.assumptions += ['white space collapsing: a literal padded only with XML white space (#x20 #x9 #xA #xD) is not a negative (accepting it is allowed, then the '
                        'value must be exact; rejecting it is not counted as a violation); every other character, also one that Python calls white space, '
                        'makes the literal a negative',
                        'DecimalConverter.USE_DECIMAL_TYPE = False (float mode, not the default, lossy by construction) is not driven',
                        'float second values are compared as exact rationals (Fraction)']


def dispatch(ctx: core.Ctx, job):
    globals()[job[0]](ctx, job[1])
