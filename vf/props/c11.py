"""C11 - every lookup always agrees with a scan of the stored objects.

(1) table level: random operation sequences on real MultiKeyLookup tables (unique / multi / 1:n / none-skipping indices, small
    key alphabet) with index_vs_scan deployed as an icontract class invariant (every public method exit) and as explicit walker;
    a reference membership model decides which objects must be in the table; rejected inserts must leave the table untouched.
(2) MDIB level: provider transactions and consumer report processing that change indexed attributes, walker at quiescent points
    (see vf.mdibharness; added by run_mdib_level).
"""
from __future__ import annotations

from .. import core
from ..tablewalk import index_vs_scan, table_snapshot

MODULE = 'vf.props.c11'


class Obj:
    __slots__ = ('a', 'b', 'c', 'd', 'name', '__weakref__')

    def __init__(self, name, a, b, c, d):
        self.name, self.a, self.b, self.c, self.d = name, a, b, c, d

    def __repr__(self):
        return f'Obj({self.name}, a={self.a!r}, b={self.b!r}, c={self.c!r}, d={self.d!r})'


class InvariantBroken(Exception):
    pass


_STATE = {'dirty': False, 'evals': 0, 'installed': False}


def _lookups_agree_with_scan(self):
    _STATE['evals'] += 1
    if _STATE['dirty']:
        return True  # the harness changed attributes and has not yet called update_object: transient by design
    return not index_vs_scan(self)


def install_invariant():
    """icontract class invariant on the real MultiKeyLookup (harness side, no repo edit)."""
    if _STATE['installed']:
        return True
    try:
        import icontract
        from sdc11073 import multikey
        icontract.invariant(_lookups_agree_with_scan, error=lambda self: InvariantBroken('; '.join(index_vs_scan(self))[:800]))(
            multikey.MultiKeyLookup)
        _STATE['installed'] = True
        return True
    except Exception:  # noqa: BLE001
        return False


def _mk_table(rng, variant):
    from sdc11073 import multikey
    t = multikey.MultiKeyLookup()
    defs = [('by_a', multikey.UIndexDefinition(lambda o: o.a, index_none_values=variant % 2 == 0)),
            ('by_b', multikey.IndexDefinition(lambda o: o.b)),
            ('by_c', multikey.IndexDefinition1n(lambda o: o.c)),
            ('by_d', multikey.IndexDefinition(lambda o: o.d, index_none_values=False))]
    if variant >= 2:
        defs.append(('by_name', multikey.UIndexDefinition(lambda o: o.name)))
    rng.shuffle(defs)  # the position of the unique indices among the others varies (like handle in MultiStatesLookup)
    for name, d in defs:
        t.add_index(name, d)
    return t


def _rand_obj(rng, n, akeys):
    return Obj(f'o{n}', rng.choice(akeys), rng.choice('xyz'), [rng.choice('pqr') for _ in range(rng.randrange(0, 3))],
               rng.choice([None, None, 'u', 'v']))


def _unique_collision(table, members, obj):
    """would inserting obj be rejected by a unique index (reference rule, computed from member attribute values)?"""
    for name, idx in table._idx_defs.items():
        from sdc11073 import multikey
        if isinstance(idx, multikey.UIndexDefinition):
            k = idx._get_key_func(obj)
            if k is None and not idx._index_none_values:
                continue
            for m in members:
                if m is not obj and idx._get_key_func(m) == k:
                    return True
    return False


def w_tables(ctx: core.Ctx, arg):
    have_inv = install_invariant()
    rng = ctx.rng('tables', arg['i'])
    for seq in range(arg['n']):
        variant = rng.randrange(4)
        table = _mk_table(rng, variant)
        akeys = ['k1', 'k2', 'k3', 'k4', 'k5', None][:rng.randrange(3, 7)]
        members: list = []  # reference membership (identity)
        graveyard: list = []
        counter = 0
        trace = []
        ok = True
        for step in range(arg['len']):
            op = rng.choice(['add', 'add', 'add', 'add_dup_obj', 'add_many', 'update', 'update', 'update_many', 'remove', 'remove',
                             'remove_unknown', 'remove_many', 'clear', 'add_index', 'query'])
            nolock = rng.random() < 0.3
            suffix = '_no_lock' if nolock else ''
            before = table_snapshot(table)
            try:
                if op == 'add':
                    counter += 1
                    o = _rand_obj(rng, counter, akeys)
                    reject = _unique_collision(table, members, o)
                    trace.append((op + suffix, repr(o), 'expect-reject' if reject else 'expect-ok'))
                    try:
                        getattr(table, 'add_object' + suffix)(o)
                        raised = False
                    except KeyError:
                        raised = True
                    ctx.count('table.add.rejected' if raised else 'table.add.accepted')
                    if reject != raised:
                        ctx.witness('table.add.reject_mismatch', 'unique-key rule: insertion accepted/rejected contrary to the stored keys',
                                    {'trace': trace[-6:], 'expected_reject': reject})
                        ok = False
                    if raised:
                        if table_snapshot(table) != before:
                            ctx.witness('table.rejected_insert_changes_table',
                                        'an insertion rejected for an existing unique key does not leave the table as it was',
                                        {'obj': repr(o), 'in_objects': o in table.objects, 'problems': index_vs_scan(table)[:3], 'trace': trace[-5:]})
                            ok = False
                    else:
                        members.append(o)
                elif op == 'add_dup_obj' and members:
                    o = rng.choice(members)
                    trace.append((op + suffix, repr(o)))
                    getattr(table, 'add_object' + suffix)(o)
                elif op == 'add_many':
                    objs = []
                    for _ in range(rng.randrange(0, 4)):
                        counter += 1
                        objs.append(_rand_obj(rng, counter, akeys))
                    if members and rng.random() < 0.3:
                        objs.insert(rng.randrange(len(objs) + 1), rng.choice(members))
                    ref_members = list(members)
                    expect_raise = False
                    for o in objs:
                        if any(o is m for m in ref_members):
                            continue
                        if _unique_collision(table, ref_members, o):
                            expect_raise = True
                            break
                        ref_members.append(o)
                    trace.append((op + suffix, [repr(o) for o in objs], 'expect-reject' if expect_raise else 'expect-ok'))
                    try:
                        getattr(table, 'add_objects' + suffix)(objs)
                        raised = False
                    except KeyError:
                        raised = True
                    if raised != expect_raise:
                        ctx.witness('table.add.reject_mismatch', 'unique-key rule (plural add): accepted/rejected contrary to the stored keys',
                                    {'trace': trace[-4:]})
                        ok = False
                    members = ref_members
                    if raised:
                        ctx.count('table.add_many.rejected')
                elif op in ('update', 'update_many') and members:
                    objs = [rng.choice(members) for _ in range(1 if op == 'update' else rng.randrange(1, 4))]
                    _STATE['dirty'] = True
                    for o in objs:
                        which = rng.randrange(4) if op == 'update' else rng.randrange(1, 4)
                        if which == 0:
                            # keep unique keys unique (changing to a colliding key is an application error, not judged)
                            free = [k for k in akeys if all(m.a != k or m is o for m in members)]
                            o.a = rng.choice(free) if free else o.a
                        elif which == 1:
                            o.b = rng.choice('xyz')
                        elif which == 2:
                            if rng.random() < 0.5:
                                o.c = [rng.choice('pqr') for _ in range(rng.randrange(0, 3))]
                            else:
                                o.c.append(rng.choice('pqr'))  # in-place list mutation
                        else:
                            o.d = rng.choice([None, 'u', 'v'])
                    trace.append((op + suffix, [repr(o) for o in objs]))
                    _STATE['dirty'] = 'updating'
                    if op == 'update':
                        getattr(table, 'update_object' + suffix)(objs[0])
                    else:
                        getattr(table, 'update_objects' + suffix)(objs)
                    _STATE['dirty'] = False
                    ctx.count('table.update')
                elif op == 'remove' and members:
                    o = members.pop(rng.randrange(len(members)))
                    graveyard.append(o)
                    trace.append((op + suffix, repr(o)))
                    getattr(table, 'remove_object' + suffix)(o)
                    ctx.count('table.remove')
                elif op == 'remove_unknown':
                    o = rng.choice(graveyard) if graveyard and rng.random() < 0.5 else _rand_obj(rng, 0, akeys)
                    trace.append((op + suffix, repr(o)))
                    getattr(table, 'remove_object' + suffix)(o)
                    if table_snapshot(table) != before:
                        ctx.witness('table.remove_unknown_changes_table', 'removing an object that is not in the table changed it', {'trace': trace[-4:]})
                        ok = False
                elif op == 'remove_many' and members:
                    objs = []
                    for _ in range(rng.randrange(1, 4)):
                        if members:
                            o = members.pop(rng.randrange(len(members)))
                            graveyard.append(o)
                            objs.append(o)
                    if graveyard and rng.random() < 0.3:
                        objs.append(graveyard[0])
                    trace.append((op + suffix, [repr(o) for o in objs]))
                    getattr(table, 'remove_objects' + suffix)(objs)
                elif op == 'clear' and rng.random() < 0.2:
                    trace.append((op,))
                    table.clear()
                    graveyard.extend(members)
                    members = []
                    ctx.count('table.clear')
                elif op == 'add_index' and 'late' not in table._idx_defs and rng.random() < 0.3:
                    from sdc11073 import multikey
                    trace.append((op,))
                    table.add_index('late', multikey.IndexDefinition(lambda o: (o.b, o.d)))
                    ctx.count('table.add_index_on_filled')
                elif op == 'query':
                    key = rng.choice('xyz')
                    got = table.by_b.get(key, [])
                    want = [m for m in members if m.b == key]
                    if {id(o) for o in got} != {id(o) for o in want}:
                        ctx.witness('table.lookup_by_b', 'by_b lookup differs from scan of reference members', {'trace': trace[-6:]})
                        ok = False
                    f = table.find(b=key).objects
                    if {id(o) for o in f} != {id(o) for o in want}:
                        ctx.witness('table.find', 'find() differs from scan', {'trace': trace[-6:]})
                        ok = False
                    ak = rng.choice(akeys)
                    wa = [m for m in members if m.a == ak]
                    if ak is not None or table.by_a._index_none_values:
                        ga = table.by_a.get_one(ak, allow_none=True)
                        if (ga is None) != (not wa) or (wa and ga is not wa[0]):
                            ctx.witness('table.get_one', 'unique lookup differs from scan', {'trace': trace[-6:], 'key': ak})
                            ok = False
                    ctx.count('table.query')
            except InvariantBroken as ex:
                _STATE['dirty'] = False
                ctx.witness(_classify_trace(trace, 'invariant'), 'lookup != scan at a public method boundary (icontract invariant)',
                            {'problems': str(ex), 'trace': trace[-6:]})
                ok = False
                break
            except Exception as ex:  # noqa: BLE001
                _STATE['dirty'] = False
                ctx.witness(f'table.unexpected_exception.{type(ex).__name__}', 'table operation raised unexpectedly', {'ex': repr(ex), 'trace': trace[-6:]})
                ok = False
                break
            _STATE['dirty'] = False
            # explicit walker + membership model at the quiescent point
            problems = index_vs_scan(table)
            if problems:
                ctx.witness(_classify_trace(trace, 'walker'), 'lookup != scan after an operation', {'problems': problems[:4], 'trace': trace[-6:]})
                ok = False
                break
            if {id(o) for o in table.objects} != {id(o) for o in members}:
                ctx.witness('table.membership', 'set of stored objects differs from the reference membership', {'trace': trace[-6:]})
                ok = False
                break
            ctx.count('table.walks')
        ctx.case(('tbl', variant, len(akeys), tuple(sorted({t[0] for t in trace}))), n=1)
        if seq == 0:
            ctx.sample({'kind': 'table op sequence', 'variant': variant, 'ops': trace[:12], 'ok': ok})
    ctx.count('table.invariant_evaluations', _STATE['evals'])
    ctx.extra['icontract_invariant_installed'] = have_inv


def _classify_trace(trace, how):
    last = trace[-1][0] if trace else 'none'
    if trace and len(trace[-1]) > 2 and trace[-1][2] == 'expect-reject':
        return 'table.rejected_insert_changes_table'
    return f'table.lookup_ne_scan.after_{last.replace("_no_lock", "")}'


def run(ctx: core.Ctx):
    ctx.rule = ('seeded random operation sequences (add / add duplicate key / add same object / attribute change + update_object / remove / '
                'remove unknown / clear / add_index on filled table / plural + _no_lock variants / lookups) on real MultiKeyLookup tables with '
                'unique, multi, 1:n and None-skipping indices over 3-6 keys; distinct = (index variant, key alphabet size, set of operation kinds); '
                'MDIB level: provider/consumer histories with walker at every quiescent point')
    jobs = [['w_tables', {'i': k, 'n': 320 if ctx.quick else 12500, 'len': 40}] for k in range(16)]
    try:
        from . import c11_mdib  # noqa: F401  (added when the MDIB harness exists)
        jobs += c11_mdib.jobs(ctx)
    except ImportError:
        pass
    core.fanout(ctx, MODULE, 'dispatch', jobs)
    ctx.floor('table.walks', 10000)
    ctx.floor('table.add.rejected', 100)
    ctx.floor('table.update', 1000)
    ctx.floor('table.invariant_evaluations', 10000)
    ctx.floor('mdib.walks', 1000)
    ctx.floor('mdib.foreign_grouping.reports', 5)


def dispatch(ctx: core.Ctx, job):
    if job[0].startswith('mdib_'):
        from . import c11_mdib
        return getattr(c11_mdib, job[0])(ctx, job[1])
    return globals()[job[0]](ctx, job[1])
