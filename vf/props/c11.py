"""C11 - every lookup always agrees with a scan of the stored objects.

(1) table level: random operation sequences on real MultiKeyLookup tables (unique / multi / 1:n / none-skipping indices, small
    key alphabet) with index_vs_scan deployed as an icontract class invariant (every public method exit) and as explicit walker;
    a reference membership model decides which objects must be in the table; rejected inserts must leave the table untouched.
(2) MDIB level: provider transactions and consumer report processing that change indexed attributes, walker at quiescent points
    (c11_mdib).
(3) round 4 (c11_api): the public read-only lookups are pure and answer like a scan (provider, consumer, over the wire); containers and entities
    that belong to the application can be changed without the tables noticing; the real table classes of the MDIB under random sequences;
    the consumer MDIB under irregular reports; the subscription table through its whole life cycle (virtual clock, 4 manager classes).
"""
from __future__ import annotations

from .. import core
from ..tablewalk import index_vs_scan, table_snapshot

MODULE = 'vf.props.c11'


class Obj:
    __slots__ = ('a', 'b', 'c', 'd', 'name', '__weakref__')

    def __init__(self, name, a, b, c, d):
        self.name, self.a, self.b, self.c = name, a, b, c
        if d is not _UNSET:
            self.d = d  # otherwise reading .d raises AttributeError (like descriptor.Source of everything that is no alert condition)

    def __repr__(self):
        return f'Obj({self.name}, a={self.a!r}, b={self.b!r}, c={self.c!r}, d={getattr(self, "d", "<no attribute>")!r})'


_UNSET = object()


class InvariantBroken(Exception):
    pass


_STATE = {'dirty': False, 'evals': 0, 'installed': False}


def _lookups_agree_with_scan(self):
    _STATE['evals'] += 1
    if _STATE['dirty']:
        return True  # the harness changed attributes and has not yet called update_object: transient by design
    return not index_vs_scan(self)


def install_invariant():
    """icontract class invariant on the real MultiKeyLookup (harness side, no repo edit)."""
    if _STATE['installed']:
        return True
    try:
        import icontract
        from sdc11073 import multikey
        icontract.invariant(_lookups_agree_with_scan, error=lambda self: InvariantBroken('; '.join(index_vs_scan(self))[:800]))(
            multikey.MultiKeyLookup)
        _STATE['installed'] = True
        return True
    except Exception:  # noqa: BLE001
        return False


def _mk_table(rng, variant):
    from sdc11073 import multikey
    t = multikey.MultiKeyLookup()
    defs = [('by_a', multikey.UIndexDefinition(lambda o: o.a, index_none_values=variant % 2 == 0)),
            ('by_b', multikey.IndexDefinition(lambda o: o.b)),
            ('by_c', multikey.IndexDefinition1n(lambda o: o.c)),
            ('by_d', multikey.IndexDefinition(lambda o: o.d, index_none_values=False))]
    if variant >= 2:
        defs.append(('by_name', multikey.UIndexDefinition(lambda o: o.name)))
    rng.shuffle(defs)  # the position of the unique indices among the others varies (like handle in MultiStatesLookup)
    for name, d in defs:
        t.add_index(name, d)
    return t


def _rand_obj(rng, n, akeys):
    # round 4: objects the key functions do not apply to - no attribute d (AttributeError in the key function), c = None (TypeError in the
    # 1:n index) - are skipped by that index only and must be found by all others (this is how the descriptor table works)
    return Obj(f'o{n}', rng.choice(akeys), rng.choice('xyz'),
               None if rng.random() < 0.1 else [rng.choice('pqr') for _ in range(rng.randrange(0, 3))],
               rng.choice([None, None, 'u', 'v', _UNSET]))


def _unique_collision(table, members, obj):
    """would inserting obj be rejected by a unique index (reference rule, computed from member attribute values)?"""
    for name, idx in table._idx_defs.items():
        from sdc11073 import multikey
        if isinstance(idx, multikey.UIndexDefinition):
            try:
                k = idx._get_key_func(obj)
            except (TypeError, AttributeError):
                continue  # the index does not apply to this object
            if k is None and not idx._index_none_values:
                continue
            for m in members:
                try:
                    if m is not obj and idx._get_key_func(m) == k:
                        return True
                except (TypeError, AttributeError):
                    pass
    return False


def w_tables(ctx: core.Ctx, arg):
    have_inv = install_invariant()
    rng = ctx.rng('tables', arg['i'])
    for seq in range(arg['n']):
        variant = rng.randrange(4)
        table = _mk_table(rng, variant)
        akeys = ['k1', 'k2', 'k3', 'k4', 'k5', None][:rng.randrange(3, 7)]
        members: list = []  # reference membership (identity)
        graveyard: list = []
        counter = 0
        trace = []
        ok = True
        for step in range(arg['len']):
            op = rng.choice(['add', 'add', 'add', 'add_dup_obj', 'add_many', 'update', 'update', 'update_many', 'remove', 'remove',
                             'remove_unknown', 'remove_many', 'clear', 'add_index', 'query'])
            nolock = rng.random() < 0.3
            suffix = '_no_lock' if nolock else ''
            before = table_snapshot(table)
            try:
                if op == 'add':
                    counter += 1
                    o = _rand_obj(rng, counter, akeys)
                    reject = _unique_collision(table, members, o)
                    trace.append((op + suffix, repr(o), 'expect-reject' if reject else 'expect-ok'))
                    try:
                        getattr(table, 'add_object' + suffix)(o)
                        raised = False
                    except KeyError:
                        raised = True
                    ctx.count('table.add.rejected' if raised else 'table.add.accepted')
                    if reject != raised:
                        ctx.witness('table.add.reject_mismatch', 'unique-key rule: insertion accepted/rejected contrary to the stored keys',
                                    {'trace': trace[-6:], 'expected_reject': reject})
                        ok = False
                    if raised:
                        if table_snapshot(table) != before:
                            ctx.witness('table.rejected_insert_changes_table',
                                        'an insertion rejected for an existing unique key does not leave the table as it was',
                                        {'obj': repr(o), 'in_objects': o in table.objects, 'problems': index_vs_scan(table)[:3], 'trace': trace[-5:]})
                            ok = False
                    else:
                        members.append(o)
                elif op == 'add_dup_obj' and members:
                    o = rng.choice(members)
                    trace.append((op + suffix, repr(o)))
                    getattr(table, 'add_object' + suffix)(o)
                elif op == 'add_many':
                    objs = []
                    for _ in range(rng.randrange(0, 4)):
                        counter += 1
                        objs.append(_rand_obj(rng, counter, akeys))
                    if members and rng.random() < 0.3:
                        objs.insert(rng.randrange(len(objs) + 1), rng.choice(members))
                    ref_members = list(members)
                    expect_raise = False
                    for o in objs:
                        if any(o is m for m in ref_members):
                            continue
                        if _unique_collision(table, ref_members, o):
                            expect_raise = True
                            break
                        ref_members.append(o)
                    trace.append((op + suffix, [repr(o) for o in objs], 'expect-reject' if expect_raise else 'expect-ok'))
                    try:
                        getattr(table, 'add_objects' + suffix)(objs)
                        raised = False
                    except KeyError:
                        raised = True
                    if raised != expect_raise:
                        ctx.witness('table.add.reject_mismatch', 'unique-key rule (plural add): accepted/rejected contrary to the stored keys',
                                    {'trace': trace[-4:]})
                        ok = False
                    members = ref_members
                    if raised:
                        ctx.count('table.add_many.rejected')
                elif op in ('update', 'update_many') and members:
                    objs = [rng.choice(members) for _ in range(1 if op == 'update' else rng.randrange(1, 4))]
                    _STATE['dirty'] = True
                    for o in objs:
                        which = rng.randrange(4) if op == 'update' else rng.randrange(1, 4)
                        if which == 0:
                            # keep unique keys unique (changing to a colliding key is an application error, not judged)
                            free = [k for k in akeys if all(m.a != k or m is o for m in members)]
                            o.a = rng.choice(free) if free else o.a
                        elif which == 1:
                            o.b = rng.choice('xyz')
                        elif which == 2:
                            if rng.random() < 0.5 or o.c is None:
                                o.c = None if rng.random() < 0.1 else [rng.choice('pqr') for _ in range(rng.randrange(0, 3))]
                            else:
                                o.c.append(rng.choice('pqr'))  # in-place list mutation
                        else:
                            v = rng.choice([None, 'u', 'v', _UNSET])
                            if v is not _UNSET:
                                o.d = v
                            elif hasattr(o, 'd'):
                                del o.d
                    trace.append((op + suffix, [repr(o) for o in objs]))
                    _STATE['dirty'] = 'updating'
                    if op == 'update':
                        getattr(table, 'update_object' + suffix)(objs[0])
                    else:
                        getattr(table, 'update_objects' + suffix)(objs)
                    _STATE['dirty'] = False
                    ctx.count('table.update')
                elif op == 'remove' and members:
                    o = members.pop(rng.randrange(len(members)))
                    graveyard.append(o)
                    trace.append((op + suffix, repr(o)))
                    getattr(table, 'remove_object' + suffix)(o)
                    ctx.count('table.remove')
                elif op == 'remove_unknown':
                    o = rng.choice(graveyard) if graveyard and rng.random() < 0.5 else _rand_obj(rng, 0, akeys)
                    trace.append((op + suffix, repr(o)))
                    getattr(table, 'remove_object' + suffix)(o)
                    if table_snapshot(table) != before:
                        ctx.witness('table.remove_unknown_changes_table', 'removing an object that is not in the table changed it', {'trace': trace[-4:]})
                        ok = False
                elif op == 'remove_many' and members:
                    objs = []
                    for _ in range(rng.randrange(1, 4)):
                        if members:
                            o = members.pop(rng.randrange(len(members)))
                            graveyard.append(o)
                            objs.append(o)
                    if graveyard and rng.random() < 0.3:
                        objs.append(graveyard[0])
                    trace.append((op + suffix, [repr(o) for o in objs]))
                    getattr(table, 'remove_objects' + suffix)(objs)
                elif op == 'clear' and rng.random() < 0.2:
                    trace.append((op,))
                    table.clear()
                    graveyard.extend(members)
                    members = []
                    ctx.count('table.clear')
                elif op == 'add_index' and 'late' not in table._idx_defs and rng.random() < 0.3:
                    from sdc11073 import multikey
                    trace.append((op,))
                    table.add_index('late', multikey.IndexDefinition(lambda o: (o.b, getattr(o, 'd', None))))
                    ctx.count('table.add_index_on_filled')
                elif op == 'query':
                    key = rng.choice('xyz')
                    got = table.by_b.get(key, [])
                    want = [m for m in members if m.b == key]
                    if {id(o) for o in got} != {id(o) for o in want}:
                        ctx.witness('table.lookup_by_b', 'by_b lookup differs from scan of reference members', {'trace': trace[-6:]})
                        ok = False
                    f = table.find(b=key).objects
                    if {id(o) for o in f} != {id(o) for o in want}:
                        ctx.witness('table.find', 'find() differs from scan', {'trace': trace[-6:]})
                        ok = False
                    ak = rng.choice(akeys)
                    wa = [m for m in members if m.a == ak]
                    if ak is not None or table.by_a._index_none_values:
                        ga = table.by_a.get_one(ak, allow_none=True)
                        if (ga is None) != (not wa) or (wa and ga is not wa[0]):
                            ctx.witness('table.get_one', 'unique lookup differs from scan', {'trace': trace[-6:], 'key': ak})
                            ok = False
                    ctx.count('table.query')
            except InvariantBroken as ex:
                _STATE['dirty'] = False
                ctx.witness(_classify_trace(trace, 'invariant'), 'lookup != scan at a public method boundary (icontract invariant)',
                            {'problems': str(ex), 'trace': trace[-6:]})
                ok = False
                break
            except Exception as ex:  # noqa: BLE001
                _STATE['dirty'] = False
                ctx.witness(f'table.unexpected_exception.{type(ex).__name__}', 'table operation raised unexpectedly', {'ex': repr(ex), 'trace': trace[-6:]})
                ok = False
                break
            _STATE['dirty'] = False
            # explicit walker + membership model at the quiescent point
            problems = index_vs_scan(table)
            if problems:
                ctx.witness(_classify_trace(trace, 'walker'), 'lookup != scan after an operation', {'problems': problems[:4], 'trace': trace[-6:]})
                ok = False
                break
            if {id(o) for o in table.objects} != {id(o) for o in members}:
                ctx.witness('table.membership', 'set of stored objects differs from the reference membership', {'trace': trace[-6:]})
                ok = False
                break
            ctx.count('table.walks')
        ctx.case(('tbl', variant, len(akeys), tuple(sorted({t[0] for t in trace}))), n=1)
        if seq == 0:
            ctx.sample({'kind': 'table op sequence', 'variant': variant, 'ops': trace[:12], 'ok': ok})
    ctx.count('table.invariant_evaluations', _STATE['evals'])
    ctx.extra['icontract_invariant_installed'] = have_inv


def _classify_trace(trace, how):
    last = trace[-1][0] if trace else 'none'
    if trace and len(trace[-1]) > 2 and trace[-1][2] == 'expect-reject':
        return 'table.rejected_insert_changes_table'
    return f'table.lookup_ne_scan.after_{last.replace("_no_lock", "")}'


def run(ctx: core.Ctx):
    ctx.rule = ('(1) seeded random operation sequences (add / add duplicate key / add same object / attribute change + update_object / remove / '
                'remove unknown / clear / add_index on filled table / plural + _no_lock variants / lookups) on real MultiKeyLookup tables with '
                'unique, multi, 1:n and None-skipping indices over 3-6 keys, incl. objects a key function does not apply to; the same on the real '
                'DescriptorsLookup / StatesLookup / MultiStatesLookup with real containers; distinct = (index variant | table class, key alphabet '
                'size, set of operation kinds).  (2) MDIB level: provider/consumer histories over all operation kinds of the shared generator + own '
                'operations (alert condition/signal create/update/delete, subtree removal, template re-use of application objects), walker at every '
                'quiescent point, mutation of every container the transaction API handed out, catalogue of all public read-only lookups (purity + '
                'agreement with a scan) on provider, consumer and over the wire; distinct = sequence of (operation, variant, interface, outcome).  '
                '(3) consumer MDIB fed with irregular reports (distinct = sequence of (case, outcome)); (4) life cycle of the subscription table '
                'for the four manager classes under a virtual clock (distinct = sequence of steps)')
    ctx.assumptions += ['objects obtained from a lookup (stored objects) are not modified by the application; objects handed out by / passed into '
                        'the provider transaction API are the application\'s own and may be modified by it at any time after the commit',
                        'a lookup that returns several objects is compared with the scan as a multiset (order is not part of the statement)']
    jobs = [['w_tables', {'i': k, 'n': 320 if ctx.quick else 12500, 'len': 40}] for k in range(16)]
    try:
        from . import c11_mdib  # noqa: F401  (added when the MDIB harness exists)
        jobs = c11_mdib.jobs(ctx) + jobs  # the long MDIB histories first
    except ImportError:
        pass
    core.fanout(ctx, MODULE, 'dispatch', jobs)
    ctx.floor('table.walks', 10000)
    ctx.floor('table.add.rejected', 100)
    ctx.floor('table.update', 1000)
    ctx.floor('table.invariant_evaluations', 10000)
    ctx.floor('mdib.walks', 1000)
    ctx.floor('mdib.foreign_grouping.reports', 5)
    # round 4
    ctx.floor('mdibtable.walks', 5000)
    ctx.floor('mdibtable.add.rejected', 100)
    ctx.floor('mdibtable.add_containers_duplicate', 10)
    ctx.floor('mdib.queries.provider', 3000)
    ctx.floor('mdib.queries.consumer', 3000)
    ctx.floor('mdib.query_oracles', 5000)
    ctx.floor('mdib.wire_queries', 40)
    ctx.floor('mdib.handout_mutations', 150)
    ctx.floor('mdib.entity_mutations', 300)
    for how in ('get_state', 'get_descriptor', 'get_context_state', 'mk_context_state', 'add_descriptor'):
        ctx.floor(f'mdib.handout_mutations.{how}', 10)
    ctx.floor('mdib.template_reuse.directed', 12)
    for kind in ('context_state', 'single_state', 'descriptor', 'entity'):
        ctx.floor(f'mdib.template_reuse.{kind}', 6)
    ctx.floor('mdib.rejected_unique_key_ops', 8)
    ctx.floor('mdib.own.alert_create', 8)
    ctx.floor('mdib.own.alert_delete', 4)
    ctx.floor('mdib.own.subtree_delete', 6)
    ctx.floor('consumer.reports', 100)
    for case in ('metric_state_of_unknown_descriptor', 'metric_state_of_other_type', 'context_state_new', 'create_of_known_descriptor_with_children',
                 'create_descriptor_whose_state_is_already_stored', 'create_alert_conditions_sharing_fresh_sources', 'update_sources_and_condition_signaled',
                 'update_context_descriptor_with_fewer_states', 'delete_leaf_with_state_listed', 'delete_alert_condition_and_signal'):
        ctx.floor(f'consumer.reports.{case}', 3)
    ctx.floor('consumer.reload_all', 3)
    ctx.floor('subs.walks', 80)
    ctx.floor('subs.removed_by_housekeeping', 4)
    ctx.floor('subs.removed_by_expiry', 4)


def dispatch(ctx: core.Ctx, job):
    if job[0].startswith('mdib_'):
        from . import c11_mdib
        return getattr(c11_mdib, job[0])(ctx, job[1])
    return globals()[job[0]](ctx, job[1])
