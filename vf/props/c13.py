"""C13 - request handling is total: any input gets a response; no hang, crash or XXE.

Every request is a byte string fed to the REAL DispatchingRequestHandler (vf.httpl2) in front of a real SdcProvider /
SdcConsumer (vf.c13env, socket free).  Monitors: exception leaving do_POST/do_GET, read-step / line budgets (spin), complete
HTTP response per entered do_*, SOAP-fault well-formedness for everything the SOAP layer rejected, independent XSD validation
of successful responses, MDIB + subscription snapshots around rejected requests, canary file / URL / entity-expansion monitors
(strace around the XXE worker).
"""
from __future__ import annotations

import itertools
import copy
import glob
import json
import os
import re
import shutil
import subprocess
import tempfile
import threading
import time

from lxml import etree

from .. import core, httpl2 as L

MODULE = 'vf.props.c13'
S12 = 'http://www.w3.org/2003/05/soap-envelope'
WSA = 'http://www.w3.org/2005/08/addressing'
CANARY_PORT = 9
CONTROL_PORT = 7
CANARY_TEXT = b'C4N4RY-F1LE-C0NTENT'
EXPANDED = 'XPANDED-3NT1TY'


# ---------------------------------------------------------------------------------------------------------------
# independent XSD validator (own resolver: by file name inside the bundled xsd directory)
# ---------------------------------------------------------------------------------------------------------------
class _ByName(etree.Resolver):
    def __init__(self, xsd_dir):
        super().__init__()
        self.xsd_dir = xsd_dir

    def resolve(self, url, pubid, context):
        name = url.rstrip('/').rsplit('/', 1)[-1]
        path = os.path.join(self.xsd_dir, name)
        if os.path.exists(path):
            return self.resolve_filename(path, context)
        return None


def mk_validator():
    xsd_dir = os.path.join(core.REPO_DIR, 'src', 'sdc11073', 'xsd')
    parser = etree.XMLParser()
    parser.resolvers.add(_ByName(xsd_dir))
    parts = ['<xsd:schema xmlns:xsd="http://www.w3.org/2001/XMLSchema" elementFormDefault="qualified">']
    for f in sorted(glob.glob(os.path.join(xsd_dir, '*.xsd'))):
        name = os.path.basename(f)
        if name in ('xml.xsd', 'wsdl.xsd'):
            continue
        tns = etree.parse(f).getroot().get('targetNamespace')
        if tns:
            parts.append(f'<xsd:import namespace="{tns}" schemaLocation="http://x/{name}"/>')
    parts.append('</xsd:schema>')
    return etree.XMLSchema(etree.fromstring('\n'.join(parts).encode(), parser))


def strict_parse(data: bytes):
    return etree.fromstring(data, etree.XMLParser(resolve_entities=False, no_network=True, load_dtd=False, huge_tree=False))


def is_fault_envelope(data: bytes):
    """-> (is_well_formed_fault, reason).  SOAP 1.2: Envelope/Body/Fault with Code/Value and Reason/Text."""
    try:
        root = strict_parse(data)
    except Exception as ex:  # noqa: BLE001
        return False, f'not well-formed XML: {ex!r}'[:200]
    if root.tag != f'{{{S12}}}Envelope':
        return False, f'root element is {root.tag}'
    body = root.find(f'{{{S12}}}Body')
    if body is None:
        return False, 'no s12:Body'
    fault = body.find(f'{{{S12}}}Fault')
    if fault is None:
        return False, 'no s12:Fault in the body'
    if fault.find(f'{{{S12}}}Code/{{{S12}}}Value') is None:
        return False, 'Fault without Code/Value'
    if fault.find(f'{{{S12}}}Reason/{{{S12}}}Text') is None:
        return False, 'Fault without Reason/Text'
    return True, None


def contains_fault(data: bytes) -> bool:
    return b'Fault' in data and is_fault_envelope(data)[0]


# ---------------------------------------------------------------------------------------------------------------
# environment
# ---------------------------------------------------------------------------------------------------------------
class Env:
    def __init__(self, ctx, mode='sync', deferred=False, chunk_size=0):
        from .. import c13env as E
        from sdc11073.mdib.consumermdib import ConsumerMdib
        from sdc11073.httpserver import httpreader, httprequesthandler
        self.E = E
        self.ctx = ctx
        self.mode, self.deferred = mode, deferred
        self.net = E.Net()
        self.provider, self.psrv = E.mk_provider(self.net, mode=mode, chunk_size=chunk_size)
        self.consumer, self.csrv = E.mk_consumer(self.net, self.provider, deferred=deferred)
        self.cmdib = ConsumerMdib(self.consumer)
        self.cmdib.init_mdib()
        self.servers = {'provider': self.psrv, 'consumer': self.csrv}
        self.validator = mk_validator()
        self.handler_cls = L.probe_handler_class()
        from sdc11073.httpserver import compression
        from sdc11073.dispatch import dispatchkey, messageconverter, pathelementregistry, request as request_mod
        from sdc11073.consumer import request_handler_deferred
        self.line_budget = L.LineBudget([httpreader, httprequesthandler, compression, dispatchkey, messageconverter, pathelementregistry,
                                         request_mod, request_handler_deferred])
        # an endpoint whose server has been closed (server_close() sets dispatcher = None while handler threads of kept-alive
        # connections may still run): the handler has explicit branches for it
        self.closed_servers = {}
        for role, srv in self.servers.items():
            closed = L.FakeServer(None, srv.chunk_size, srv.supported_encodings)
            closed.server_address = srv.server_address
            self.closed_servers[role] = closed
        # uncaught exceptions of library threads (a worker started by / working for request handling that dies = crash)
        self.thread_deaths: list = []
        self._prev_excepthook = threading.excepthook

        def excepthook(args, _prev=self._prev_excepthook):
            import traceback
            frames = traceback.extract_tb(args.exc_traceback) if args.exc_traceback is not None else []
            self.thread_deaths.append({'thread': getattr(args.thread, 'name', '?'), 'exc': repr(args.exc_value)[:300],
                                       'exc_type': getattr(args.exc_type, '__name__', '?'),
                                       'frames': [(f.filename, f.name, f.lineno) for f in frames][-8:]})
        threading.excepthook = excepthook
        # spies (instance attributes only)
        self.mw_log: list = []
        self.tree_log: list = []
        self.op_states: dict = {}
        self.watch_trees = False
        for role, obj in (('provider', self.provider), ('consumer', self.consumer)):
            self._spy_middleware(role, obj._msg_converter)
            self._spy_reader(role, obj.msg_reader)
        set_service = self.provider.hosted_services.set_service
        orig_notify = set_service.notify_operation

        def notify_operation(operation, transaction_id, invocation_state, *a, **k):
            try:
                return orig_notify(operation, transaction_id, invocation_state, *a, **k)
            finally:   # recorded AFTER the notification has been delivered: quiesce() waits for the end of the delivery
                self.op_states.setdefault(transaction_id, []).append(getattr(invocation_state, 'value', str(invocation_state)))
        set_service.notify_operation = notify_operation
        self.seeds = []
        self.last_snap = None

    def _spy_middleware(self, role, mw):
        orig_post, orig_get = mw.do_post, mw.do_get

        def do_post(headers, path, peer, request_bytes):
            rec = {'role': role, 'kind': 'post', 'ret': None, 'exc': None, 'thread': threading.get_ident()}
            self.mw_log.append(rec)
            try:
                r = orig_post(headers, path, peer, request_bytes)
                rec['ret'] = (r[0], r[1], r[2])
                return r
            except Exception as ex:  # noqa: BLE001
                rec['exc'] = ex
                raise

        def do_get(headers, path, peer):
            rec = {'role': role, 'kind': 'get', 'ret': None, 'exc': None, 'thread': threading.get_ident()}
            self.mw_log.append(rec)
            try:
                r = orig_get(headers, path, peer)
                rec['ret'] = (r[0], r[1], r[2])
                return r
            except Exception as ex:  # noqa: BLE001
                rec['exc'] = ex
                raise
        mw.do_post, mw.do_get = do_post, do_get

    def _spy_reader(self, role, reader):
        orig = reader.read_received_message

        def read_received_message(xml_text, validate=True):
            watch = self.watch_trees and xml_text is not None
            try:
                r = orig(xml_text, validate=validate)
            except Exception:
                if watch:
                    self.tree_log.append([('refused', None, None, None)])
                raise
            if watch:
                found = []
                try:
                    root = r.p_msg._doc_root
                    for el in root.iter():
                        if not isinstance(el.tag, str):
                            continue
                        for k, v in el.attrib.items():
                            if self.watch_token in v.encode('utf-8', 'replace') or CANARY_TEXT.decode() in v:
                                found.append(('attribute', etree.QName(el).localname, k, v[:60]))
                        for t in (el.text, el.tail):
                            if t and (self.watch_token in t.encode('utf-8', 'replace') or CANARY_TEXT.decode() in t):
                                found.append(('text', etree.QName(el).localname, None, t[:60]))
                except Exception as ex:  # noqa: BLE001
                    found.append(('walk failed', repr(ex), None, None))
                self.tree_log.append(found)
            return r
        reader.read_received_message = read_received_message

    # -- quiescence / snapshots ------------------------------------------------------------------------------
    def quiesce(self, responses):
        """Wait (bounded) until asynchronous work started by an ACCEPTED request is finished."""
        deadline = time.time() + 4
        settled = True
        for p in responses:
            if p.status and p.status < 300 and b'InvocationState>Wait<' in p.body_plain:
                m = re.search(rb'TransactionId>(\d+)<', p.body_plain)
                if m:
                    tid = int(m.group(1))
                    while time.time() < deadline:
                        st = self.op_states.get(tid, [])
                        if any(s in ('Fin', 'FinMod', 'Fail', 'Cnclld', 'CnclldMan') for s in st):
                            break
                        time.sleep(0.001)
                    else:
                        self.ctx.count('quiesce.operation_without_final_state')
                        self.ctx.extra.setdefault('operation_without_final_state', [])
                        if len(self.ctx.extra['operation_without_final_state']) < 3:
                            self.ctx.extra['operation_without_final_state'].append(
                                {'transaction': tid, 'states': self.op_states.get(tid), 'request': self.current_request[:1500].decode('latin-1')})
                        settled = False
                        time.sleep(0.3)
        if self.deferred:
            disp = self.consumer._services_dispatcher
            if not disp._worker.is_alive():
                if not getattr(self, '_worker_death_reported', False):
                    self._worker_death_reported = True
                    self.ctx.witness('consumer.dispatcher_thread_died', 'an exception escaped the worker of the consumer\'s deferred dispatcher: the event '
                                     'sink still answers 200 but processes nothing any more (its bounded queue fills, then requests block for ever)',
                                     {'last_request': self.current_request[:600].decode('latin-1')})
                return settled
            ev = threading.Event()
            disp._queue.put((lambda _req: ev.set(), None, 'barrier'))
            if not ev.wait(8):
                if not disp._worker.is_alive():
                    return self.quiesce_dead_worker(settled)
                self.ctx.not_decided('deferred dispatcher did not reach the barrier within the watchdog')
        return settled

    def quiesce_dead_worker(self, settled):
        if not getattr(self, '_worker_death_reported', False):
            self._worker_death_reported = True
            self.ctx.witness('consumer.dispatcher_thread_died', 'an exception escaped the worker of the consumer\'s deferred dispatcher: the event sink '
                             'still answers 200 but processes nothing any more (its bounded queue fills, then requests block for ever)',
                             {'last_request': self.current_request[:600].decode('latin-1')})
        return settled

    def prune_subscriptions(self, keep=6):
        """replayed (still valid) Subscribe requests pile up subscriptions; every notification then goes to all of them."""
        mine = {s.notification_url for s in self.consumer.subscription_mgr.subscriptions.values()}
        for mgr in self.provider._subscriptions_managers.values():
            with mgr._subscriptions.lock:
                objs = list(mgr._subscriptions.objects)
                seen = set()
                for s in objs:
                    first = s.notify_to_address in mine and s.notify_to_address not in seen
                    seen.add(s.notify_to_address)
                    if not first and len(objs) > keep:
                        s.close_by_subscription_manager()
                        mgr._subscriptions.remove_object(s)
        self.last_snap = None

    def snapshot(self):
        E = self.E
        sub = {}
        mgr = self.consumer.subscription_mgr
        if mgr is not None:
            for k, s in list(mgr.subscriptions.items()):
                sub[core.h(k)] = (s.is_subscribed, getattr(s, 'end_status', None), s.notification_url, s.end_to_url)
        return {'provider': E.snap_provider(self.provider), 'consumer_mdib': E.snap_mdib(self.cmdib), 'consumer_subscriptions': sub}

    def snap_diff(self, a, b):
        d = self.E.snap_diff(a['provider'], b['provider'])
        ca, cb = {'mdib': a['consumer_mdib'], 'subscriptions': {}}, {'mdib': b['consumer_mdib'], 'subscriptions': {}}
        d += [('consumer',) + x for x in self.E.snap_diff(ca, cb)]
        if a['consumer_subscriptions'] != b['consumer_subscriptions']:
            d.append(('consumer_subscriptions', a['consumer_subscriptions'], b['consumer_subscriptions']))
        return d

    # -- seed corpus ------------------------------------------------------------------------------------------
    def build_seeds(self):
        from decimal import Decimal
        net, prov, cons = self.net, self.provider, self.consumer
        g, s, c = cons.get_service_client, cons.set_service_client, cons.context_service_client

        def settle(fut):
            try:
                fut.result(timeout=5)
            except Exception:  # noqa: BLE001
                pass
        g.get_mdib()
        g.get_md_state(['numeric.ch1.vmd0'])
        g.get_md_state()
        g.get_md_description()
        g.get_md_description(['numeric.ch1.vmd0'])
        c.get_context_states()
        settle(s.set_numeric_value('numeric.ch0.vmd1_sco_0', Decimal('42')))
        settle(s.set_string('enumstring.ch0.vmd1_sco_0', 'ADULT'))
        settle(s.activate('actop.vmd1_sco_0'))
        pc = c.mk_proposed_context_object('PC.mds0')
        pc.CoreData.Givenname = 'Karl'
        settle(c.set_context_state('opSetPatCtx', [pc]))
        subs = list(cons.subscription_mgr.subscriptions.values())
        for sub in subs:
            sub.renew(3000)
            sub.get_status()
        cons.send_probe()
        cons.transfer_get()
        with prov.mdib.metric_state_transaction() as t:
            st = t.get_state('numeric.ch1.vmd0')
            if st.MetricValue is None:
                st.mk_metric_value()
            st.MetricValue.Value = Decimal(5)
        with prov.mdib.alert_state_transaction() as t:
            st = t.get_state('ac0.mds0')
            st.Presence = not st.Presence
        with prov.mdib.context_state_transaction() as t:
            st = t.mk_context_state('PC.mds0', set_associated=True)
            st.CoreData.Givenname = 'Moritz'
        # an extra subscription that is unsubscribed / ended so that the corpus has Unsubscribe and SubscriptionEnd
        from sdc11073.xml_types import eventing_types
        from sdc11073.xml_types.dpws_types import DeviceEventingFilterDialectURI
        hosted = [h for h in cons.host_description.relationship.Hosted if h.ServiceId == 'StateEvent'][0]
        acts = cons.sdc_definitions.Actions
        ft = eventing_types.FilterType()
        ft.text = acts.EpisodicComponentReport
        ft.Dialect = DeviceEventingFilterDialectURI.ACTION
        extra = cons.subscription_mgr.mk_subscription(hosted, ft)
        extra.subscribe(3000)
        extra.unsubscribe()
        ft2 = eventing_types.FilterType()
        ft2.text = acts.EpisodicOperationalStateReport
        ft2.Dialect = DeviceEventingFilterDialectURI.ACTION
        extra2 = cons.subscription_mgr.mk_subscription(hosted, ft2)
        extra2.subscribe(3000)
        for mgr in prov._subscriptions_managers.values():
            for sub in list(mgr._subscriptions.objects):
                if sub.notify_to_address == extra2.notification_url:
                    if self.mode == 'sync':
                        sub.send_notification_end_message()
                    else:
                        mgr._async_send_thread.run_coro(sub.async_send_notification_end_message())
        self.quiesce([])
        time.sleep(0.05)
        seeds, seen = [], {}
        for e in list(net.log):
            sd = parse_seed(e['request'])
            if sd is None:
                continue
            sd['role'] = 'provider' if e['netloc'].endswith(str(self.E.PROVIDER_PORT)) else 'consumer'
            ok = e['response'].startswith(b'HTTP/1.1 200') or e['response'].startswith(b'HTTP/1.1 202')
            if not ok:
                continue
            key = (sd['role'], sd['name'], sd['path'].count('/'))
            seen[key] = seen.get(key, 0) + 1
            if seen[key] <= 2:
                seeds.append(sd)
        self.seeds = seeds
        net.record = False
        return seeds


def parse_seed(raw: bytes):
    head, sep, body = raw.partition(b'\r\n\r\n')
    if not sep:
        return None
    lines = head.split(b'\r\n')
    try:
        method, path, version = lines[0].decode('latin-1').split(' ')
    except ValueError:
        return None
    headers = []
    enc = None
    te = None
    for ln in lines[1:]:
        k, _, v = ln.partition(b':')
        k, v = k.decode('latin-1').strip(), v.decode('latin-1').strip()
        kl = k.lower()
        if kl == 'content-encoding':
            enc = v
        elif kl == 'transfer-encoding':
            te = v
        elif kl != 'content-length':
            headers.append((k, v))
    if te:
        body, why = L.check_chunked(body)
        if why:
            return None
    if enc:
        body = L.ref_decode(enc, body)
    name = 'GET'
    if method == 'POST':
        m = re.search(rb'Action[^>]*>([^<]+)<', body)
        name = m.group(1).decode().rstrip('/').rsplit('/', 1)[-1] if m else 'POST?'
    return {'name': name, 'method': method, 'path': path, 'headers': headers, 'xml': body}


def render(seed, xml=None, path=None, headers=None, method=None, version='HTTP/1.1', framing='cl', extra=()):
    xml = seed['xml'] if xml is None else xml
    hdrs = list(seed['headers'] if headers is None else headers) + list(extra)
    m = method or seed['method']
    if m == 'POST' or xml:
        if framing == 'cl':
            hdrs.append(('Content-Length', str(len(xml))))
            body = xml
        elif framing == 'chunked':
            hdrs.append(('Transfer-Encoding', 'chunked'))
            body = L.ref_chunk(xml, [max(1, len(xml) // 3)])
        else:
            body = xml
    else:
        body = b''
    return L.mk_request(m, seed['path'] if path is None else path, hdrs, body, version)


# ---------------------------------------------------------------------------------------------------------------
# mutators: each returns (raw connection bytes, info) ; info['doc'] = the XML document sent (when it is one)
# ---------------------------------------------------------------------------------------------------------------
HUGE = ['99999999999999999999999999999999999999', '-1', '-99999999999999999999', 'NaN', '1e999', '0x10', '', ' ', 'abc', '1.5.5', '２',
        '9' * 5000, 'true', '-0', '+1', '18446744073709551616', '4294967296', '\u0000'.encode('unicode_escape').decode()]
# hostile values of the lexical spaces the eventing / BICEPS requests carry besides plain numbers (xsd:duration | xsd:dateTime | xsd:anyURI)
EXPIRES = ['PT0S', 'PT0.0000001S', '-PT1S', '-P1Y', 'P99999999999999999999Y', 'PT99999999999999999999999999S', 'P1000000000D', 'P1Y2M3DT4H5M6.7S',
           'PT1e3S', 'PT', 'P', 'P1Y1Y', 'PT' + '9' * 5000 + 'S', 'PT0.' + '0' * 5000 + '1S', 'P400000000Y', 'PT1.5.5S', 'P-1Y', 'PT60S ',
           '2039-01-01T00:00:00Z', '0001-01-01T00:00:00', '9999-12-31T23:59:59.999999Z', '1969-12-31T23:59:59Z', '2026-13-45T25:61:61',
           '99999-01-01T00:00:00Z', '-0001-01-01T00:00:00Z', '2026-09-24T00:00:00+14:00', '2026-02-30T00:00:00Z', '', ' ', '0', '3600', 'NaN', 'INF']


def _tree(seed):
    return etree.fromstring(seed['xml'], etree.XMLParser(resolve_entities=False))


def _ser(root, decl=True):
    return etree.tostring(root, xml_declaration=decl, encoding='UTF-8')


def _elems(root):
    return [e for e in root.iter() if isinstance(e.tag, str)]


def rebase_notification(env, xml: bytes) -> bytes:
    """A recorded notification carries an MdibVersion / StateVersions that the consumer has already seen: it is answered 200 and ignored as outdated.
    Rebased = MdibVersion set to the consumer's current version + 1 and every StateVersion to a value above anything stored, so that the consumer's
    handlers really process the (mutated) content."""
    try:
        root = etree.fromstring(xml, etree.XMLParser(resolve_entities=False))
    except etree.XMLSyntaxError:
        return xml
    body = root.find(f'{{{S12}}}Body')
    if body is None or len(body) == 0 or not isinstance(body[0].tag, str) or not etree.QName(body[0]).localname.endswith('Report'):
        return xml
    msg = body[0]
    env.rebase_counter = getattr(env, 'rebase_counter', 0) + 1
    # (an accepted hostile notification may have driven the consumer's version to the maximum of xsd:unsignedLong: the same version is still accepted)
    msg.set('MdibVersion', str(min(env.cmdib.mdib_version + 1, 2 ** 64 - 1)))
    for e in msg.iter():
        if isinstance(e.tag, str) and 'DescriptorHandle' in e.attrib:
            e.set('StateVersion', str(1_000_000 + env.rebase_counter))
    return _ser(root)


def _rebased(rng, env, seed, p=0.6):
    if seed['role'] == 'consumer' and seed['method'] == 'POST' and seed['xml'] and rng.random() < p:
        return {**seed, 'xml': rebase_notification(env, seed['xml']), 'rebased': True}
    return seed


def _post_seed(rng, env, seed):
    if seed['method'] == 'POST' and seed['xml']:
        return seed
    return rng.choice([s for s in env.seeds if s['method'] == 'POST' and s['role'] == seed['role']])


def m_structure(rng, env, seed):
    seed = _rebased(rng, env, _post_seed(rng, env, seed))
    root = _tree(seed)
    els = _elems(root)
    kind = rng.choice(['delete_elem', 'dup_elem', 'rename_elem', 'swap_ns', 'delete_attr', 'rename_attr', 'attr_value', 'text_value',
                       'wrong_action', 'swap_body', 'empty_body', 'no_header', 'drop_header_block', 'soap11', 'deep_nesting', 'huge_text',
                       'add_unknown_elem', 'text_value', 'attr_value', 'delete_elem', 'mustunderstand', 'replace_handle'])
    body = root.find(f'{{{S12}}}Body')
    header = root.find(f'{{{S12}}}Header')
    if kind == 'delete_elem' and len(els) > 1:
        e = rng.choice(els[1:])
        e.getparent().remove(e)
    elif kind == 'dup_elem' and len(els) > 1:
        e = rng.choice(els[1:])
        e.addnext(copy.deepcopy(e))
    elif kind == 'rename_elem':
        e = rng.choice(els)
        q = etree.QName(e)
        e.tag = f'{{{q.namespace}}}{q.localname}X' if rng.random() < 0.5 else (f'{{{q.namespace}}}' + rng.choice([etree.QName(x).localname for x in els]))
    elif kind == 'swap_ns':
        e = rng.choice(els)
        other = rng.choice([etree.QName(x).namespace for x in els] + ['urn:unknown', 'http://schemas.xmlsoap.org/soap/envelope/'])
        e.tag = f'{{{other}}}{etree.QName(e).localname}' if other else etree.QName(e).localname
    elif kind in ('delete_attr', 'rename_attr', 'attr_value'):
        cands = [e for e in els if e.attrib]
        if cands:
            e = rng.choice(cands)
            a = rng.choice(list(e.attrib))
            if kind == 'delete_attr':
                del e.attrib[a]
            elif kind == 'rename_attr':
                v = e.attrib.pop(a)
                e.set(a + 'X', v)
            else:
                e.set(a, rng.choice(HUGE))
        else:
            kind = 'text_value'
    if kind == 'text_value':
        cands = [e for e in els if e.text and e.text.strip() and len(e) == 0]
        if cands:
            rng.choice(cands).text = rng.choice(HUGE)
    elif kind == 'wrong_action' and header is not None:
        a = header.find(f'{{{WSA}}}Action')
        if a is not None:
            others = [s['xml'] for s in env.seeds if s['method'] == 'POST']
            m = re.search(rb'Action[^>]*>([^<]+)<', rng.choice(others))
            a.text = rng.choice([m.group(1).decode() if m else 'x', 'urn:nonsense', '', a.text + 'X', a.text.upper()])
    elif kind == 'swap_body' and body is not None:
        other = _tree(rng.choice([s for s in env.seeds if s['method'] == 'POST']))
        ob = other.find(f'{{{S12}}}Body')
        for ch in list(body):
            body.remove(ch)
        for ch in list(ob):
            body.append(ch)
    elif kind == 'empty_body' and body is not None:
        for ch in list(body):
            body.remove(ch)
    elif kind == 'no_header' and header is not None:
        root.remove(header)
    elif kind == 'drop_header_block' and header is not None and len(header):
        header.remove(rng.choice(list(header)))
    elif kind == 'soap11':
        for e in els:
            if etree.QName(e).namespace == S12:
                e.tag = '{http://schemas.xmlsoap.org/soap/envelope/}' + etree.QName(e).localname
    elif kind == 'deep_nesting' and body is not None:
        cur = body
        for _ in range(rng.choice([50, 300, 2000])):
            cur = etree.SubElement(cur, '{urn:deep}d')
    elif kind == 'huge_text':
        cands = [e for e in els if len(e) == 0]
        rng.choice(cands).text = 'A' * rng.choice([70000, 1_000_000, 11_000_000])
    elif kind == 'add_unknown_elem':
        e = rng.choice(els)
        etree.SubElement(e, rng.choice(['{urn:unknown}Foo', 'Bar', f'{{{S12}}}Body', f'{{{WSA}}}Action']))
    elif kind == 'mustunderstand' and header is not None:
        e = etree.SubElement(header, '{urn:unknown}Critical')
        e.set(f'{{{S12}}}mustUnderstand', 'true')
    elif kind == 'replace_handle':
        for e in els:
            if etree.QName(e).localname in ('OperationHandleRef', 'HandleRef') and e.text:
                e.text = rng.choice(['', 'unknown.handle', 'mds0', 'numeric.ch1.vmd0', 'A' * 3000, e.text + ' '])
        for e in els:
            for a in ('Handle', 'DescriptorHandle'):
                if a in e.attrib and rng.random() < 0.5:
                    e.set(a, rng.choice(['', 'unknown.handle', 'mds0', 'PC.mds0', 'A' * 3000]))
    doc = _ser(root)
    return render(seed, xml=doc), {'mut': f's.{kind}', 'doc': doc, 'rebased': seed.get('rebased', False)}


NUMBERS = ['-1', '0', '-0', '+7', '18446744073709551615', '18446744073709551616', '9223372036854775808', '4294967296', '9' * 400, '9' * 5000, '1e400', '1E-400',
           '0.' + '0' * 400 + '1', '-' + '9' * 30 + '.5', '007', '1.', '.5', 'NaN', 'INF', '-INF', '\u0663', '0x1F', '1_000', ' 5 ', '']
_NUM = re.compile(r'^[+-]?\d+(\.\d+)?$')


def numeric_fields(env):
    """every numeric attribute / leaf text of the seed corpus, once per (endpoint, request type, element, attribute)"""
    fields = {}
    for s in env.seeds:
        if s['method'] != 'POST' or not s['xml']:
            continue
        for e in _elems(_tree(s)):
            ln = etree.QName(e).localname
            for a, v in e.attrib.items():
                if _NUM.match(v):
                    fields.setdefault((s['role'], s['name'], ln, a), s)
            if e.text and len(e) == 0 and _NUM.match(e.text.strip()):
                fields.setdefault((s['role'], s['name'], ln, None), s)
    return fields


def m_number(rng, env, seed, field=None, value=None):
    """One numeric field of a valid request replaced by a boundary / huge / negative / malformed number."""
    if field is None:
        fields = getattr(env, '_numeric_fields', None)
        if fields is None:
            fields = env._numeric_fields = numeric_fields(env)
        field = rng.choice(sorted(fields, key=str))
        seed = fields[field]
    value = rng.choice(NUMBERS) if value is None else value
    _, _, ln, attr = field
    seed = _rebased(rng, env, seed, p=1.0)
    root = _tree(seed)
    for e in _elems(root):
        if etree.QName(e).localname != ln:
            continue
        if attr is None and e.text and len(e) == 0 and _NUM.match(e.text.strip()):
            e.text = value
            break
        if attr is not None and attr in e.attrib:
            e.set(attr, value)
            break
    doc = _ser(root)
    return render(seed, xml=doc), {'mut': f's.number.{ln}.{attr or "text"}', 'doc': doc, 'rebased': seed.get('rebased', False)}


def m_expires(rng, env, seed, value=None, how=None):
    """Subscribe / Renew with a hostile wse:Expires (duration or dateTime lexical space: huge, negative, zero, overflowing, malformed)."""
    cands = [s for s in env.seeds if s['name'] in ('Subscribe', 'Renew') and b'Expires' in s['xml']]
    if seed not in cands:
        seed = rng.choice(cands)
    value = rng.choice(EXPIRES) if value is None else value
    how = how or rng.choice(['text', 'text', 'text', 'dup', 'child', 'drop'])
    root = _tree(seed)
    for e in _elems(root):
        if etree.QName(e).localname == 'Expires':
            if how == 'text':
                e.text = value
            elif how == 'dup':
                e.text = value
                e.addnext(copy.deepcopy(e))
            elif how == 'child':
                e.text = None
                etree.SubElement(e, e.tag).text = value
            else:
                e.getparent().remove(e)
            break
    doc = _ser(root)
    cls = 'datetime' if value[:1].isdigit() or value.startswith('-0') else 'duration' if value.lstrip('-').startswith('P') else 'other'
    return render(seed, xml=doc), {'mut': f's.expires_{how}_{cls}', 'doc': doc}


_HUGE_EXPONENTS = itertools.cycle([5000, 19, 4300, 10, 30, 4299, 18, 400])
# number of hex digits of a chunk-size line / of bytes of a chunk header: around every limit involved (16 = old limit of the size scan, 1024 = limit of
# the chunk header, 3571 hex digits = 4300 decimal digits = python's int -> str conversion limit, 8192 / 65536 = usual line / buffer limits)
CHUNK_DIGITS = [1, 15, 16, 17, 255, 1000, 1021, 1022, 1023, 1024, 1025, 1500, 2048, 3000, 3570, 3571, 3572, 3600, 4000, 4299, 4300, 4301, 6000, 8000,
                8189, 8190, 8191, 8192, 8193, 16000, 16384, 65535, 65536, 70000]
_CHUNK_DIGITS = itertools.cycle(CHUNK_DIGITS)
# percent-encoded octets in a request target: ASCII, latin-1, UTF-8 sequences of characters beyond U+00FF, invalid UTF-8, NUL, CR LF (+ marker
# header: response splitting), reserved characters, broken escapes
INJECT = 'X-Vf-Injected'
PERCENT = ['%41', '%61bc', '%E4', '%C3%A4', '%E2%82%AC', '%C4%80', '%F0%9F%98%80', '%E9', '%FF%FE', '%C0%AF', '%ED%A0%80', '%00', '%0D%0A' + INJECT + ':%201',
           '%0A' + INJECT + ':1', '%0D', '%2F', '%2f..%2f', '%25', '%2541', '%20', '%09', '%7F', '%3F', '%23', '%', '%G1', '%u20AC', '%E2%82', '%e2%82%ac' * 40]

def m_path(rng, env, seed, kind=None, pct=None, method=None):
    p = seed['path']
    parts = p.split('/')
    method_arg = method
    kind = kind or rng.choice(['pct_first', 'pct_first', 'pct_in_first', 'pct_after_first', 'pct_service', 'pct_last', 'pct_query', 'pct_encoded_known',
                               'depth_less', 'depth_more', 'unknown_first', 'double_slash', 'query', 'long', 'nonascii', 'other_service', 'root', 'star',
                       'absolute_uri', 'dots', 'get_on_post_path', 'post_on_get_path', 'query_only', 'query_only', 'control_char',
                       'malformed_uri', 'malformed_uri', 'depth_more_hostile', 'depth_more_hostile'])
    method = seed['method']
    xml = seed['xml']
    if kind.startswith('pct_'):
        method = method_arg
    if kind == 'depth_less':
        p = '/'.join(parts[:max(1, len(parts) - rng.randrange(1, 3))]) or '/'
    elif kind == 'depth_more':
        p = p.split('?')[0].rstrip('/') + '/' + '/'.join(rng.choice(['x', 'Get', 'subscr1', '..', '%2e%2e', 'a' * 300]) for _ in range(rng.randrange(1, 4)))
    elif kind == 'depth_more_hostile':
        # ignored trailing path elements with text that is no valid URI / not representable in XML (it may be echoed into addresses of responses)
        p = p.split('?')[0].rstrip('/') + '/' + rng.choice(['%zz', '[', '100%', 'a#b#c', '\x01', 'a b', '<x>', '%', ']]>', '\x7f', 'a\\b', '{}', '^'])
    elif kind == 'unknown_first':
        p = '/' + rng.choice(['nope', 'favicon.ico', parts[1][:-1] if len(parts) > 1 else 'x', parts[1].upper() if len(parts) > 1 else 'X', '%00']) + '/' + '/'.join(parts[2:])
    elif kind == 'double_slash':
        p = p.replace('/', '//', rng.randrange(1, 3))
    elif kind == 'query':
        p = p.split('?')[0] + rng.choice(['?wsdl', '?', '?x=1&wsdl', '?wsdl=1', '#frag', '?%', ';param'])
    elif kind == 'long':
        p = p + '/' + 'a' * rng.choice([1000, 20000, 70000])
    elif kind == 'nonascii':
        p = p + rng.choice(['/\xe4\xf6', '/%C3%A4', '/\x7f', '/a b'])
    elif kind == 'other_service':
        svc = rng.choice(['Get', 'Set', 'StateEvent', 'ContainmentTree', 'Localization', 'subscr1', 'subscr2_e', ''])
        p = '/'.join(parts[:2] + [svc])
    elif kind == 'root':
        p = '/'
    elif kind == 'star':
        p = '*'
    elif kind == 'absolute_uri':
        p = 'http://127.0.0.1:50001' + p
    elif kind == 'malformed_uri':
        # request targets that the URL splitter of the standard library refuses (unbalanced IPv6 brackets, invalid port, NFKC tricks)
        p = rng.choice(['http://[::1/x', 'http://[/', '//[x' + p, 'http://[::1]x' + p, 'http://a]' + p, 'https://[v1.fe80::a+en1' + p,
                        'http://127.0.0.1:5x' + p, '//\u2100' + p, 'http://[::1' + p])
        if rng.random() < 0.3:
            method, xml = 'GET', b''
    elif kind == 'dots':
        p = '/../' + p
    elif kind == 'control_char':
        # (bytes of the request line are decoded as latin-1 by http.server: control characters end up in the path elements)
        bad = rng.choice(['\x01', '\x0b', '\x1f', '\x08x', 'a\x7f\x02'])
        p = '/'.join(parts[:2] + [rng.choice(['Se' + bad + 't', bad, 'Get' + bad])]) if rng.random() < 0.7 else '/' + bad + p
    elif kind == 'query_only':
        p = rng.choice(['?wsdl', '?' + p[1:], '#x', '?'])
        if rng.random() < 0.5:
            method, xml = 'GET', b''
    elif kind.startswith('pct_'):
        pct = pct or rng.choice(PERCENT)
        base = p.split('?')[0]
        bparts = base.split('/')
        if kind == 'pct_first':                      # unknown first element that is (or contains) a percent-encoded sequence
            p = '/' + rng.choice(['', '', 'x']) + pct + '/' + '/'.join(bparts[2:])
        elif kind == 'pct_in_first' and len(bparts) > 1 and bparts[1]:
            i = rng.randrange(len(bparts[1]))
            p = '/' + bparts[1][:i] + pct + bparts[1][i:] + '/' + '/'.join(bparts[2:])
        elif kind == 'pct_after_first' and len(bparts) > 1:
            p = '/' + bparts[1] + pct + '/' + '/'.join(bparts[2:])
        elif kind == 'pct_service' and len(bparts) > 2:
            p = '/'.join(bparts[:2] + [rng.choice([pct, bparts[2] + pct, pct + bparts[2]])] + bparts[3:])
        elif kind == 'pct_last':
            p = base.rstrip('/') + '/' + pct
        elif kind == 'pct_query':
            p = base + '?' + rng.choice(['wsdl', 'x=']) + pct
        elif kind == 'pct_encoded_known':            # the registered names, percent-encoded (equivalent URI by RFC 3986 6.2.2.2)
            which = rng.randrange(1, len(bparts)) if len(bparts) > 1 else 0
            el = bparts[which]
            i = rng.randrange(len(el)) if el else 0
            bparts[which] = (el[:i] + '%%%02X' % ord(el[i]) + el[i + 1:]) if el and rng.random() < 0.7 else ''.join('%%%02x' % ord(c) for c in el)
            p = '/'.join(bparts)
        else:
            p = '/' + pct + p
        if method == 'GET' or (method is None and rng.random() < 0.3):
            method, xml = 'GET', b''
        else:
            method = 'POST'
            if not xml:
                xml = rng.choice([s for s in env.seeds if s['method'] == 'POST'])['xml']
    elif kind == 'get_on_post_path':
        method, xml = 'GET', b''
    elif kind == 'post_on_get_path':
        method = 'POST'
        xml = rng.choice([s['xml'] for s in env.seeds if s['method'] == 'POST'])
    try:
        raw = render(seed, xml=xml, path=p, method=method)
    except UnicodeEncodeError:
        raw = render(seed, xml=xml, path='/x', method=method)
    return raw, {'mut': f'p.{kind}', 'doc': xml if method == 'POST' else None}


def _doctype(kind, env, token=EXPANDED.encode()):
    cdir = env.canary_dir
    if kind == 'internal_entity':
        return b'<!DOCTYPE x [<!ENTITY e "%s">]>' % token, b'&e;'
    if kind == 'external_file':
        return b'<!DOCTYPE x [<!ENTITY e SYSTEM "file://%s/canary.txt">]>' % cdir.encode(), b'&e;'
    if kind == 'external_url':
        return b'<!DOCTYPE x [<!ENTITY e SYSTEM "http://127.0.0.1:%d/canary">]>' % CANARY_PORT, b'&e;'
    if kind == 'param_entity':
        return b'<!DOCTYPE x [<!ENTITY %% p SYSTEM "file://%s/canary_param.dtd"> %%p;]>' % cdir.encode(), b'&fromparam;'
    if kind == 'param_entity_url':
        return b'<!DOCTYPE x [<!ENTITY %% p SYSTEM "http://127.0.0.1:%d/canary.dtd"> %%p;]>' % CANARY_PORT, b''
    if kind == 'external_dtd':
        return b'<!DOCTYPE x SYSTEM "file://%s/canary.dtd">' % cdir.encode(), b'&fromdtd;'
    if kind == 'external_dtd_url':
        return b'<!DOCTYPE x PUBLIC "-//X//Y" "http://127.0.0.1:%d/canary.dtd">' % CANARY_PORT, b''
    if kind == 'billion_laughs':
        ents = [b'<!ENTITY a0 "%s">' % (token * 10)]
        for i in range(1, 9):
            ents.append(b'<!ENTITY a%d "%s">' % (i, (b'&a%d;' % (i - 1)) * 10))
        return b'<!DOCTYPE x [' + b''.join(ents) + b']>', b'&a8;'
    if kind == 'attr_default':
        return b'<!DOCTYPE x [<!ATTLIST x a CDATA "%s">]>' % token, b''
    raise ValueError(kind)


DOCTYPE_KINDS = ['internal_entity', 'external_file', 'external_url', 'param_entity', 'param_entity_url', 'external_dtd', 'external_dtd_url',
                 'billion_laughs', 'attr_default']
# references to external resources that need no DOCTYPE (they must simply never be followed) and other transports of a DOCTYPE document
NODOCTYPE_KINDS = ['xinclude_file', 'xinclude_url', 'schema_location', 'stylesheet_pi']
WRAPS = ['utf16', 'gzip_chunked', 'utf8_bom']


def _wrap(seed, doc, wrap):
    if wrap == 'utf16':
        body = re.sub(rb'^\s*<\?xml[^>]*\?>\s*', b'', doc).decode('utf-8')
        return render(seed, xml=('<?xml version="1.0" encoding="UTF-16"?>' + body).encode('utf-16'))
    if wrap == 'utf8_bom':
        return render(seed, xml=b'\xef\xbb\xbf' + doc)
    if wrap == 'gzip_chunked':
        z = L.ref_encode('gzip', doc)
        return L.mk_request('POST', seed['path'], list(seed['headers']) + [('Content-Encoding', 'gzip'), ('Transfer-Encoding', 'chunked')],
                            L.ref_chunk(z, [max(1, len(z) // 3)]))
    return render(seed, xml=doc)


def m_doctype(rng, env, seed, kind=None, where=None, wrap=None):
    kind = kind or rng.choice(DOCTYPE_KINDS + DOCTYPE_KINDS + NODOCTYPE_KINDS)
    if wrap is None and rng.random() < 0.15:
        wrap = rng.choice(WRAPS)
    seed = _post_seed(rng, env, seed)
    env.token_counter = getattr(env, 'token_counter', 0) + 1
    token = f'{EXPANDED}-{env.token_counter}-'.encode()     # unique per request: earlier accepted requests cannot pollute the verdict
    xml = seed['xml']
    m = re.match(rb'\s*<\?xml[^>]*\?>\s*', xml)
    decl, rest = (m.group(0), xml[m.end():]) if m else (b'', xml)
    if kind in NODOCTYPE_KINDS:
        cdir = env.canary_dir.encode()
        if kind in ('xinclude_file', 'xinclude_url'):
            href = b'file://%s/canary.txt' % cdir if kind == 'xinclude_file' else b'http://127.0.0.1:%d/canary' % CANARY_PORT
            inc = b'<xi:include xmlns:xi="http://www.w3.org/2001/XInclude" href="%s" parse="text"/>' % href
            # where text is interpreted (MessageID is echoed as RelatesTo) and as an element of the body
            rest = re.sub(rb'(MessageID[^>]*>)([^<]*)(<)', lambda x: x.group(1) + x.group(2) + inc + x.group(3), rest, count=1)
            rest = re.sub(rb'(Body[^>]*>)', lambda x: x.group(1) + inc, rest, count=1)
        elif kind == 'schema_location':
            att = (b' xmlns:xsi="http://www.w3.org/2001/XMLSchema-instance" xsi:schemaLocation="%s http://127.0.0.1:%d/canary.xsd" '
                   b'xsi:noNamespaceSchemaLocation="file://%s/canary.dtd"' % (S12.encode(), CANARY_PORT, cdir))
            rest = re.sub(rb'^(<[A-Za-z0-9:_.-]+)', lambda x: x.group(1) + att, rest, count=1)
        else:
            decl = decl + b'<?xml-stylesheet type="text/xsl" href="file://%s/canary.dtd"?><?xml-model href="http://127.0.0.1:%d/canary.rng"?>' % (cdir, CANARY_PORT)
        doc = decl + rest
        return _wrap(seed, doc, wrap), {'mut': f'd.{kind}' + (f'+{wrap}' if wrap else ''), 'doc': doc, 'doctype': True, 'no_doctype': True, 'where': '-',
                                        'token': token}
    dt, ref = _doctype(kind, env, token)
    root_name = re.match(rb'<([A-Za-z0-9:_.-]+)', rest)
    if root_name:
        dt = dt.replace(b'<!DOCTYPE x', b'<!DOCTYPE ' + root_name.group(1), 1).replace(b'<!ATTLIST x', b'<!ATTLIST ' + root_name.group(1))
    if ref:
        # put the reference where the library echoes / interprets text: MessageID (-> RelatesTo), Action, a handle, any text node
        where = where or rng.choice(['MessageID', 'Action', 'To', 'text', 'attr', 'attr'])
        pat = {'MessageID': rb'(MessageID[^>]*>)([^<]*)(<)', 'Action': rb'(Action[^>]*>)([^<]*)(<)', 'To': rb'(To[^>]*>)([^<]*)(<)',
               'text': rb'(HandleRef[^>]*>|Givenname[^>]*>|RequestedStringValue[^>]*>|Identifier[^>]*>|Address[^>]*>)([^<]*)(<)',
               'attr': rb'( Handle="|DescriptorHandle="|Dialect="|IsReferenceParameter=")([^"]*)(")'}[where]
        mm = list(re.finditer(pat, rest))
        if mm:
            x = rng.choice(mm)
            keep = x.group(2) if where in ('MessageID',) and rng.random() < 0.5 else b''
            rest = rest[:x.start()] + x.group(1) + keep + ref + x.group(3) + rest[x.end():]
        else:
            rest = re.sub(rb'(MessageID[^>]*>)([^<]*)(<)', lambda x: x.group(1) + ref + x.group(3), rest, count=1)
    else:
        where = '-'
    if kind == 'external_file' and rng.random() < 0.3:
        # XInclude / schemaLocation variants ride along
        rest = rest.replace(b'Body>', b'Body><xi:include xmlns:xi="http://www.w3.org/2001/XInclude" href="file://%s/canary.txt" parse="text"/>' % env.canary_dir.encode(), 1) \
            if b'Body>' in rest else rest
    doc = decl + dt + rest
    return _wrap(seed, doc, wrap), {'mut': f'd.{kind}' + (f'+{wrap}' if wrap else ''), 'doc': doc, 'doctype': True, 'where': where, 'token': token}


def m_encoding(rng, env, seed):
    seed = _post_seed(rng, env, seed)
    xml = seed['xml']
    kind = rng.choice(['utf16', 'utf16_nodecl', 'latin1', 'invalid_utf8', 'bom', 'wrong_decl', 'utf32', 'nul', 'cp1252_decl', 'ebcdic'])
    m = re.match(rb'\s*<\?xml[^>]*\?>\s*', xml)
    rest = xml[m.end():] if m else xml
    text = rest.decode('utf-8')
    if kind == 'utf16':
        doc = ('<?xml version="1.0" encoding="UTF-16"?>' + text).encode('utf-16')
    elif kind == 'utf16_nodecl':
        doc = text.encode('utf-16-le')
    elif kind == 'utf32':
        doc = ('<?xml version="1.0" encoding="UTF-32"?>' + text).encode('utf-32')
    elif kind == 'latin1':
        t = re.sub(r'(Givenname>|ArgValue>|RequestedStringValue>)([^<]*)', lambda x: x.group(1) + 'J\xfcrgen\xe4', text)
        doc = ('<?xml version="1.0" encoding="ISO-8859-1"?>' + t).encode('latin-1', 'replace')
    elif kind == 'invalid_utf8':
        b = bytearray(xml)
        for _ in range(rng.randrange(1, 4)):
            b.insert(rng.randrange(len(b)), rng.choice([0xff, 0xc0, 0x80, 0xfe, 0xed]))
        doc = bytes(b)
    elif kind == 'bom':
        doc = rng.choice([b'\xef\xbb\xbf', b'\xff\xfe', b'\xfe\xff', b'\xef\xbb\xbf\xef\xbb\xbf']) + xml
    elif kind == 'wrong_decl':
        doc = b'<?xml version="1.0" encoding="' + rng.choice([b'UTF-16', b'nonsense', b'', b'UTF-7', b'ascii']) + b'"?>' + rest
    elif kind == 'nul':
        b = bytearray(xml)
        b.insert(rng.randrange(len(b)), 0)
        doc = bytes(b)
    elif kind == 'cp1252_decl':
        doc = b'<?xml version="1.1" encoding="windows-1252"?>' + rest
    else:
        try:
            doc = ('<?xml version="1.0" encoding="cp037"?>' + text).encode('cp037')
        except UnicodeEncodeError:
            doc = xml
    ct = rng.choice([None, 'application/soap+xml; charset=utf-16', 'text/xml', 'application/soap+xml; charset=iso-8859-1'])
    headers = [(k, v) for k, v in seed['headers'] if not (ct and k.lower() == 'content-type')] + ([('Content-Type', ct)] if ct else [])
    return render(seed, xml=doc, headers=headers), {'mut': f'e.{kind}', 'doc': doc}


FRAMING_KINDS = ['no_cl', 'cl_negative', 'cl_minus1', 'cl_nonnumeric', 'cl_small', 'cl_large', 'cl_dup', 'cl_and_te', 'cl_empty', 'cl_plus', 'cl_huge',
                 'chunked_ok', 'chunk_trunc_data', 'chunk_trunc_size', 'chunk_trunc_crlf', 'chunk_no_crlf', 'chunk_neg', 'chunk_overlong',
                 'chunk_ext_short', 'chunk_ext_long', 'chunk_bad_hex', 'chunk_no_last', 'chunk_only_eof', 'chunk_lf_only', 'chunk_trailer', 'chunk_huge_size',
                 'chunk_unterminated_size', 'chunk_size_line_70k', 'chunk_size_digits', 'chunk_size_digits', 'chunk_header_len',
                 'no_host', 'dup_host', 'host_hostile', 'hdr_8bit', 'hdr_name_hostile', 'dup_te_ce', 'get_with_body',
                 'te_unknown', 'te_list', 'ce_unknown', 'ce_corrupt', 'ce_gzip_ok', 'ce_lz4_ok', 'ce_nobody', 'ce_upper', 'ce_truncated', 'ce_bomb',
                 'expect100', 'http10', 'http09', 'http2', 'method', 'many_headers', 'huge_header', 'pipelined', 'trunc_headers', 'conn_close',
                 'no_ct', 'weird_ct', 'bare_lf', 'header_fold', 'accept_q0', 'accept_garbage', 'lowercase_method', 'trunc_request_line']


# framings of an unchanged valid request that HTTP/1.1 (RFC 7230) and the codings announced by the endpoint itself (Accept-Encoding of its own
# clients = its supported_encodings) make equivalent to the recorded one: the request must still be accepted
EQUIVALENT_FRAMINGS = {'f.chunked_ok', 'f.ce_gzip_ok', 'f.ce_lz4_ok', 'f.http10', 'f.expect100', 'f.conn_close', 'f.chunk_ext_short'}


def m_framing(rng, env, seed, kind=None, arg=None):
    kind = kind or rng.choice(FRAMING_KINDS)
    xml = seed['xml'] if seed['method'] == 'POST' else rng.choice([s for s in env.seeds if s['method'] == 'POST'])['xml']
    post_seed = seed if seed['method'] == 'POST' else rng.choice([s for s in env.seeds if s['method'] == 'POST' and s['role'] == seed['role']] or [seed])
    hd = list(post_seed['headers'])
    path = post_seed['path']
    info = {'mut': f'f.{kind}', 'doc': xml}

    def req(headers, body, version='HTTP/1.1', method='POST', p=None):
        return L.mk_request(method, p or path, hd + headers, body, version)
    n = len(xml)
    if kind == 'no_cl':
        raw = req([], xml)
    elif kind == 'cl_negative':
        raw = req([('Content-Length', str(-rng.randrange(2, 10 ** rng.randrange(1, 12))))], xml)
    elif kind == 'cl_minus1':
        raw = req([('Content-Length', '-1')], xml)
    elif kind == 'cl_nonnumeric':
        raw = req([('Content-Length', rng.choice(['abc', '12a', '0x10', '1e3', '１２'.encode(), '1 2', '1,2', '++1', '',
                                                       b'\xb2', b'1\xb3', b'\xb9\xb2\xb3', '٣'.encode(), b'\xbd']))], xml)
    elif kind == 'cl_empty':
        raw = req([('Content-Length', '')], xml)
    elif kind == 'cl_plus':
        raw = req([('Content-Length', rng.choice([f'+{n}', f' {n} ', f'{n}.0', f'0{n}', f'{n}_0'.replace(str(n), str(n)[:-1] + '_' + str(n)[-1]) if n > 9 else '1_0']))], xml)
    elif kind == 'cl_small':
        raw = req([('Content-Length', str(rng.randrange(0, n)))], xml)
    elif kind == 'cl_large':
        raw = req([('Content-Length', str(n + rng.choice([1, 2, 100, 10 ** 6])))], xml)
    elif kind == 'cl_huge':
        raw = req([('Content-Length', '1' + '0' * next(_HUGE_EXPONENTS))], xml)   # all of them in every run (str(int) refuses > 4300 digits)
    elif kind == 'cl_dup':
        raw = req([('Content-Length', str(n)), ('Content-Length', str(rng.choice([0, n, n + 5])))], xml)
    elif kind == 'cl_and_te':
        raw = req([('Content-Length', str(rng.choice([0, n, n + 7]))), ('Transfer-Encoding', 'chunked')], L.ref_chunk(xml, [max(1, n // 2)]))
    elif kind == 'chunked_ok':
        raw = req([('Transfer-Encoding', 'chunked')], L.ref_chunk(xml, [rng.randrange(1, n + 2)], upper=rng.random() < 0.3))
        info['valid'] = True
    elif kind == 'chunk_trunc_data':
        ch = L.ref_chunk(xml, [max(1, n // 2)])
        raw = req([('Transfer-Encoding', 'chunked')], ch[:rng.randrange(8, max(9, len(ch) - 8))])
    elif kind == 'chunk_trunc_size':
        ch = L.ref_chunk(xml, [max(1, n // 2)])
        cut = ch.find(b'\r\n', n // 2) + 2
        raw = req([('Transfer-Encoding', 'chunked')], ch[:cut + rng.choice([0, 1, 2])] if rng.random() < 0.7 else b'')
    elif kind == 'chunk_trunc_crlf':
        ch = L.ref_chunk(xml, [n])
        raw = req([('Transfer-Encoding', 'chunked')], ch[:-rng.randrange(1, 7)])
    elif kind == 'chunk_no_crlf':
        raw = req([('Transfer-Encoding', 'chunked')], b'%x\r\n' % n + xml + rng.choice([b'', b'XX', b'\n\n', b'\r\r']) + b'0\r\n\r\n')
    elif kind == 'chunk_neg':
        raw = req([('Transfer-Encoding', 'chunked')], b'-%x\r\n' % rng.randrange(1, n + 5) + xml + b'\r\n0\r\n\r\n')
    elif kind == 'chunk_overlong':
        raw = req([('Transfer-Encoding', 'chunked')], b'%x\r\n' % (n + rng.choice([1, 5, 1000, 2 ** 40])) + xml + b'\r\n0\r\n\r\n')
    elif kind == 'chunk_huge_size':
        raw = req([('Transfer-Encoding', 'chunked')], rng.choice([b'ffffffffffffff', b'7fffffffffffffff', b'10000000000000']) + b'\r\n' + xml + b'\r\n0\r\n\r\n')
    elif kind == 'chunk_ext_short':
        raw = req([('Transfer-Encoding', 'chunked')], L.ref_chunk(xml, [n], ext=b';a=b'))
        info['valid'] = True
    elif kind == 'chunk_ext_long':
        raw = req([('Transfer-Encoding', 'chunked')], L.ref_chunk(xml, [n], ext=b';name=' + b'v' * rng.choice([12, 40, 5000])))
    elif kind == 'chunk_bad_hex':
        raw = req([('Transfer-Encoding', 'chunked')], rng.choice([b'zz', b'0x10', b'', b' ', b'1 0', b'+5', b'5_0', b'\xef\xbc\x95']) + b'\r\n' + xml + b'\r\n0\r\n\r\n')
    elif kind == 'chunk_no_last':
        raw = req([('Transfer-Encoding', 'chunked')], b'%x\r\n' % n + xml + b'\r\n')
    elif kind == 'chunk_only_eof':
        raw = req([('Transfer-Encoding', 'chunked')], rng.choice([b'', b'5', b'5\r', b'\r\n', b'5\r\nab']))
    elif kind == 'chunk_lf_only':
        raw = req([('Transfer-Encoding', 'chunked')], b'%x\n' % n + xml + b'\n0\n\n')
    elif kind == 'chunk_trailer':
        raw = req([('Transfer-Encoding', 'chunked')], b'%x\r\n' % n + xml + b'\r\n0\r\nX-Trailer: 1\r\n\r\n')
    elif kind == 'chunk_unterminated_size':
        raw = req([('Transfer-Encoding', 'chunked')], rng.choice([b'1', b'a', b'0']) * rng.choice([17, 300, 70000]) + rng.choice([b'', b'\r\n' + xml + b'\r\n0\r\n\r\n']))
    elif kind == 'chunk_size_line_70k':
        raw = req([('Transfer-Encoding', 'chunked')], b'0' * 70000 + b'1\r\nX\r\n0\r\n\r\n')
    elif kind == 'chunk_size_digits':
        # a chunk-size line that is one long hex number (optionally + chunk extension), followed by less data than announced
        digits, variant = arg if arg is not None else (next(_CHUNK_DIGITS), rng.randrange(6))
        digit = [b'f', b'1', b'7', b'F', b'a', b'8'][variant % 6]
        ext = [b'', b';name=value', b'', b' ;x', b'', b';' + b'e' * 40][variant % 6]
        tail = [b'\r\n<x/>', b'\r\n<x/>\r\n0\r\n\r\n', b'\r\n', b'\r\n' + xml + b'\r\n0\r\n\r\n', b'', b'\r\n' + xml][variant % 6]
        raw = req([('Transfer-Encoding', 'chunked')], digit * digits + ext + tail)
        info['doc'] = None
    elif kind == 'chunk_header_len':
        # a correct chunk whose header line (size with leading zeros / extension) has a length around the limits of the header scan
        total = arg if arg is not None else rng.choice([14, 15, 16, 17, 18, 1020, 1021, 1022, 1023, 1024, 1025, 1026, 8190, 8192, 8194])
        size = b'%x' % n
        if rng.random() < 0.5:
            line = b'0' * max(0, total - len(size)) + size
        else:
            line = size + b';' + b'e' * max(0, total - len(size) - 1)
        raw = req([('Transfer-Encoding', 'chunked')], line + b'\r\n' + xml + b'\r\n0\r\n\r\n')
    elif kind == 'no_host':
        hd = [(k, v) for k, v in hd if k.lower() != 'host']
        raw = req([('Content-Length', str(n))], xml)
    elif kind == 'dup_host':
        raw = req([('Host', rng.choice(['evil.example', '127.0.0.1:1', ''])), ('Content-Length', str(n))], xml)
    elif kind == 'host_hostile':
        hd = [(k, v) for k, v in hd if k.lower() != 'host']
        raw = req([('Host', rng.choice([b'\xe4\xf6', b'a b', b'[::1', b'127.0.0.1:99999999999999999999', b'x' * 5000, b'<x>&amp;"\'', b'\x01\x02', b'%0d%0a' + INJECT.encode() + b':1',
                                       '\u20ac'.encode(), b'http://a/b?c#d', b'127.0.0.1:50001, evil'])), ('Content-Length', str(n))], xml)
    elif kind == 'hdr_8bit':
        name = rng.choice(['Content-Encoding', 'Transfer-Encoding', 'Accept-Encoding', 'Content-Type', 'Expect', 'Connection', 'SOAPAction'])
        hd = [(k, v) for k, v in hd if k.lower() != name.lower()]
        raw = req([(name, rng.choice([b'\xff', b'gzip\xa0', b'\x80chunked', '\u20ac'.encode(), b'\x00', b'=?utf-8?b?Z3ppcA==?=', b'\xb2'])), ('Content-Length', str(n))], xml)
    elif kind == 'hdr_name_hostile':
        raw = req([(rng.choice(['X Y', 'X\x01', '\xe4', '', 'X:', '(x)', 'Content-Length ', ' Content-Length', 'Content_Length', 'CONTENT-LENGTH']), rng.choice(['1', str(n)])),
                   ('Content-Length', str(n))], xml)
    elif kind == 'dup_te_ce':
        z = L.ref_encode('gzip', xml)
        which = rng.randrange(3)
        if which == 0:
            raw = req([('Transfer-Encoding', 'chunked'), ('Transfer-Encoding', 'identity')], L.ref_chunk(xml, [n]))
        elif which == 1:
            raw = req([('Content-Encoding', 'gzip'), ('Content-Encoding', 'identity'), ('Content-Length', str(len(z)))], z)
        else:
            raw = req([('Content-Encoding', 'gzip'), ('Transfer-Encoding', 'chunked')], L.ref_chunk(z, [max(1, len(z) // 3)]))
    elif kind == 'get_with_body':
        gets = [s for s in env.seeds if s['method'] == 'GET' and s['role'] == post_seed['role']]
        gp = rng.choice(gets)['path'] if gets else path
        raw = rng.choice([req([('Content-Length', str(n))], xml, method='GET', p=gp),
                          req([('Transfer-Encoding', 'chunked')], L.ref_chunk(xml, [n]), method='GET', p=gp),
                          req([('Content-Encoding', 'gzip'), ('Content-Length', '3')], b'abc', method='GET', p=gp)])
        info['doc'] = None
        info['pipelined'] = True
    elif kind == 'te_unknown':
        raw = req([('Transfer-Encoding', rng.choice(['gzip', 'identity', 'chunked ', 'x', 'CHUNKED'])), ('Content-Length', str(n))], xml)
    elif kind == 'te_list':
        raw = req([('Transfer-Encoding', rng.choice(['gzip, chunked', 'chunked, chunked', 'chunked;q=1']))], L.ref_chunk(xml, [n]))
    elif kind == 'ce_unknown':
        raw = req([('Content-Encoding', rng.choice(['br', 'deflate', 'identity', 'zstd', 'x', 'gzip, gzip'])), ('Content-Length', str(n))], xml)
    elif kind == 'ce_upper':
        z = L.ref_encode('gzip', xml)
        raw = req([('Content-Encoding', rng.choice(['GZIP', 'Gzip', 'X-LZ4'])), ('Content-Length', str(len(z)))], z)
    elif kind == 'ce_corrupt':
        coding = rng.choice(['gzip', 'x-lz4', 'lz4'])
        z = bytearray(L.ref_encode(coding, xml))
        how = rng.randrange(4)
        if how == 0:
            z = xml
        elif how == 1:
            z[rng.randrange(len(z))] ^= 0xff
        elif how == 2:
            z = z[:rng.randrange(1, len(z))]
        else:
            z = rng.randbytes(rng.randrange(0, 50))
        raw = req([('Content-Encoding', coding), ('Content-Length', str(len(z)))], bytes(z))
        info['ce'] = coding
    elif kind == 'ce_truncated':
        z = L.ref_encode('gzip', xml)
        raw = req([('Content-Encoding', 'gzip'), ('Content-Length', str(len(z)))], z[:len(z) // 2])
    elif kind == 'ce_bomb':
        z = L.ref_encode('gzip', b' ' * rng.choice([10 ** 6, 3 * 10 ** 7]) + xml)
        raw = req([('Content-Encoding', 'gzip'), ('Content-Length', str(len(z)))], z)
        info['doc'] = None
    elif kind in ('ce_gzip_ok', 'ce_lz4_ok'):
        coding = 'gzip' if kind == 'ce_gzip_ok' else rng.choice(['x-lz4', 'lz4'])
        z = L.ref_encode(coding, xml)
        raw = req([('Content-Encoding', coding), ('Content-Length', str(len(z)))], z)
        info['valid'] = coding in (env.servers[post_seed['role']].supported_encodings or [])
    elif kind == 'ce_nobody':
        raw = req([('Content-Encoding', rng.choice(['gzip', 'x-lz4']))] + rng.choice([[], [('Content-Length', '0')]]), b'')
    elif kind == 'expect100':
        raw = req([('Expect', '100-continue'), ('Content-Length', str(n))], xml)
        info['valid'] = True
    elif kind == 'http10':
        raw = req([('Content-Length', str(n))], xml, version='HTTP/1.0')
        info['valid'] = True
    elif kind == 'http09':
        raw = f'{rng.choice(["GET", "POST"])} {path}\r\n'.encode() + rng.choice([b'', xml])
    elif kind == 'http2':
        raw = req([('Content-Length', str(n))], xml, version=rng.choice(['HTTP/2.0', 'HTTP/1.9', 'HTTP/1', 'HTTX/1.1', 'HTTP/1.1.1', 'HTTP/-1.1', 'HTTP/1.999999999999']))
    elif kind == 'method':
        raw = req([('Content-Length', str(n))], xml, method=rng.choice(['PUT', 'DELETE', 'HEAD', 'OPTIONS', 'PATCH', 'TRACE', 'CONNECT', 'M-SEARCH', 'X' * 200]))
    elif kind == 'lowercase_method':
        raw = req([('Content-Length', str(n))], xml, method=rng.choice(['post', 'Post', 'get']))
    elif kind == 'many_headers':
        raw = req([(f'X-H{i}', 'v') for i in range(rng.choice([50, 99, 101, 300]))] + [('Content-Length', str(n))], xml)
    elif kind == 'huge_header':
        raw = req([('X-Big', 'v' * rng.choice([60000, 65536, 70000, 200000])), ('Content-Length', str(n))], xml)
    elif kind == 'pipelined':
        others = [s for s in env.seeds if s['role'] == post_seed['role']]
        raw = b''.join(render(rng.choice(others)) for _ in range(rng.randrange(2, 5)))
        info['pipelined'] = True
        info['then_valid'] = True
        info['doc'] = None
    elif kind == 'trunc_headers':
        full = req([('Content-Length', str(n))], xml)
        raw = full[:rng.randrange(1, full.find(b'\r\n\r\n') + 3)]
    elif kind == 'trunc_request_line':
        raw = f'POST {path}'.encode()[:rng.randrange(1, 20)]
    elif kind == 'conn_close':
        raw = req([('Connection', 'close'), ('Content-Length', str(n))], xml) + rng.randbytes(20)
        info['valid'] = True
    elif kind == 'no_ct':
        hd = [(k, v) for k, v in hd if k.lower() != 'content-type']
        raw = req([('Content-Length', str(n))], xml)
        info['valid'] = True
    elif kind == 'weird_ct':
        hd = [(k, v) for k, v in hd if k.lower() != 'content-type']
        raw = req([('Content-Type', rng.choice(['text/plain', 'multipart/form-data; boundary=x', 'application/json', ';;;', 'application/soap+xml; charset=klingon'])),
                   ('Content-Length', str(n))], xml)
    elif kind == 'bare_lf':
        raw = req([('Content-Length', str(n))], xml).replace(b'\r\n', b'\n', rng.randrange(1, 6))
    elif kind == 'header_fold':
        raw = req([('X-Fold', 'a\r\n b'), ('Content-Length', str(n))], xml)
    elif kind == 'accept_q0':
        hd = [(k, v) for k, v in hd if k.lower() != 'accept-encoding']
        raw = req([('Accept-Encoding', rng.choice(['gzip;q=0', '*;q=0', 'identity;q=0', 'gzip;q=0, x-lz4;q=0, lz4;q=0'])), ('Content-Length', str(n))], xml)
        info['valid'] = True
    elif kind == 'accept_garbage':
        hd = [(k, v) for k, v in hd if k.lower() != 'accept-encoding']
        raw = req([('Accept-Encoding', rng.choice(['gzip;q=abc', ';;;', ',,,', 'gzip;q=', '=;=', 'a' * 5000, 'gzip;q=1;q=0', '\xff\xfe', 'gzip;'])),
                   ('Content-Length', str(n))], xml)
    else:
        raise ValueError(kind)
    if seed['method'] != 'POST':
        info.pop('valid', None)    # (body and path come from different recorded requests)
    return raw, info


def m_raw(rng, env, seed):
    kind = rng.choice(['random', 'random_after_line', 'random_body', 'bitflip', 'truncate', 'splice', 'insert', 'empty', 'crlf_only', 'zeros'])
    base = render(seed)
    info = {'mut': f'r.{kind}', 'doc': None}
    if kind == 'random':
        raw = rng.randbytes(rng.choice([1, 10, 100, 3000, 70000]))
    elif kind == 'random_after_line':
        raw = base[:base.find(b'\r\n') + 2] + rng.randbytes(rng.choice([0, 1, 10, 300, 70000]))
    elif kind == 'random_body':
        body = rng.randbytes(rng.choice([0, 1, 10, 300, 5000]))
        raw = L.mk_request('POST', seed['path'], list(seed['headers']) + [('Content-Length', str(len(body)))], body)
    elif kind == 'bitflip':
        b = bytearray(base)
        for _ in range(rng.choice([1, 1, 2, 5, 20])):
            i = rng.randrange(len(b))
            b[i] ^= 1 << rng.randrange(8)
        raw = bytes(b)
    elif kind == 'truncate':
        raw = base[:rng.randrange(0, len(base))]
    elif kind == 'splice':
        other = render(rng.choice(env.seeds))
        raw = base[:rng.randrange(len(base))] + other[rng.randrange(len(other)):]
    elif kind == 'insert':
        i = rng.randrange(len(base))
        raw = base[:i] + rng.randbytes(rng.randrange(1, 30)) + base[i:]
    elif kind == 'empty':
        raw = b''
    elif kind == 'crlf_only':
        raw = b'\r\n' * rng.randrange(1, 300)
    else:
        raw = bytes(rng.choice([1, 100, 70000]))
    return raw, info


SEQ_KINDS = ['unknown_path_then_valid', 'fault_then_valid', 'get_body_then_valid', 'trailer_then_valid', 'dechunk_error_then_valid', 'valid_then_garbage',
             'http10_keepalive', 'cl_short_then_valid', 'head_then_valid', 'valid_x3_close_first', 'expect_then_valid']


def m_sequence(rng, env, seed, kind=None):
    """Several requests on ONE connection where an earlier one is rejected / leaves the stream in a doubtful position (keep-alive handling)."""
    kind = kind or rng.choice(SEQ_KINDS)
    same = [s for s in env.seeds if s['role'] == seed['role']]
    posts = [s for s in same if s['method'] == 'POST']
    ps = seed if seed['method'] == 'POST' else rng.choice(posts)
    valid = render(rng.choice(same))
    hd, path, xml = list(ps['headers']), ps['path'], ps['xml']
    n = len(xml)
    if kind == 'unknown_path_then_valid':
        first = L.mk_request('POST', '/nope' + path, hd + [('Content-Length', str(n))], xml)
    elif kind == 'fault_then_valid':
        first = L.mk_request('POST', path, hd + [('Content-Length', str(n))], xml.replace(b':Body', b':Bodx'))
    elif kind == 'get_body_then_valid':
        first = L.mk_request('GET', path + '/?wsdl', hd + [('Content-Length', str(n))], xml)
    elif kind == 'trailer_then_valid':
        first = L.mk_request('POST', path, hd + [('Transfer-Encoding', 'chunked')], b'%x\r\n' % n + xml + b'\r\n0\r\nX-Trailer: 1\r\n\r\n')
    elif kind == 'dechunk_error_then_valid':
        first = L.mk_request('POST', path, hd + [('Transfer-Encoding', 'chunked')], b'zz\r\n' + xml + b'\r\n0\r\n\r\n')
    elif kind == 'valid_then_garbage':
        first, valid = valid, rng.randbytes(rng.choice([1, 30, 3000]))
    elif kind == 'http10_keepalive':
        first = L.mk_request('POST', path, hd + [('Connection', 'keep-alive'), ('Content-Length', str(n))], xml, version='HTTP/1.0')
    elif kind == 'cl_short_then_valid':
        first = L.mk_request('POST', path, hd + [('Content-Length', str(n // 2))], xml)
    elif kind == 'head_then_valid':
        first = L.mk_request(rng.choice(['HEAD', 'OPTIONS', 'PUT']), path, hd + [('Content-Length', '0')], b'')
    elif kind == 'valid_x3_close_first':
        first = L.mk_request('POST', path, hd + [('Connection', 'close'), ('Content-Length', str(n))], xml) + valid
    else:
        first = L.mk_request('POST', path, hd + [('Expect', rng.choice(['100-continue', '200-ok', ''])), ('Content-Length', str(n))], xml)
    # kinds after which the position in the stream is well defined: when the handler goes on with the connection, the unchanged valid request that
    # follows must get its normal answer (closing the connection instead is just as good)
    then_valid = kind in ('unknown_path_then_valid', 'fault_then_valid', 'http10_keepalive', 'expect_then_valid')
    return first + valid, {'mut': f'q.{kind}', 'doc': None, 'pipelined': True, 'then_valid': then_valid}


def m_valid(rng, env, seed, rebase=None):
    fr = rng.choice(['cl', 'cl', 'chunked'])
    seed = _rebased(rng, env, seed, p=0.5 if rebase is None else float(rebase))
    return render(seed, framing=fr), {'mut': 'valid', 'doc': seed['xml'], 'valid': True, 'rebased': seed.get('rebased', False)}


MUTATORS = [(m_valid, 8), (m_structure, 33), (m_number, 3), (m_expires, 3), (m_path, 13), (m_doctype, 8), (m_encoding, 8), (m_framing, 30), (m_sequence, 4), (m_raw, 11)]


# ---------------------------------------------------------------------------------------------------------------
# oracle
# ---------------------------------------------------------------------------------------------------------------
ESCAPE_KEYS = {
    ('_read_dechunk', 'AttributeError'): ('chunk.no_size_line_escapes', 'chunk-size line ends at EOF or is longer than 16 bytes: _read_until returns None -> AttributeError leaves do_POST'),
    ('_read_dechunk', 'ValueError'): ('chunk.negative_size_escapes', 'negative chunk size: rfile.read(negative) -> ValueError leaves do_POST'),
    ('_read_dechunk', 'DechunkError'): ('chunk.dechunk_error_escapes', 'malformed chunk (size not hex / missing CRLF): DechunkError leaves do_POST, no response'),
    ('read_request_body', 'OverflowError'): ('framing.huge_content_length_escapes', 'Content-Length is not limited: rfile.read(n) allocates n bytes up front, OverflowError/MemoryError leaves do_POST'),
    ('read', 'MemoryError'): ('framing.huge_content_length_escapes', 'Content-Length is not limited: rfile.read(n) allocates n bytes up front, OverflowError/MemoryError leaves do_POST'),
    ('read_request_body', 'MemoryError'): ('framing.huge_content_length_escapes', 'Content-Length is not limited: rfile.read(n) allocates n bytes up front, OverflowError/MemoryError leaves do_POST'),
    ('_read_dechunk', 'MemoryError'): ('chunk.huge_size_escapes', 'chunk size is not limited: rfile.read(size) allocates size bytes up front, MemoryError/OverflowError leaves do_POST'),
    ('_read_dechunk', 'OverflowError'): ('chunk.huge_size_escapes', 'chunk size is not limited: rfile.read(size) allocates size bytes up front, MemoryError/OverflowError leaves do_POST'),
    ('read_request_body', 'ValueError'): ('framing.bad_content_length_escapes', 'non-numeric or negative Content-Length: ValueError leaves do_POST, no response'),
    ('read_request_body', 'DecompressError'): ('coding.unsupported_escapes', 'unsupported Content-Encoding: DecompressError leaves do_POST, no response'),
    ('decompress_payload', 'error'): ('coding.corrupt_body_escapes', 'corrupt compressed body: decoder exception leaves do_POST, no response'),
    ('decompress_payload', 'RuntimeError'): ('coding.corrupt_body_escapes', 'corrupt compressed body: decoder exception leaves do_POST, no response'),
    ('decompress_payload', 'TypeError'): ('coding.no_body_escapes', 'Content-Encoding without a body: decompress(None) TypeError leaves do_POST'),
    ('get_first_path_element', 'IndexError'): ('path.empty_path_escapes', 'request target without a path (e.g. "?x"): IndexError in get_first_path_element leaves do_POST/do_GET'),
    ('do_POST', 'UnicodeEncodeError'): ('response.status_line_not_encodable', 'text taken from the request ends up in the reason phrase of the status line and cannot be encoded (latin-1): '
                                        'send_response raises inside the error branch, UnicodeEncodeError leaves do_POST, no response'),
    ('_send_plain_response', 'UnicodeEncodeError'): ('response.status_line_not_encodable', 'text taken from the request ends up in the reason phrase of the status line and cannot be '
                                                     'encoded (latin-1): send_response raises inside the error branch, UnicodeEncodeError leaves do_GET/do_POST, no response'),
    ('do_GET', 'UnicodeEncodeError'): ('response.status_line_not_encodable', 'text taken from the request ends up in the reason phrase of the status line and cannot be encoded (latin-1): '
                                       'UnicodeEncodeError leaves do_GET, no response'),
    ('_read_exactly', 'ValueError'): ('framing.huge_number_escapes', 'a length (chunk size / Content-Length) with more digits than python converts to str: building the error text raises '
                                      'ValueError instead of the framing error, it leaves do_POST, no response'),
    ('get_instance', 'InvalidPathError'): ('get.invalid_path_escapes', 'GET for an unknown first path element: InvalidPathError leaves do_GET, no response'),
}


def classify_escape(rec):
    ex = rec['exc']
    tb = rec['tb'] or []
    func = '?'
    for fr in reversed(tb):
        if '/sdc11073/' in fr.filename:
            func = fr.name
            break
    key = ESCAPE_KEYS.get((func, type(ex).__name__))
    if key:
        return key
    if func == 'decompress_payload':
        return 'coding.corrupt_body_escapes', ESCAPE_KEYS[('decompress_payload', 'error')][1]
    return f'escape.{rec["method"]}.{func}.{type(ex).__name__}', f'{type(ex).__name__} raised in {func} leaves do_{rec["method"]}'


def classify_inner(ex):
    import traceback
    func = '?'
    for fr in reversed(traceback.extract_tb(ex.__traceback__)):
        if '/sdc11073/' in fr.filename:
            func = fr.name
            break
    return func, type(ex).__name__


class Plain:
    pass


REACH = [('f.chunk_size_digits', 'chunk_size_ladder'), ('f.chunk_header_len', 'chunk_header_len'), ('p.pct_', 'percent_encoded_target'), ('s.expires_', 'hostile_expires'),
         ('s.number.', 'hostile_number'), ('q.', 'request_sequence'), ('c.closed_', 'closed_server'), ('d.xinclude', 'external_ref_without_doctype'),
         ('d.schema_location', 'external_ref_without_doctype'), ('d.stylesheet_pi', 'external_ref_without_doctype'), ('f.host_', 'hostile_header'),
         ('f.hdr_', 'hostile_header'), ('f.no_host', 'hostile_header'), ('f.dup_', 'hostile_header')]


_STATUS_LINE = re.compile(rb'^HTTP/1\.[01] [1-5][0-9][0-9]( [^\r\n]*)?$')
_FIELD = re.compile(rb"^[!#$%&'*+.^_`|~0-9A-Za-z-]+:[^\r\n]*$")


def head_problem(written: bytes):
    """RFC 7230 3: status-line CRLF *(header-field CRLF) CRLF.  Only the line structure is judged (a bare CR / LF or a line that is no field
    breaks it); the characters of reason phrase and field values are not."""
    head, sep, _ = written.partition(b'\r\n\r\n')
    if not sep:
        return 'no empty line after the header fields'
    lines = head.split(b'\r\n')
    if not _STATUS_LINE.match(lines[0]):
        return f'status line {lines[0][:80]!r}'
    for ln in lines[1:]:
        if not _FIELD.match(ln):
            return f'header line {ln[:80]!r}'
    return None


def run_case(env: Env, ctx, role, raw, info, seed_name):
    """Feed one connection, judge it.  Returns a shape tuple for ctx.case."""
    mut = info['mut']
    closed = info.get('server') == 'closed'
    srv = env.closed_servers[role] if closed else env.servers[role]
    env.mw_log.clear()
    env.tree_log.clear()
    env.watch_trees = bool(info.get('doctype'))
    env.watch_token = info.get('token', EXPANDED.encode())
    env.line_budget.reset()
    before = env.last_snap if env.last_snap is not None else env.snapshot()
    env.current_request = raw
    res = L.feed(srv, raw, handler_cls=env.handler_cls)
    ctx.count('requests.' + role)
    ctx.count('mut.' + mut.split('.')[0])
    if info.get('rebased'):
        ctx.count('reach.rebased_notification')
    for prefix, name in REACH:
        if mut.startswith(prefix):
            ctx.count('reach.' + name)
    detail = {'mutation': mut, 'seed': seed_name, 'role': role, 'env': f'{env.mode}/{"deferred" if env.deferred else "sync-dispatch"}',
              'request_head': raw[:700], 'request_len': len(raw)}
    outcome = []
    # ---- (1) spin / budgets
    if res.spin is not None:
        kind = res.spin.get('kind')
        key = {'eof_spin': 'chunk.eof_spin', 'call_budget': 'read.call_budget_exceeded', 'line_budget': 'spin.line_budget_exceeded'}.get(kind, 'spin.' + str(kind))
        if kind == 'eof_spin' and not any(c for c in res.handler_calls):
            key = 'spin.outside_do'
        ctx.witness(key, 'request handler does not terminate: keeps reading after the input ended (truncated chunk / EOF): ' + json.dumps(core.jsonable(res.spin))[:300],
                    {**detail, 'spin': res.spin, 'reads_trace': res.trace[-8:]})
        outcome.append('spin')
    ctx.count('monitor.step_budget_checked')
    if res.max_run1 > 20000:
        ctx.witness('chunk.size_line_unbounded', f'{res.max_run1} consecutive 1-byte reads: the scan for the end of a chunk-size line is not bounded', detail)
    if res.unbounded_reads:
        ctx.witness('framing.negative_content_length_reads_to_eof',
                    'body reader issued read() without a bound (Content-Length: -1): the handler blocks until the peer closes the connection; a peer that '
                    'waits for the response blocks it forever', {**detail, 'reads_trace': res.trace[-6:]})
    # ---- (2) exceptions leaving do_POST / do_GET, (3) one complete response per entered do_*
    entered = res.handler_calls
    ctx.count('monitor.do_calls', len(entered))
    statuses = []
    plain_bodies = []
    for rec in entered:
        if rec['exc'] is not None:
            key, what = classify_escape(rec)
            ctx.witness(key, what, {**detail, 'exception': repr(rec['exc'])[:300], 'traceback': [f'{f.name}:{f.lineno}' for f in (rec['tb'] or [])][-6:]})
            outcome.append('escape')
            continue
        if rec['spin']:
            continue
        if rec['version'] == 'HTTP/0.9':
            ctx.count('http09.not_judged')
            continue
        sl = res.out[rec['start']:rec['end']]
        ps = L.parse_responses(sl, [rec['method']])
        if closed:
            ctx.count('monitor.closed_server_requests')
        if len(ps) != 1 or not ps[0].complete or ps[0].status is None:
            if closed:
                ctx.witness(f'closed_server.no_response.{rec["method"]}', 'endpoint of a closed server (dispatcher is None): do_* returned without having written one '
                            'complete HTTP response (status line buffered by send_response, never flushed by end_headers)',
                            {**detail, 'written': sl[:300], 'parse': [p.as_dict() for p in ps][:2]})
            else:
                ctx.witness(f'response.incomplete.{rec["method"]}', 'do_* returned without having written one complete HTTP response',
                            {**detail, 'written': sl[:300], 'parse': [p.as_dict() for p in ps][:2]})
            outcome.append('incomplete')
            continue
        p = ps[0]
        # the head as written: status line + header fields, nothing else (text of the request echoed into it must not break the framing)
        ctx.count('monitor.response_heads_checked')
        bad = head_problem(sl)
        if bad:
            ctx.witness('response.head_malformed', 'the response head is not "status-line *(field-name: value) CRLF": ' + bad, {**detail, 'written': sl[:400]})
            outcome.append('head')
        if INJECT.lower().encode() in sl.partition(b'\r\n\r\n')[0].lower() and any(k.lower() == INJECT.lower() for k, _ in p.headers):
            ctx.witness('response.header_injected', 'text from the request target / a request header became a header field of the response (CR LF reaches the '
                        'status line or a header value: response splitting)', {**detail, 'written': sl[:400]})
            outcome.append('injected')
        enc = p.header('content-encoding')
        try:
            p.body_plain = L.ref_decode(enc, p.body) if enc else p.body
        except Exception as ex:  # noqa: BLE001
            ctx.witness('response.body_not_decodable', f'response body is not valid {enc}: {ex!r}', detail)
            p.body_plain = b''
        statuses.append(p.status)
        plain_bodies.append(p)
        ctx.count(f'status.{p.status}')
    if res.escaped is not None and not any(r['exc'] is not None for r in entered) and res.spin is None:
        # exception outside do_* (stdlib parsing layer or setup/finish)
        import traceback
        func = '?'
        for fr in reversed(traceback.extract_tb(res.escaped.__traceback__)):
            if '/sdc11073/' in fr.filename:
                func = fr.name
                break
        ctx.witness(f'escape.outside_do.{func}.{type(res.escaped).__name__}', 'exception left the request handler outside do_POST/do_GET',
                    {**detail, 'tb': res.escaped_tb})
    # ---- (4) SOAP layer: fault for everything it rejected, valid envelope for everything it accepted
    me = threading.get_ident()   # (notifications delivered by library threads at the same time are not part of this connection)
    mw = [m for m in env.mw_log if m['role'] == role and m['thread'] == me]
    ctx.count('monitor.soap_layer_reached', len(mw))
    for m in mw:
        if m['exc'] is not None:
            func, exn = classify_inner(m['exc'])
            if exn == 'ValueError' and 'In Fault.Reason' in str(m['exc']):
                ctx.witness('soap.fault_reason_not_xml_compatible',
                            'the text of the SOAP fault (it quotes the request path) contains characters that cannot be serialised as XML: building the fault '
                            'raises inside do_post, the request is answered with a bare 500 without fault',
                            {**detail, 'exception': repr(m['exc'])[-300:]})
                outcome.append('mw_escape')
                continue
            ctx.witness(f'soap.exception_past_middleware.{m["kind"]}.{func}.{exn}',
                        f'{exn} raised in {func} left MessageConverterMiddleware.do_{m["kind"]} (answered with a bare 500 without SOAP fault)',
                        {**detail, 'exception': repr(m['exc'])[:300]})
            outcome.append('mw_escape')
            continue
        if m['ret'] is not None and m['kind'] == 'get':
            status, reason, body = m['ret']
            body = body if isinstance(body, bytes) else (body or '').encode('utf-8')
            if status < 300:
                ctx.count('get.success_bodies_checked')
                try:
                    root = strict_parse(body)
                    if etree.QName(root).localname != 'definitions':
                        raise ValueError(f'root is {root.tag}')
                except Exception as ex:  # noqa: BLE001
                    ctx.witness('get.success_body_invalid', f'GET answered {status} with a body that is not a well-formed WSDL document: {ex!r}'[:300],
                                {**detail, 'body': body[:300]})
            else:
                ctx.count('get.errors_not_judged')   # (no SOAP request, no SOAP fault: status + text are the transport's answer)
            continue
        if m['ret'] is None or m['kind'] != 'post':   # (None: aborted by the step budget)
            continue
        status, reason, body = m['ret']
        body = body if isinstance(body, bytes) else (body or '').encode('utf-8')
        if status >= 400:
            ok, why = is_fault_envelope(body)
            ctx.count('soap.faults_checked')
            if not ok:
                ctx.witness('soap.error_without_fault', f'SOAP layer answered {status} with a body that is not a well-formed SOAP 1.2 fault: {why}',
                            {**detail, 'status': status, 'body': body[:400]})
            else:
                try:
                    env.validator.assertValid(strict_parse(body))
                    ctx.count('soap.faults_schema_valid')
                except Exception as ex:  # noqa: BLE001
                    ctx.witness('soap.fault_schema_invalid', f'fault envelope is not schema valid: {ex!r}'[:300], {**detail, 'body': body[:600]})
        elif body:
            ctx.count('soap.success_bodies_checked')
            try:
                root = strict_parse(body)
                env.validator.assertValid(root)
                if root.tag != f'{{{S12}}}Envelope':
                    raise ValueError(f'root is {root.tag}')
            except Exception as ex:  # noqa: BLE001
                ctx.witness('soap.success_body_invalid', f'status {status} with a body that is not a schema-valid envelope: {ex!r}'[:300],
                            {**detail, 'body': body[:600]})
    # what was written must be what the SOAP layer returned
    gets = [m for m in mw if m['kind'] == 'get' and m['ret'] is not None]
    if len(gets) == len(plain_bodies) == len(mw) == 1 and len(entered) == 1 and entered[0]['method'] == 'GET':
        body = gets[0]['ret'][2]
        body = body if isinstance(body, bytes) else (body or '').encode('utf-8')
        ctx.count('get.wire_compared')
        if plain_bodies[0].status != gets[0]['ret'][0] or plain_bodies[0].body_plain != body:
            ctx.witness('response.differs_from_soap_layer', 'status/body on the wire differ from what the SOAP layer returned', detail)
    posts = [m for m in mw if m['kind'] == 'post' and m['ret'] is not None]
    if len(posts) == len(plain_bodies) == 1 and entered and entered[0]['method'] == 'POST':
        body = posts[0]['ret'][2]
        body = body if isinstance(body, bytes) else (body or '').encode('utf-8')
        if plain_bodies[0].status != posts[0]['ret'][0] or plain_bodies[0].body_plain != body:
            ctx.witness('response.differs_from_soap_layer', 'status/body on the wire differ from what the SOAP layer returned', detail)
    # ---- (5) valid requests must be accepted
    if info.get('valid') and (mut == 'valid' or mut in EQUIVALENT_FRAMINGS):
        if not statuses or statuses[0] >= 300:
            if mut == 'valid':
                ctx.witness('valid.request_refused', f'an unmodified request recorded from the library\'s own client was answered with {statuses[:1]}',
                            {**detail, 'response': plain_bodies[0].body_plain[:500] if plain_bodies else None})
            else:
                ctx.witness('valid.equivalent_framing_refused', f'an unmodified valid request in an equivalent HTTP framing ({mut}) was answered with {statuses[:1]}',
                            {**detail, 'response': plain_bodies[0].body_plain[:500] if plain_bodies else None})
        else:
            ctx.count('valid.accepted' if mut == 'valid' else 'valid.equivalent_framing_accepted')
    if info.get('then_valid') and len(statuses) >= 2 and len(statuses) == len(entered):
        ctx.count('sequence.follow_up_checked')
        if statuses[-1] >= 300:
            ctx.witness('sequence.valid_request_refused', f'an unchanged valid request that follows another request on the same connection ({mut}) was answered '
                        f'with {statuses}', {**detail, 'response': plain_bodies[-1].body_plain[:500]})
    # ---- (6) schema-invalid request accepted
    doc = info.get('doc')
    accepted = [p for p in plain_bodies if p.status < 300 and not contains_fault(p.body_plain)]
    if doc is not None and accepted and mw and not info.get('pipelined') and mut != 'valid' and any(m['kind'] == 'post' for m in mw):
        try:
            root = strict_parse(doc)
            wf = True
        except Exception:  # noqa: BLE001
            root, wf = None, False
        verdict = None
        if wf:
            try:
                verdict = env.validator.validate(root)
            except etree.XMLSchemaError:   # libxml2 "internal error" (e.g. entity reference nodes in the tree): no verdict
                ctx.count('validation.validator_internal_error')
        if not wf:
            ctx.witness('validation.malformed_request_accepted', 'a request body that is not well-formed XML got a success response', detail)
        elif verdict is None:
            pass
        elif not verdict:
            ctx.count('validation.schema_invalid_request_accepted')
            ctx.witness('validation.invalid_request_accepted', 'a request that the independent XSD validation rejects got a success response: '
                        + str(env.validator.error_log.last_error)[:200], {**detail, 'doc': doc[:1500]})
        else:
            ctx.count('validation.mutant_still_valid_accepted')
    # ---- (7) XXE: nothing expanded, nothing leaked
    if info.get('doctype'):
        ctx.count('xxe.doctype_requests')
        blob = b''.join(p.body_plain for p in plain_bodies)   # (the stdlib echoes a malformed request LINE in its 400 page: not an expansion)
        token = info.get('token', EXPANDED.encode())
        ok_status = [p.status for p in plain_bodies]
        if CANARY_TEXT in blob or token in blob or (EXPANDED + '-F1LE').encode() in blob:
            in_attr = info.get('where') == 'attr' and CANARY_TEXT not in blob
            ctx.witness('xxe.attribute_entity_expanded_in_response' if in_attr else 'xxe.expansion_in_response',
                        'response contains the expanded text of an entity that the request referenced'
                        + (' inside an attribute value' if in_attr else ' / canary file content'), {**detail, 'response': blob[:600]})
        for found in env.tree_log:
            ctx.count('xxe.parsed_trees_checked')
            for kind_f, elem, attr, val in found:
                if kind_f == 'attribute':
                    ctx.witness('xxe.internal_entity_expanded_in_attribute',
                                'an entity reference inside an attribute value reaches the library expanded (lxml expands attribute values even with '
                                'resolve_entities=False); the document carries a DOCTYPE and is not refused',
                                {**detail, 'element': elem, 'attribute': attr, 'value': val, 'statuses': ok_status, 'doc_head': (info.get('doc') or b'')[:300]})
                elif kind_f == 'text':
                    ctx.witness('xxe.entity_expanded_in_tree', 'parsed request tree contains expanded entity text',
                                {**detail, 'element': elem, 'value': val, 'statuses': ok_status})
                elif kind_f == 'refused':
                    ctx.count('xxe.doctype_document_refused_by_reader')
                else:
                    ctx.count('xxe.tree_walk_failed')
    # ---- (8) rejected => nothing changed
    settled = env.quiesce(plain_bodies)
    ctx.count('monitor.thread_deaths_checked')
    while env.thread_deaths:
        td = env.thread_deaths.pop(0)
        lib = [f for f in td['frames'] if '/sdc11073/' in f[0]]
        if not lib:
            ctx.count('thread.uncaught_exception_outside_library')
            continue
        tname = re.sub(r'[^A-Za-z_]+', '', td['thread'])[:30] or 'thread'
        ctx.witness(f'thread.uncaught_exception.{tname}.{lib[-1][1]}.{td["exc_type"]}', 'an exception escaped a thread of the library that works for request handling '
                    '(the thread is dead now): ' + td['exc'], {**detail, 'thread': td['thread'], 'frames': [f'{f[1]}:{f[2]}' for f in td['frames']]})
    after = env.snapshot()
    env.last_snap = after if settled else None
    rejected = (not plain_bodies) or all(p.status >= 400 or contains_fault(p.body_plain) for p in plain_bodies)
    if rejected:
        ctx.count('monitor.rejected_snapshots_compared')
        d = env.snap_diff(before, after)
        if d:
            tables = sorted({x[0] if x[0] != 'consumer' else 'consumer.' + str(x[1]) for x in d})
            ctx.witness('state.changed_by_rejected_request.' + '+'.join(str(t) for t in tables)[:80],
                        'MDIB / subscription table differ after a request that was rejected', {**detail, 'diff': d[:8], 'statuses': statuses})
    else:
        ctx.count('monitor.accepted_requests')
        if info.get('rebased') and before['consumer_mdib'] != after['consumer_mdib']:
            ctx.count('consumer.mdib_changed_by_accepted_notification')
    st = tuple(statuses[:2]) if statuses else ('none',)
    return (role, mut, seed_name, st, tuple(sorted(set(outcome))), bool(mw))


def pick(rng, weighted):
    total = sum(w for _, w in weighted)
    r = rng.random() * total
    for f, w in weighted:
        r -= w
        if r <= 0:
            return f
    return weighted[-1][0]


def _directed(env, rng):
    """Directed cases that are always executed (they guarantee the floors and the S-items)."""
    out = []
    post = {}
    for s in env.seeds:
        if s['method'] == 'POST':
            post.setdefault(s['role'], s)
    for role, s in post.items():
        for k in FRAMING_KINDS:
            out.append((s, lambda r, e, sd, k=k: m_framing(r, e, sd, k)))
        for k in DOCTYPE_KINDS:
            out.append((s, lambda r, e, sd, k=k: m_doctype(r, e, sd, k)))
    for s in env.seeds:
        if s['method'] == 'POST' and re.search(rb'( Handle="|DescriptorHandle="|Dialect=")', s['xml']) and (s['role'], s['name'], 'd') not in post:
            post[(s['role'], s['name'], 'd')] = s
            for k, w in (('internal_entity', 'attr'), ('billion_laughs', 'attr'), ('external_file', 'attr'), ('internal_entity', 'text'), ('internal_entity', 'MessageID')):
                out.append((s, lambda r, e, sd, k=k, w=w: m_doctype(r, e, sd, k, w)))
    for k in [k for k in post if isinstance(k, tuple)]:
        del post[k]
    gets = [s for s in env.seeds if s['method'] == 'GET'][:1]
    for s in list(post.values()) + gets:
        for k in ('query_only', 'query_only', 'query_only', 'unknown_first', 'root', 'star', 'depth_less', 'other_service', 'control_char', 'control_char',
                  'control_char', 'malformed_uri', 'malformed_uri', 'malformed_uri'):
            out.append((s, lambda r, e, sd, k=k: m_path(r, e, sd, k)))
    for s in env.seeds:
        if s['role'] == 'consumer' or s['name'] in ('Subscribe', 'Renew', 'GetStatus', 'Unsubscribe'):
            for k in ('depth_less', 'depth_more', 'depth_more_hostile', 'depth_more_hostile'):
                out.append((s, lambda r, e, sd, k=k: m_path(r, e, sd, k)))
    for s in env.seeds:
        out.append((s, lambda r, e, sd: m_valid(r, e, sd, rebase=False)))
        if s['role'] == 'consumer':
            out.append((s, lambda r, e, sd: m_valid(r, e, sd, rebase=True)))
    out += _directed_deep(env)
    return out


def _directed_xxe(env):
    """Everything that references an external resource / declares an entity, for the worker that runs under strace."""
    out = []
    post = {}
    for s in env.seeds:
        if s['method'] == 'POST':
            post.setdefault(s['role'], s)
    for role, s in sorted(post.items()):
        for k in DOCTYPE_KINDS + NODOCTYPE_KINDS:
            out.append((s, lambda r, e, sd, k=k: m_doctype(r, e, sd, k, wrap='')))
            out.append((s, lambda r, e, sd, k=k: m_doctype(r, e, sd, k, wrap=WRAPS[len(k) % len(WRAPS)])))
    done = set()
    for s in env.seeds:
        if s['method'] == 'POST' and re.search(rb'( Handle="|DescriptorHandle="|Dialect=")', s['xml']) and (s['role'], s['name']) not in done:
            done.add((s['role'], s['name']))
            for k, w in (('internal_entity', 'attr'), ('billion_laughs', 'attr'), ('external_file', 'attr'), ('internal_entity', 'text'), ('external_file', 'MessageID'),
                         ('param_entity', 'text')):
                out.append((s, lambda r, e, sd, k=k, w=w: m_doctype(r, e, sd, k, w, wrap='')))
    return out


def m_closed_server(rng, env, seed, method='POST'):
    """A request to the endpoint of a server that has been closed (dispatcher is None)."""
    if method == 'GET':
        raw = L.mk_request('GET', seed['path'].split('?')[0] + '/?wsdl', list(seed['headers']), b'')
    else:
        raw = render(seed)
    return raw, {'mut': f'c.closed_{method}', 'doc': None, 'server': 'closed'}


def _directed_deep(env):
    """Round 4: ladders over the limits of the framing numbers, percent-encoded request targets, hostile Expires, request sequences on one
    connection, closed server, references to external resources without DOCTYPE."""
    out = []
    post, get = {}, {}
    for s in env.seeds:
        (post if s['method'] == 'POST' else get).setdefault(s['role'], s)
    roles = sorted(post)
    # every rung of the chunk-size ladder, alternating endpoint and variant (the reader is the same code for both endpoints)
    for i, d in enumerate(CHUNK_DIGITS):
        for v in (0, 1):
            s = post[roles[(i + v) % len(roles)]]
            out.append((s, lambda r, e, sd, d=d, v=v, i=i: m_framing(r, e, sd, 'chunk_size_digits', (d, v if i % 2 == 0 else v + 2))))
    for i, total in enumerate([15, 16, 17, 1021, 1022, 1023, 1024, 1025, 8191, 8192, 8193]):
        out.append((post[roles[i % len(roles)]], lambda r, e, sd, t=total: m_framing(r, e, sd, 'chunk_header_len', t)))
    for role in roles:
        s = post[role]
        for k in ('no_host', 'dup_host', 'host_hostile', 'hdr_8bit', 'hdr_8bit', 'hdr_name_hostile', 'dup_te_ce', 'get_with_body'):
            out.append((s, lambda r, e, sd, k=k: m_framing(r, e, sd, k)))
        # percent-encoded sequences: as unknown first element with POST and GET (every sequence), at the other positions (some)
        for j, pct in enumerate(PERCENT):
            for method in (('POST', 'GET') if role == roles[-1] or j % 3 == 0 else ('POST',) if j % 2 else ('GET',)):
                out.append((s, lambda r, e, sd, pct=pct, m=method: m_path(r, e, sd, 'pct_first', pct, m)))
            k = ('pct_in_first', 'pct_after_first', 'pct_service', 'pct_last', 'pct_query')[j % 5]
            out.append((s, lambda r, e, sd, pct=pct, k=k, m=('POST', 'GET')[j % 2]: m_path(r, e, sd, k, pct, m)))
        for _ in range(3):
            out.append((s, lambda r, e, sd: m_path(r, e, sd, 'pct_encoded_known')))
        for k in SEQ_KINDS:
            out.append((s, lambda r, e, sd, k=k: m_sequence(r, e, sd, k)))
        for method in ('POST', 'GET'):
            out.append((s, lambda r, e, sd, m=method: m_closed_server(r, e, sd, m)))
        for k in NODOCTYPE_KINDS:
            out.append((s, lambda r, e, sd, k=k: m_doctype(r, e, sd, k, wrap='')))
        for k, w in (('internal_entity', 'utf16'), ('external_file', 'gzip_chunked'), ('external_dtd', 'utf8_bom'), ('xinclude_file', 'gzip_chunked'),
                     ('billion_laughs', 'utf16')):
            out.append((s, lambda r, e, sd, k=k, w=w: m_doctype(r, e, sd, k, wrap=w)))
    for s in env.seeds:
        if s['name'] in ('Subscribe', 'Renew') and b'Expires' in s['xml'] and (s['name'], 'x') not in post:
            post[(s['name'], 'x')] = s
            for v in EXPIRES:
                out.append((s, lambda r, e, sd, v=v: m_expires(r, e, sd, v, 'text')))
            for how in ('dup', 'child', 'drop'):
                out.append((s, lambda r, e, sd, how=how: m_expires(r, e, sd, 'PT60S', how)))
    # last (a consumer that accepted a notification with a huge but valid MdibVersion ignores older ones from then on)
    half = getattr(env, 'number_share', None)    # quick tier: every (field, value) in two of the four configurations (one of them deferred)
    for field, s in sorted(numeric_fields(env).items(), key=lambda kv: str(kv[0])):
        for j, v in enumerate(NUMBERS):
            if half is not None and j % 2 != half:
                continue
            out.append((s, lambda r, e, sd, f=field, v=v: m_number(r, e, sd, f, v)))
    return out


def fuzz(ctx: core.Ctx, env: Env, rng, n, directed=True, mutators=None, extra_random=30):
    seeds = env.seeds
    todo = (directed(env) if callable(directed) else _directed(env, rng)) if directed else []
    mutators = mutators or MUTATORS
    t_end = time.time() + 1400
    ctx.count('directed.cases', len(todo))
    if todo:
        n = max(n, len(todo) + extra_random)    # every directed case is executed, whatever n
    for i in range(n):
        if i < len(todo):
            seed, fn = todo[i]
        else:
            seed = rng.choice(seeds)
            fn = pick(rng, mutators)
        try:
            raw, info = fn(rng, env, seed)
        except Exception as ex:  # noqa: BLE001
            ctx.count('harness.mutator_failed')
            ctx.extra.setdefault('mutator_failures', [])
            if len(ctx.extra['mutator_failures']) < 5:
                ctx.extra['mutator_failures'].append(f'{fn.__name__}: {ex!r}'[:200])
            continue
        shape = run_case(env, ctx, seed['role'], raw, info, seed['name'])
        ctx.case(shape)
        if i % 400 == 399:
            env.prune_subscriptions()
        if i in (3, 40, 90):
            ctx.sample({'mutation': info['mut'], 'seed': seed['name'], 'role': seed['role'], 'request_head': raw[:400], 'shape': shape})
        if time.time() > t_end:
            ctx.not_decided('worker wall-clock watchdog')
            break


def setup_canaries(env, root=None):
    d = tempfile.mkdtemp(prefix='vf_c13_canary_', dir=root)
    with open(os.path.join(d, 'canary.txt'), 'wb') as f:
        f.write(CANARY_TEXT)
    with open(os.path.join(d, 'canary.dtd'), 'wb') as f:
        f.write(b'<!ENTITY fromdtd "%s-F1LE">' % EXPANDED.encode())
    with open(os.path.join(d, 'canary_param.dtd'), 'wb') as f:
        f.write(b'<!ENTITY fromparam "%s-F1LE">' % EXPANDED.encode())
    with open(os.path.join(d, 'control.txt'), 'wb') as f:
        f.write(b'control')
    env.canary_dir = d
    return d


def w_fuzz(ctx: core.Ctx, arg):
    rng = ctx.rng('fuzz', arg['i'])
    env = Env(ctx, mode=arg.get('mode', 'sync'), deferred=arg.get('deferred', False), chunk_size=arg.get('chunk', 0))
    d = setup_canaries(env, arg.get('canary_root'))
    if ctx.quick:
        env.number_share = arg['i'] % 2
    try:
        env.build_seeds()
        names = sorted({(s['role'], s['name']) for s in env.seeds})
        ctx.extra['seed_types'] = [f'{r}:{n}' for r, n in names]
        ctx.count('seeds', len(env.seeds))
        fuzz(ctx, env, rng, arg['n'], directed=arg.get('directed', True))
    finally:
        if not arg.get('canary_root'):
            shutil.rmtree(d, ignore_errors=True)


def w_xxe_inner(ctx: core.Ctx, arg):
    """Runs under strace: only DOCTYPE-carrying requests + positive controls for the strace monitor."""
    import socket
    rng = ctx.rng('xxe', arg['i'])
    env = Env(ctx, mode='sync', deferred=False)
    env.canary_dir = arg['canary_dir']
    env.build_seeds()
    # positive controls: the same libxml2, asked to resolve, must be seen by strace
    ctl = b'<!DOCTYPE a [<!ENTITY e SYSTEM "file://%s/control.txt">]><a>&e;</a>' % env.canary_dir.encode()
    try:
        etree.fromstring(ctl, etree.XMLParser(resolve_entities=True, load_dtd=True, no_network=False))
    except Exception:  # noqa: BLE001
        pass
    s = socket.socket()
    s.settimeout(0.5)
    try:
        s.connect(('127.0.0.1', CONTROL_PORT))
    except OSError:
        pass
    s.close()
    fuzz(ctx, env, rng, arg['n'], directed=_directed_xxe, mutators=[(m_doctype, 1)], extra_random=40)


def w_xxe(ctx: core.Ctx, arg):
    tmp = tempfile.mkdtemp(prefix='vf_c13_xxe_')
    try:
        env_stub = Plain()
        d = setup_canaries(env_stub, tmp)
        inp, out, log = os.path.join(tmp, 'in.json'), os.path.join(tmp, 'out.json'), os.path.join(tmp, 'strace.log')
        with open(inp, 'w') as f:
            json.dump({'prop': ctx.prop, 'tier': ctx.tier, 'seed': ctx.seed, 'level': ctx.level, 'module': MODULE, 'func': 'w_xxe_inner',
                       'arg': {'i': arg['i'], 'n': arg['n'], 'canary_dir': d}, 'out': out}, f)
        cmd = ['strace', '-f', '-qq', '-e', 'trace=openat,open,connect', '-o', log, core.PY, '-X', 'faulthandler', '-m', 'vf.worker', inp]
        try:
            p = subprocess.run(cmd, cwd=core.VERIF_DIR, capture_output=True, timeout=1200)
        except (OSError, subprocess.TimeoutExpired) as ex:
            ctx.not_decided(f'strace worker failed: {ex!r}')
            return
        if p.returncode != 0 or not os.path.exists(out):
            ctx.not_decided(f'strace worker rc={p.returncode}: {p.stderr[-800:]!r}')
            return
        with open(out) as f:
            ctx.merge(json.load(f))
        with open(log, 'rb') as f:
            lines = f.read().split(b'\n')
        ctx.count('xxe.strace_lines', len(lines))
        control_file = any(b'control.txt' in ln for ln in lines)
        control_conn = any(b'connect(' in ln and b'htons(%d)' % CONTROL_PORT in ln for ln in lines)
        if not (control_file and control_conn):
            ctx.not_decided(f'strace monitor is blind (control file seen={control_file}, control connect seen={control_conn})')
            return
        ctx.count('xxe.strace_controls_seen', 2)
        for ln in lines:
            if any(x in ln for x in (b'canary.txt', b'canary.dtd', b'canary_param.dtd')):
                ctx.witness('xxe.canary_file_opened', 'the process opened a canary file referenced only from a request (DOCTYPE / entity / XInclude / schemaLocation / processing instruction)', {'strace': ln[:300]})
            if b'connect(' in ln and b'htons(%d)' % CANARY_PORT in ln:
                ctx.witness('xxe.canary_url_connected', 'the process connected to the canary URL referenced only from a request (DOCTYPE / entity / XInclude / schemaLocation / processing instruction)', {'strace': ln[:300]})
            elif b'connect(' in ln and b'AF_INET' in ln and b'htons(%d)' % CONTROL_PORT not in ln:
                ctx.count('xxe.other_inet_connects')
                if b'127.0.0.1' not in ln:
                    ctx.witness('xxe.non_loopback_connect', 'the process connected to a non-loop-back address while handling requests', {'strace': ln[:300]})
    finally:
        shutil.rmtree(tmp, ignore_errors=True)


def run(ctx: core.Ctx):
    ctx.rule = ('one case = one TCP connection (raw bytes) fed to the real DispatchingRequestHandler of a live provider or consumer; generated from the '
                'valid requests the library\'s own clients produced (seed types in coverage.seed_types) by: unchanged | structure-aware XML mutation | path | '
                '(incl. percent-encoded) | DOCTYPE/entity/XInclude/schemaLocation | character encoding | HTTP framing / coding / header | hostile number / Expires sweep | '
                'several requests on one connection | closed server | raw bytes; notifications to the consumer are rebased (fresh MdibVersion / StateVersion) so that '
                'its handlers process them.  distinct = hash of (endpoint, mutation kind, seed type, '
                'HTTP status(es), anomaly, SOAP layer reached); non-trivial = every connection (the empty one included)')
    q = ctx.quick
    jobs = []
    configs = [('sync', False, 0), ('async', True, 0), ('sync', True, 512), ('async', False, 0)]
    nw = 12 if q else 15
    per = 330 if q else 12000
    for i in range(nw):
        mode, deferred, chunk = configs[i % len(configs)]
        jobs.append(['w_fuzz', {'i': i, 'n': per, 'mode': mode, 'deferred': deferred, 'chunk': chunk, 'directed': i < 4}])
    jobs.append(['w_xxe', {'i': 0, 'n': 150 if q else 3000}])
    core.fanout(ctx, MODULE, 'dispatch', jobs, timeout=1500)
    for name, n in (('requests.provider', 1500), ('requests.consumer', 500), ('monitor.do_calls', 1500), ('monitor.soap_layer_reached', 800),
                    ('soap.faults_checked', 300), ('soap.success_bodies_checked', 100), ('monitor.rejected_snapshots_compared', 1000),
                    ('monitor.accepted_requests', 100), ('valid.accepted', 50), ('xxe.doctype_requests', 150), ('xxe.parsed_trees_checked', 50),
                    ('monitor.response_heads_checked', 1500), ('monitor.thread_deaths_checked', 1500), ('monitor.closed_server_requests', 8),
                    ('get.success_bodies_checked', 8), ('get.wire_compared', 20), ('valid.equivalent_framing_accepted', 20), ('sequence.follow_up_checked', 30),
                    ('reach.chunk_size_ladder', 4 * 2 * len(CHUNK_DIGITS)), ('reach.chunk_header_len', 40), ('reach.percent_encoded_target', 300),
                    ('reach.hostile_expires', 100), ('reach.hostile_number', 500), ('reach.rebased_notification', 300), ('consumer.mdib_changed_by_accepted_notification', 30), ('reach.request_sequence', 80), ('reach.closed_server', 16),
                    ('reach.external_ref_without_doctype', 30), ('reach.hostile_header', 50),
                    ('xxe.strace_controls_seen', 2), ('mut.s', 300), ('mut.f', 300), ('mut.r', 100), ('mut.e', 50), ('mut.p', 50), ('mut.d', 100)):
        ctx.floor(name, n)
    ctx.assumptions += [
        'peer model: the sender half-closes after its bytes (reads at the end return EOF); a handler that keeps reading after EOF more than 12 times, '
        'needs more than 400+24*len(input) read calls, or executes > 3e6 lines inside httpreader/httprequesthandler is a spin (logical steps, no wall-clock)',
        'requests that never reach do_POST/do_GET (malformed request line, unsupported method, header limits) are answered by the python standard '
        'library (http.server) and are only recorded; HTTP/0.9 style requests have no status line by protocol and are not judged',
        'a request counts as rejected when every response on the connection has status >= 400 or carries a SOAP fault, or when there is no response',
        'housekeeping threads of the subscription managers are stopped (expiry would change the table behind the monitor); sockets are in-memory fakes',
        'XXE: canary file access / connect are observed with strace around a dedicated worker (positive controls required), native libxml2 otherwise trusted',
    ]


def dispatch(ctx: core.Ctx, job):
    globals()[job[0]](ctx, job[1])
