"""Provider + consumer(s) over the loop-back transport (no sockets), plus helpers shared by the MDIB-level properties."""
from __future__ import annotations

import copy
import os
import uuid

from sdc11073 import observableproperties as properties
from sdc11073.consumer.consumerimpl import SdcConsumer
from sdc11073.consumer.consumerimpl import default_components_factory as consumer_components_factory
from sdc11073.definitions_sdc import SdcV1Definitions
from sdc11073.dispatch import RequestDispatcher
from sdc11073.mdib import ProviderMdib
from sdc11073.mdib.consumermdib import ConsumerMdib
from sdc11073.provider import SdcProvider
from sdc11073.provider.providerimpl import (RoleProviderComponents, provider_components_async_factory,
                                            provider_components_sync_factory)
from sdc11073.xml_types.dpws_types import ThisDeviceType, ThisModelType

from . import loopback

FIXTURES = os.path.join(os.path.dirname(os.path.dirname(os.path.abspath(__file__))), 'fixtures')
MDIB_FILES = ['70041_MDIB_Final.xml', '70041_MDIB_multi.xml', 'mdib_two_mds.xml', 'mdib_tns.xml']


def load_mdib_bytes(name: str) -> bytes:
    with open(os.path.join(FIXTURES, name), 'rb') as f:
        return f.read()


def mk_model_and_device():
    model = ThisModelType(manufacturer='Example Manufacturer', manufacturer_url='www.example-manufacturer.com',
                          model_name='SomeDevice', model_number='1.0', model_url='www.example-manufacturer.com/model',
                          presentation_url='www.example-manufacturer.com/presentation')
    device = ThisDeviceType(friendly_name='Py SomeDevice', firmware_version='0.99', serial_number='12345')
    return model, device


class World:
    """One provider on a loop-back network; consumers are attached on demand."""

    def __init__(self, mdib_file='70041_MDIB_Final.xml', *, async_mgr=False, role_provider=True, validate=True,
                 network: loopback.Network | None = None, max_subscription_duration=7200, ssl_context_container=None,
                 components_hook=None, contextstates_in_getmdib=True, instance_id=1, chunk_size=0, periodic_reports_interval=None):
        self.network = network or loopback.Network()
        self.wsd = loopback.WsdStub()
        self.mdib = ProviderMdib.from_string(load_mdib_bytes(mdib_file))
        self.mdib.instance_id = instance_id
        comps = provider_components_async_factory() if async_mgr else provider_components_sync_factory()
        comps.soap_client_class = (loopback.mk_soap_client_async_class(self.network) if async_mgr
                                   else loopback.mk_soap_client_class(self.network))
        if components_hook:
            components_hook(comps)
        role_components = None
        if role_provider:
            from tutorial.productandroles.exampleproduct import EXAMPLE_ROLE_PROVIDER_COMPONENTS
            role_components = EXAMPLE_ROLE_PROVIDER_COMPONENTS
            if role_provider == 'no_waveform':
                role_components = RoleProviderComponents(role_provider_class=EXAMPLE_ROLE_PROVIDER_COMPONENTS.role_provider_class)
        model, device = mk_model_and_device()
        scheme = 'https' if ssl_context_container is not None else 'http'
        self.provider_server = self.network.new_server(scheme=scheme)
        self.provider = SdcProvider(self.wsd, model, device, self.mdib, epr=uuid.UUID(int=0x1234), validate=validate,
                                    ssl_context_container=ssl_context_container,
                                    max_subscription_duration=max_subscription_duration, components=comps,
                                    role_provider_components=role_components, chunk_size=chunk_size)
        self.provider.contextstates_in_getmdib = contextstates_in_getmdib
        self.provider.start_all(start_rtsample_loop=False, shared_http_server=self.provider_server,
                                periodic_reports_interval=periodic_reports_interval)
        self.consumers: list[SdcConsumer] = []
        self.ssl_context_container = ssl_context_container

    @property
    def provider_address(self) -> str:
        return self.provider.get_xaddrs()[0]

    def add_consumer(self, *, sync_dispatch=True, with_mdib=True, validate=True, ssl_context_container=None,
                     force_ssl_connect=False, not_subscribed_actions=None, max_realtime_samples=100):
        comps = consumer_components_factory()
        comps.soap_client_class = loopback.mk_soap_client_class(self.network)
        if sync_dispatch:
            comps.action_dispatcher_class = _SyncDispatcher
        scheme = 'https' if ssl_context_container is not None else 'http'
        server = self.network.new_server(scheme=scheme)
        consumer = SdcConsumer(self.provider_address, SdcV1Definitions, ssl_context_container=ssl_context_container,
                               validate=validate, components=comps, force_ssl_connect=force_ssl_connect,
                               epr=uuid.UUID(int=0x5000 + len(self.consumers)))
        consumer.start_all(shared_http_server=server, not_subscribed_actions=not_subscribed_actions)
        consumer.vf_server = server
        self.consumers.append(consumer)
        cmdib = None
        if with_mdib:
            cmdib = ConsumerMdib(consumer, max_realtime_samples=max_realtime_samples)
            cmdib.init_mdib()
        return consumer, cmdib

    def stop(self):
        for c in self.consumers:
            try:
                c.stop_all(unsubscribe=False)
            except Exception:  # noqa: BLE001
                pass
        try:
            self.provider.stop_all(send_subscription_end=False)
        except Exception:  # noqa: BLE001
            pass


class _SyncDispatcher(RequestDispatcher):
    """The consumer constructs its dispatcher with a log_prefix argument."""

    def __init__(self, log_prefix=''):
        super().__init__(log_prefix)
