"""C04 helper - the application side of a transaction as an observation point.

``HandoutTap(mdib)`` remembers every STATE container that crosses the transaction API in either direction:
  * handed OUT by the library: the return value of get_state / get_context_state / mk_context_state,
  * handed IN by the application: add_state(state), add_descriptor(.., state_container=state), the state objects of an entity passed to
    write_entity / write_entities (entity.state / entity.states[..]).
Only objects the application really holds are remembered - never the internal ``TransactionItem.new`` copies the library makes on its own
(write_entity deep-copies; disassociate_all calls get_context_state internally and returns handles only).  What the application does
with ITS objects after the commit (``scribble``) must not show up in anything the provider retains for later reports: the statement
requires that retained state copies still show the values of the version they are labelled with, whatever happened since.

Nothing of the library is changed: the tap wraps the transaction factory of ONE mdib instance and forwards every call unchanged.
"""
from __future__ import annotations

import random

from . import mdibops
from .history import canon

_OUT = ('get_state', 'get_context_state', 'mk_context_state')


class HandoutTap:
    def __init__(self, mdib):
        self.mdib = mdib
        self.held: list = []  # state containers the application holds since the last take()
        self._quiet = 0
        real_factory = mdib._transaction_factory  # noqa: SLF001
        tap = self

        def factory(provider_mdib, transaction_type, logger):
            tr = real_factory(provider_mdib, transaction_type, logger)
            tap._wrap(tr)
            return tr
        mdib._transaction_factory = factory  # noqa: SLF001

    def _note(self, obj):
        if self._quiet == 0 and obj is not None and hasattr(obj, 'StateVersion') and not any(obj is x for x in self.held):
            self.held.append(obj)

    def _note_entity(self, ent, handles=None):
        if getattr(ent, 'is_multi_state', False):
            for h, st in list(ent.states.items()):
                if handles is None or h in handles:
                    self._note(st)
        else:
            self._note(getattr(ent, 'state', None))

    def _wrap(self, tr):
        tap = self
        for name in _OUT:
            real = getattr(tr, name, None)
            if real is None:
                continue

            def out(*a, _real=real, **kw):
                ret = _real(*a, **kw)
                tap._note(ret)
                return ret
            setattr(tr, name, out)
        real_dis = getattr(tr, 'disassociate_all', None)
        if real_dis is not None:
            def disassociate_all(*a, **kw):
                tap._quiet += 1  # the states it fetches stay inside the library (handles are returned)
                try:
                    return real_dis(*a, **kw)
                finally:
                    tap._quiet -= 1
            tr.disassociate_all = disassociate_all
        real_add_state = getattr(tr, 'add_state', None)
        if real_add_state is not None:
            def add_state(state_container, *a, **kw):
                ret = real_add_state(state_container, *a, **kw)
                tap._note(state_container)
                return ret
            tr.add_state = add_state
        real_write = getattr(tr, 'write_entity', None)
        if real_write is not None:
            def write_entity(entity, *a, **kw):
                tap._quiet += 1  # DescriptorTransaction.write_entity does not call add_state, but stay safe against nested notes
                try:
                    ret = real_write(entity, *a, **kw)
                finally:
                    tap._quiet -= 1
                handles = None
                if a and isinstance(a[0], (list, tuple, set)):
                    handles = set(a[0])
                elif 'modified_handles' in kw:
                    handles = set(kw['modified_handles'])
                tap._note_entity(entity, handles)
                return ret
            tr.write_entity = write_entity
        # write_entities calls self.write_entity for every entity: noted there

    def take(self) -> list:
        held, self.held = self.held, []
        return held


def _nested_edit(st, rng: random.Random) -> bool:
    """an in-place change BELOW the first level (what a shallow copy shares with its source)."""
    try:
        if st.is_context_state:
            if getattr(st, 'CoreData', None) is not None:
                st.CoreData.Givenname = f'scribble{rng.randrange(10 ** 6)}'
                return True
            if getattr(st, 'LocationDetail', None) is not None:
                st.LocationDetail.Bed = f'scribble{rng.randrange(10 ** 6)}'
                return True
            if st.Identification:
                st.Identification[0].Extension = f'scribble{rng.randrange(10 ** 6)}'
                return True
            return False
        if st.is_metric_state:
            mv = getattr(st, 'MetricValue', None)
            if mv is not None and getattr(mv, 'MetricQuality', None) is not None:
                choices = [v for v in type(mv.MetricQuality.Validity) if v != mv.MetricQuality.Validity]
                mv.MetricQuality.Validity = rng.choice(choices)
                return True
            if hasattr(st, 'BodySite'):
                st.BodySite.append(mdibops._coded(rng))  # noqa: SLF001
                return True
        if st.is_alert_state and getattr(st, 'is_alert_system', False):
            st.PresentPhysiologicalAlarmConditions.append(f'scribble{rng.randrange(100)}')
            return True
    except Exception:  # noqa: BLE001
        return False
    return False


def scribble(st, rng: random.Random, nested: bool = False) -> bool:
    """the application re-uses ITS state object as scratch data (never committed).  True if the object's content really changed."""
    before = canon(st)
    if nested and _nested_edit(st, rng) and canon(st) != before:
        return True
    for _ in range(8):
        if st.is_context_state:
            mdibops.mutate_context_state(st, rng)
        else:
            mdibops.mutate_state(st, rng)
        if canon(st) != before:
            return True
    return False
