"""Core of the runtime-monitoring framework: context, verdicts, evidence, known findings, fan-out.

A property module exposes ``run(ctx)`` and uses

* ``ctx.count(name)``          monitor reach counters (shown in the evidence),
* ``ctx.case(key, ...)``       one evaluated case; ``key`` is hashed for "distinct non-trivial",
* ``ctx.sample(obj)``          a written-out case for the evidence,
* ``ctx.witness(key, what, detail)``  a violation witness; ``key`` is the *mechanism key* the
  known-findings file is matched against (never a random value or a case hash),
* ``ctx.floor(name, n)``       reach floors: a deciding monitor that saw fewer than n events makes the
  run inconclusive (exit 2), never green.
"""
from __future__ import annotations

import hashlib
import json
import os
import random
import subprocess
import sys
import tempfile
import time
import traceback
from collections import Counter

VERIF_DIR = os.path.dirname(os.path.dirname(os.path.abspath(__file__)))
REPO_DIR = os.environ.get('VERIF_REPO', '/repo')
EVIDENCE_DIR = os.path.join(VERIF_DIR, 'evidence')
REPLAY_DIR = os.path.join(VERIF_DIR, 'replays')
KNOWN_FINDINGS = os.path.join(VERIF_DIR, 'known_findings.json')
PY = '/venv/bin/python'
MAX_WITNESS_PER_KEY = 3
MAX_SAMPLES = 6


def h(obj) -> str:
    if not isinstance(obj, (bytes, bytearray)):
        obj = repr(obj).encode('utf-8', 'backslashreplace')
    return hashlib.blake2b(obj, digest_size=8).hexdigest()


def jsonable(obj, depth=0):
    """Best-effort conversion to something json.dump accepts."""
    if depth > 12:
        return repr(obj)
    if obj is None or isinstance(obj, (bool, int, str)):
        return obj
    if isinstance(obj, float):
        if obj != obj or obj in (float('inf'), float('-inf')):
            return repr(obj)
        return obj
    if isinstance(obj, (bytes, bytearray)):
        b = bytes(obj)
        if len(b) > 4000:
            return {'bytes_len': len(b), 'head': b[:2000].decode('latin-1'), 'tail': b[-500:].decode('latin-1')}
        return {'bytes': b.decode('latin-1')}
    if isinstance(obj, dict):
        return {str(k): jsonable(v, depth + 1) for k, v in obj.items()}
    if isinstance(obj, (list, tuple, set, frozenset)):
        seq = list(obj)
        if isinstance(obj, (set, frozenset)):
            seq = sorted(seq, key=repr)
        return [jsonable(v, depth + 1) for v in seq]
    return repr(obj)


class Ctx:
    """Accumulates what a check (or one worker of it) observed."""

    def __init__(self, prop: str, tier: str, seed: int, level: str = 'exploration'):
        self.prop = prop
        self.tier = tier
        self.seed = seed
        self.level = level
        self.counters: Counter = Counter()
        self.distinct: set[str] = set()
        self.evaluations = 0
        self.samples: list = []
        self.witnesses: list[dict] = []
        self.witness_counts: Counter = Counter()
        self.floors: dict[str, int] = {}
        self.rule = ''
        self.assumptions: list[str] = []
        self.extra: dict = {}
        self.inconclusive: list[str] = []
        self.exhaustive = None
        self.t0 = time.time()

    # -- recording ---------------------------------------------------------------------------
    @property
    def quick(self) -> bool:
        return self.tier == 'quick'

    def pick(self, quick, thorough):
        return quick if self.tier == 'quick' else thorough

    def rng(self, *salt) -> random.Random:
        return random.Random(f'{self.seed}:{self.prop}:' + ':'.join(str(s) for s in salt))

    def count(self, name: str, n: int = 1):
        self.counters[name] += n

    def case(self, key=None, nontrivial: bool = True, n: int = 1):
        self.evaluations += n
        if nontrivial and key is not None:
            self.distinct.add(key if isinstance(key, str) and len(key) == 16 else h(key))

    def sample(self, obj, force=False):
        if force or len(self.samples) < MAX_SAMPLES:
            self.samples.append(jsonable(obj))

    def witness(self, key: str, what: str, detail=None):
        """Record a violation witness.  key = mechanism key (stable across seeds)."""
        self.witness_counts[key] += 1
        if self.witness_counts[key] <= MAX_WITNESS_PER_KEY:
            self.witnesses.append({'key': key, 'what': what, 'detail': jsonable(detail)})

    def floor(self, name: str, minimum: int):
        self.floors[name] = max(self.floors.get(name, 0), minimum)

    def not_decided(self, reason: str):
        self.inconclusive.append(reason)

    # -- merging of worker results ---------------------------------------------------------------
    def dump(self) -> dict:
        return {'counters': dict(self.counters), 'distinct': sorted(self.distinct), 'evaluations': self.evaluations,
                'samples': self.samples, 'witnesses': self.witnesses, 'witness_counts': dict(self.witness_counts),
                'inconclusive': self.inconclusive, 'extra': self.extra}

    def merge(self, d: dict):
        self.counters.update(d.get('counters', {}))
        self.distinct.update(d.get('distinct', []))
        self.evaluations += d.get('evaluations', 0)
        for s in d.get('samples', []):
            if len(self.samples) < MAX_SAMPLES:
                self.samples.append(s)
        for key, n in d.get('witness_counts', {}).items():
            self.witness_counts[key] += n
        have = Counter(w['key'] for w in self.witnesses)
        for w in d.get('witnesses', []):
            if have[w['key']] < MAX_WITNESS_PER_KEY:
                self.witnesses.append(w)
                have[w['key']] += 1
        self.inconclusive.extend(d.get('inconclusive', []))
        for k, v in d.get('extra', {}).items():
            if isinstance(v, (int, float)) and isinstance(self.extra.get(k, 0), (int, float)):
                self.extra[k] = self.extra.get(k, 0) + v
            elif isinstance(v, list):
                self.extra.setdefault(k, [])
                for x in v:
                    if x not in self.extra[k] and len(self.extra[k]) < 2000:
                        self.extra[k].append(x)
            else:
                self.extra[k] = v


# ---------------------------------------------------------------------------------------------
# fan-out: run  module.func(ctx, arg)  for every arg in child processes (never multiprocessing.Pool)
# ---------------------------------------------------------------------------------------------
class _Slots:
    """Machine-wide bound on concurrently running workers of ALL check invocations (several checks may run side by side: seed regression,
    sweeps, sub-agents): one flock'ed file per slot under /tmp.  Without it a dozen parallel checks put > 150 processes on 16 cores and the
    wall-clock watchdogs turn load into 'inconclusive'.  A single check on an idle machine is not slowed down (slots >= its own fan-out)."""

    def __init__(self):
        self.n = int(os.environ.get('VERIF_GLOBAL_SLOTS', '20'))
        self.dir = os.environ.get('VERIF_SLOT_DIR', '/tmp/vf_slots')
        try:
            os.makedirs(self.dir, exist_ok=True)
        except OSError:
            self.n = 0

    def acquire(self):
        """a held slot (open file object) or None when none is free right now; False when slots are not available at all"""
        if self.n <= 0:
            return False
        import fcntl
        for i in range(self.n):
            try:
                f = open(os.path.join(self.dir, f'slot{i}'), 'a')  # noqa: SIM115
            except OSError:
                return False
            try:
                fcntl.flock(f, fcntl.LOCK_EX | fcntl.LOCK_NB)
                return f
            except OSError:
                f.close()
        return None


def fanout(ctx: Ctx, module: str, func: str, args: list, nproc: int = 16, timeout: float = 1500.0, env=None):
    """Run ``module.func(child_ctx, arg)`` in child interpreters, at most nproc at once; merge the results.

    A child that dies or times out makes the run inconclusive (its partial observations are lost)."""
    # the watchdog only guards against a real hang (its firing is 'inconclusive'): generous, so that a loaded machine does not trip it
    timeout = timeout * float(os.environ.get('VERIF_WATCHDOG_FACTOR', '4' if ctx.tier == 'thorough' else '2'))
    pending = list(enumerate(args))
    running: list[tuple] = []
    tmpdir = tempfile.mkdtemp(prefix='vf_fan_', dir=os.environ.get('VERIF_TMP', None))
    base_env = dict(os.environ)
    if env:
        base_env.update(env)
    slots = _Slots()
    try:
        while pending or running:
            while pending and len(running) < nproc:
                slot = slots.acquire()
                if slot is None and len(running) >= 2:
                    break  # machine-wide bound reached: wait for a free slot (own workers keep running)
                # no free slot, fewer than two own workers: start anyway - every check always makes progress (no starvation by greedier ones)
                idx, arg = pending.pop(0)
                inp = os.path.join(tmpdir, f'in{idx}.json')
                out = os.path.join(tmpdir, f'out{idx}.json')
                with open(inp, 'w') as f:
                    json.dump({'prop': ctx.prop, 'tier': ctx.tier, 'seed': ctx.seed, 'level': ctx.level,
                               'module': module, 'func': func, 'arg': arg, 'out': out}, f)
                errf = open(os.path.join(tmpdir, f'err{idx}.txt'), 'w+')
                p = subprocess.Popen([PY, '-X', 'faulthandler', '-m', 'vf.worker', inp], stdout=errf, stderr=errf,
                                     env=base_env, cwd=VERIF_DIR, close_fds=True)
                running.append((p, idx, out, errf, time.time(), slot))
            time.sleep(0.02)
            still = []
            for p, idx, out, errf, t0, slot in running:
                rc = p.poll()
                if rc is None:
                    if time.time() - t0 > timeout:
                        p.kill()
                        p.wait()
                        ctx.not_decided(f'worker {func}#{idx} hit the wall-clock watchdog ({timeout}s)')
                        errf.close()
                        if slot:
                            slot.close()
                    else:
                        still.append((p, idx, out, errf, t0, slot))
                    continue
                if slot:
                    slot.close()
                errf.seek(0)
                err_txt = errf.read()
                errf.close()
                if rc == 0 and os.path.exists(out):
                    with open(out) as f:
                        ctx.merge(json.load(f))
                else:
                    ctx.not_decided(f'worker {func}#{idx} died rc={rc}: {err_txt[-1500:]}')
            running = still
    finally:
        import shutil
        shutil.rmtree(tmpdir, ignore_errors=True)


# ---------------------------------------------------------------------------------------------
# verdict
# ---------------------------------------------------------------------------------------------
def load_known(prop: str):
    if not os.path.exists(KNOWN_FINDINGS):
        return []
    with open(KNOWN_FINDINGS) as f:
        data = json.load(f)
    return [e for e in data.get('findings', []) if e.get('property') == prop]


def repo_state() -> dict:
    try:
        head = subprocess.run(['git', '-C', REPO_DIR, 'rev-parse', 'HEAD'], capture_output=True, text=True).stdout.strip()
        diff = subprocess.run(['git', '-C', REPO_DIR, 'diff', 'HEAD'], capture_output=True).stdout
        return {'head': head, 'diff_hash': h(diff) if diff else None}
    except Exception as ex:  # noqa: BLE001
        return {'error': repr(ex)}


def finish(ctx: Ctx) -> int:
    known = load_known(ctx.prop)
    open_keys = {e['key']: e for e in known if e.get('status') == 'open'}
    violations = []
    known_hit = {}
    for w in ctx.witnesses:
        if w['key'] in open_keys:
            known_hit.setdefault(w['key'], w)
        else:
            violations.append(w)
    # floors
    for name, minimum in ctx.floors.items():
        if ctx.counters.get(name, 0) < minimum:
            ctx.not_decided(f'monitor reach "{name}" = {ctx.counters.get(name, 0)} < floor {minimum}')
    os.makedirs(EVIDENCE_DIR, exist_ok=True)
    lines = []
    replay_paths = []
    replay_dir = REPLAY_DIR if os.environ.get('VERIF_NO_EVIDENCE') != '1' else os.path.join('/tmp', 'vf_replays_scratch')
    if violations:
        os.makedirs(os.path.join(replay_dir, ctx.prop), exist_ok=True)
        seen = set()
        for w in violations:
            if w['key'] in seen:
                continue
            seen.add(w['key'])
            path = os.path.join(replay_dir, ctx.prop, f'{h(w["key"])}.json')
            with open(path, 'w') as f:
                json.dump({'property': ctx.prop, 'seed': ctx.seed, 'tier': ctx.tier, **w,
                           'occurrences': ctx.witness_counts.get(w['key'], 1)}, f, indent=1)
            replay_paths.append(path)
            lines.append(f'VIOLATION property={ctx.prop} replay={path}')
            lines.append(f'  key={w["key"]} what={w["what"]}')
    for key, w in known_hit.items():
        lines.append(f'KNOWN-FINDING: property={ctx.prop} {open_keys[key].get("what", w["what"])} [key={key}]')
    distinct = len(ctx.distinct)
    coverage = {
        'evaluations': ctx.evaluations,
        'distinct_nontrivial': distinct,
        'rule': ctx.rule,
        'samples': ctx.samples[:MAX_SAMPLES] or [],
        'monitor_counters': dict(sorted(ctx.counters.items())),
        'floors': ctx.floors,
        'witness_keys': dict(ctx.witness_counts),
        'known_findings_hit': sorted(known_hit),
        'inconclusive_reasons': ctx.inconclusive[:20],
        'repo': repo_state(),
    }
    if ctx.exhaustive is not None:
        coverage['exhaustive'] = ctx.exhaustive
    coverage.update(ctx.extra)
    evidence = {
        'property_id': ctx.prop, 'tier': ctx.tier, 'seed': ctx.seed, 'level': ctx.level,
        'coverage': coverage, 'assumptions': ctx.assumptions,
        'wall_s': round(time.time() - ctx.t0, 2), 'violations': len(violations),
    }
    if os.environ.get('VERIF_NO_EVIDENCE') != '1':
        with open(os.path.join(EVIDENCE_DIR, f'{ctx.prop}.json'), 'w') as f:
            json.dump(evidence, f, indent=1, sort_keys=False)
    for line in lines:
        print(line)
    top = ', '.join(f'{k}={v}' for k, v in sorted(ctx.counters.items())[:40])
    print(f'[{ctx.prop} {ctx.tier} seed={ctx.seed}] evaluations={ctx.evaluations} distinct_nontrivial={distinct} '
          f'wall={evidence["wall_s"]}s')
    print(f'  counters: {top}')
    for r in ctx.inconclusive[:10]:
        print(f'INCONCLUSIVE property={ctx.prop} reason={r[-1500:]}')
    if violations:
        return 1
    if ctx.inconclusive:
        return 2
    if ctx.evaluations == 0 or distinct < 2:
        print(f'INCONCLUSIVE property={ctx.prop} reason=nothing observed')
        return 2
    return 0


def guard_repo_import():
    import sdc11073
    path = os.path.realpath(sdc11073.__file__)
    want = os.path.realpath(os.path.join(REPO_DIR, 'src'))
    if not path.startswith(want):
        print(f'INCONCLUSIVE reason=sdc11073 imported from {path}, not from {want}')
        sys.exit(2)


def safe_run(ctx: Ctx, fn, *args):
    try:
        fn(ctx, *args)
    except Exception:  # noqa: BLE001
        ctx.not_decided('harness exception: ' + traceback.format_exc()[-2500:])
