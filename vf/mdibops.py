"""MDIB history generator (DESIGN 2.3): operation records + executor against a real ProviderMdib.

An operation is a plain dict (JSON-able, replayable):  {'op': kind, 'iface': 'classic'|'entity', 'handles': [...], 'seed': int, ...}
``gen_op(rng, mdib, memo)`` looks at the current MDIB and produces one; ``apply_op(mdib, op)`` executes it through the public
transaction API and returns an ``Applied`` record: how the harness expects it to end (commit / empty / abort / reject) and which
entities the harness itself touched (for the "nothing else changed" rule of C02).
"""
from __future__ import annotations

import random
from dataclasses import dataclass, field
from decimal import Decimal

from sdc11073.location import SdcLocation
from sdc11073.xml_types import pm_qnames as pm
from sdc11073.xml_types import pm_types


class BodyAbort(Exception):
    """raised deliberately inside a transaction body."""


@dataclass
class Applied:
    op: dict
    expect: str  # 'commit' | 'empty' | 'abort' | 'reject'
    outcome: str = ''  # what happened: 'ok' | 'raised:<Type>'
    touched_states: set = field(default_factory=set)  # descriptor handles of single states the body changed
    touched_ctx: set = field(default_factory=set)  # context state handles
    touched_descr: set = field(default_factory=set)
    created: set = field(default_factory=set)
    deleted: set = field(default_factory=set)
    deleted_ctx: set = field(default_factory=set)  # context state handles removed (no report exists for that)
    exception: BaseException | None = None
    tb: list = field(default_factory=list)


STR_POOL = ['a', 'Müller', 'x y', '東京', 'O\'Neil & <Co>', 'zz😀', 'line1', '0', 'ÄÖÜ', 'abc def']
STATE_OPS = ('metric', 'alert', 'component', 'operational', 'rt')


# ------------------------------------------------------------------------------------------------
# catalogue of the current MDIB
# ------------------------------------------------------------------------------------------------
def catalog(mdib) -> dict:
    cat = {'metric': [], 'rt': [], 'alert': [], 'component': [], 'operational': [], 'context': [], 'channel': [], 'vmd': [],
           'leaf_metric': [], 'mds': []}
    for d in mdib.descriptions.objects:
        if getattr(d, 'is_realtime_sample_array_metric_descriptor', False):
            cat['rt'].append(d.Handle)
        elif getattr(d, 'is_metric_descriptor', False):
            cat['metric'].append(d.Handle)
            cat['leaf_metric'].append(d.Handle)
        elif getattr(d, 'is_alert_descriptor', False):
            cat['alert'].append(d.Handle)
        elif getattr(d, 'is_operational_descriptor', False):
            cat['operational'].append(d.Handle)
        elif getattr(d, 'is_context_descriptor', False):
            cat['context'].append(d.Handle)
        elif getattr(d, 'is_component_descriptor', False):
            cat['component'].append(d.Handle)
        if d.NODETYPE == pm.ChannelDescriptor:
            cat['channel'].append(d.Handle)
        if d.NODETYPE == pm.VmdDescriptor:
            cat['vmd'].append(d.Handle)
        if d.NODETYPE == pm.MdsDescriptor:
            cat['mds'].append(d.Handle)
    for k in cat:
        cat[k].sort()
    return cat


# ------------------------------------------------------------------------------------------------
# value mutators (always produce schema-valid values)
# ------------------------------------------------------------------------------------------------
def _dec(rng, lo=-1000, hi=1000, scale=10):
    return Decimal(rng.randrange(lo, hi)) / Decimal(scale)


def _coded(rng):
    return pm_types.CodedValue(str(rng.randrange(100, 200000)))


def mutate_state(st, rng: random.Random):
    """change 1..3 members of a single state in place (valid values)."""
    n = rng.randrange(1, 4)
    for _ in range(n):
        if st.is_metric_state:
            _mutate_metric(st, rng)
        elif st.is_alert_state:
            _mutate_alert(st, rng)
        elif st.is_operational_state:
            st.OperatingMode = rng.choice(list(pm_types.OperatingMode))
        elif st.is_component_state:
            _mutate_component(st, rng)
        else:
            st.StateVersion = st.StateVersion  # unknown kind: no change


def _mutate_metric(st, rng):
    which = rng.randrange(7)
    if which <= 2:
        if st.MetricValue is None:
            st.mk_metric_value()
        mv = st.MetricValue
        if st.is_realtime_sample_array_metric_state or st.NODETYPE == pm.DistributionSampleArrayMetricState:
            mv.Samples = [_dec(rng) for _ in range(rng.randrange(0, 6))]
        elif st.NODETYPE in (pm.StringMetricState, pm.EnumStringMetricState):
            mv.Value = rng.choice(STR_POOL)
        else:
            mv.Value = _dec(rng) if rng.random() < 0.9 else None
        if which == 1:
            mv.MetricQuality.Validity = rng.choice(list(pm_types.MeasurementValidity))  # nested attribute
        if which == 2:
            mv.MetricQuality.Mode = rng.choice(list(pm_types.GenerationMode))
            mv.StartTime = 1_700_000_000 + rng.randrange(0, 10 ** 6) / 1000
    elif which == 3:
        st.ActivationState = rng.choice(list(pm_types.ComponentActivation))
    elif which == 4:
        st.ActiveDeterminationPeriod = rng.randrange(1, 100000) / 1000
        st.LifeTimePeriod = rng.choice([None, rng.randrange(1, 1000)])
    elif which == 5:
        if hasattr(type(st), 'PhysiologicalRange'):
            st.PhysiologicalRange = [pm_types.Range(lower=_dec(rng, -100, 0), upper=_dec(rng, 0, 100)) for _ in range(rng.randrange(0, 3))]
        else:
            st.ActivationState = rng.choice(list(pm_types.ComponentActivation))
    else:
        if rng.random() < 0.5:
            st.BodySite = [_coded(rng) for _ in range(rng.randrange(0, 3))]
        else:
            st.BodySite.append(_coded(rng))  # in-place list mutation


def _mutate_alert(st, rng):
    which = rng.randrange(4)
    if which == 0:
        st.ActivationState = rng.choice(list(pm_types.AlertActivation))
    elif st.is_alert_condition:
        if which == 1:
            st.Presence = not st.Presence
        elif which == 2:
            st.ActualPriority = rng.choice(list(pm_types.AlertConditionPriority))
            st.Rank = rng.randrange(0, 10)
        elif hasattr(type(st), 'Limits'):
            st.Limits = pm_types.Range(lower=_dec(rng, -100, 0), upper=_dec(rng, 0, 100))
            st.MonitoredAlertLimits = rng.choice(list(pm_types.AlertConditionMonitoredLimits))
        else:
            st.ActualConditionGenerationDelay = rng.randrange(0, 5000) / 1000
    elif st.is_alert_signal:
        if which == 1:
            st.Presence = rng.choice(list(pm_types.AlertSignalPresence))
        elif which == 2:
            st.Slot = rng.randrange(0, 8)
        else:
            st.ActualSignalGenerationDelay = rng.randrange(0, 5000) / 1000
    elif st.is_alert_system:
        if which == 1:
            st.SelfCheckCount = rng.randrange(0, 10 ** 6)
        elif which == 2:
            st.LastSelfCheck = 1_700_000_000 + rng.randrange(0, 10 ** 9) / 1000
        else:
            st.PresentPhysiologicalAlarmConditions = [f'ac{rng.randrange(5)}' for _ in range(rng.randrange(0, 3))]


def _mutate_component(st, rng):
    which = rng.randrange(4)
    if which == 0:
        st.ActivationState = rng.choice(list(pm_types.ComponentActivation))
    elif which == 1:
        st.OperatingHours = rng.randrange(0, 10 ** 6)
    elif which == 2:
        st.OperatingCycles = rng.randrange(0, 10 ** 6)
    elif st.NODETYPE == pm.ClockState:
        st.LastSet = 1_700_000_000 + rng.randrange(0, 10 ** 9) / 1000
        st.CriticalUse = rng.random() < 0.5
    elif st.NODETYPE == pm.MdsState:
        st.Lang = rng.choice(['en', 'de', 'fr'])
    elif st.NODETYPE == pm.BatteryState:
        st.ChargeCycles = rng.randrange(0, 1000)
        st.Voltage = pm_types.Measurement(_dec(rng, 0, 200), _coded(rng))
    else:
        st.PhysicalConnector = pm_types.PhysicalConnectorInfo([pm_types.LocalizedText(rng.choice(STR_POOL))], rng.randrange(1, 9))


def mutate_context_state(st, rng, allow_assoc_change=False):
    which = rng.randrange(4)
    if st.NODETYPE == pm.PatientContextState:
        if st.CoreData is None:
            st.CoreData = pm_types.PatientDemographicsCoreData()
        if which == 0:
            st.CoreData.Givenname = rng.choice(STR_POOL)  # nested
        elif which == 1:
            st.CoreData.Familyname = rng.choice(STR_POOL)
            st.CoreData.Sex = rng.choice(list(pm_types.Sex))
        elif which == 2:
            st.CoreData.Middlename = [rng.choice(STR_POOL) for _ in range(rng.randrange(0, 3))]
        else:
            st.CoreData.PatientType = rng.choice(list(pm_types.PatientType))
    elif st.NODETYPE == pm.LocationContextState and which < 2:
        if st.LocationDetail is None:
            st.LocationDetail = pm_types.LocationDetail()
        st.LocationDetail.Bed = rng.choice(STR_POOL)
        st.LocationDetail.Room = rng.choice([None] + STR_POOL)
    elif which == 2:
        st.Identification = [pm_types.InstanceIdentifier(root=f'urn:r{rng.randrange(5)}', extension_string=rng.choice(STR_POOL))
                             for _ in range(rng.randrange(0, 3))]
    else:
        st.Validator = [pm_types.InstanceIdentifier(root=f'urn:v{rng.randrange(5)}') for _ in range(rng.randrange(0, 2))]


def mutate_descriptor(d, rng):
    which = rng.randrange(4)
    if which == 0:
        d.SafetyClassification = rng.choice(list(pm_types.SafetyClassification))
    elif which == 1:
        d.Type = _coded(rng)
    elif which == 2 and hasattr(type(d), 'Resolution'):
        d.Resolution = Decimal(rng.choice(['0.1', '0.01', '1', '0.5']))
    elif which == 2 and hasattr(type(d), 'ConditionSignaled') and rng.random() < 0.7:
        d.ConditionSignaled = rng.choice([None, 'ac0', 'ac1', d.ConditionSignaled])  # indexed attribute
    elif hasattr(type(d), 'Source') and d.NODETYPE in (pm.AlertConditionDescriptor, pm.LimitAlertConditionDescriptor):
        d.Source = [f'src{rng.randrange(4)}' for _ in range(rng.randrange(0, 3))]  # indexed 1:n attribute
    else:
        d.SafetyClassification = rng.choice(list(pm_types.SafetyClassification))


# ------------------------------------------------------------------------------------------------
# generation
# ------------------------------------------------------------------------------------------------
DEFAULT_WEIGHTS = {
    'metric': 10, 'alert': 6, 'component': 5, 'operational': 3, 'rt': 3, 'context': 7, 'location': 2,
    'descr_update': 4, 'descr_create': 4, 'descr_delete': 3, 'descr_recreate': 2, 'descr_parent_child': 3, 'descr_with_state': 3,
    'descr_multi': 3, 'entity_stash': 2, 'entity_write_stashed': 2,
    'empty': 1, 'abort': 2, 'unget': 1, 'reject': 2, 'descr_ctx_entity': 1,
    'exotic': 0,       # flag only (never drawn as a kind): allows shapes whose reports describe objects that never were visible
    'ctx_delete': 0,   # deleting a context state cannot be reported to consumers (no BICEPS message for it): provider-only workloads enable it
}


def weights_allow_ctx_delete(memo) -> bool:
    return bool(memo.get('_ctx_delete_allowed'))


def _prelude(cat, weights, memo) -> list:
    ops = []
    if cat['context']:
        d = cat['context'][0]
        ops += [{'op': 'context', 'sub': 'new', 'descr': d, 'new_handle': 'pre1_' + d},
                {'op': 'context', 'sub': 'new_assoc', 'descr': d, 'new_handle': 'pre2_' + d},
                {'op': 'descr_update', 'handles': [d], 'iface': 'classic'},      # a context descriptor with several states is re-versioned
                {'op': 'descr_update', 'handles': [d], 'iface': 'entity'},
                {'op': 'descr_ctx_entity', 'sub': 'update_state', 'descr': d, 'state': 'pre1_' + d, 'new_handle': 'pre3_' + d, 'iface': 'entity'},
                {'op': 'descr_ctx_entity', 'sub': 'add_state', 'descr': d, 'state': 'pre1_' + d, 'new_handle': 'pre4_' + d, 'iface': 'entity'}]
    if cat['channel']:
        ch = cat['channel'][0]
        ops.append({'op': 'descr_parent_child', 'sub': 'add_child+add_child+update_parent', 'parent': ch, 'child': 'pre_c1', 'old_children': [],
                    'new_children': ['pre_c1', 'pre_c2'], 'iface': 'classic'})
    for kind in ('component', 'context', 'descriptor'):
        ops.append({'op': 'empty', 'kind': kind})
    return ops


def _prelude_applicable(mdib, op) -> bool:
    if op['op'] == 'descr_ctx_entity':
        return mdib.context_states.handle.get_one(op['state'], allow_none=True) is not None
    if op['op'] == 'descr_parent_child':
        return mdib.descriptions.handle.get_one('pre_c1', allow_none=True) is None
    if op['op'] == 'context':
        return mdib.context_states.handle.get_one(op['new_handle'], allow_none=True) is None
    return True


def gen_op(rng: random.Random, mdib, memo: dict, weights: dict | None = None) -> dict:
    """memo: generator state across one history {'created': [handles], 'deleted': [handles], 'n': counter}"""
    weights = weights or DEFAULT_WEIGHTS
    cat = catalog(mdib)
    memo.setdefault('created', [])
    memo.setdefault('deleted', [])
    memo['n'] = memo.get('n', 0) + 1
    memo['_ctx_delete_allowed'] = weights.get('ctx_delete', 0) > 0
    memo['_exotic'] = weights.get('exotic', 0) > 0
    kinds = [k for k in weights if weights[k] > 0 and k != 'exotic']
    # every history starts with the shapes that random drawing reaches too rarely (each was needed to expose a defect once)
    if '_prelude' not in memo:
        memo['_prelude'] = _prelude(cat, weights, memo)
    while memo['_prelude']:
        op = memo['_prelude'].pop(0)
        if weights.get(op['op'], 0) > 0 and _prelude_applicable(mdib, op):
            op['seed'] = rng.randrange(1 << 30)
            op.setdefault('iface', 'classic')
            return op
    for _ in range(20):
        kind = rng.choices(kinds, [weights[k] for k in kinds])[0]
        op = _gen_kind(kind, rng, mdib, cat, memo)
        if op is not None:
            op['seed'] = rng.randrange(1 << 30)
            op.setdefault('iface', rng.choice(['classic', 'classic', 'entity']))
            return op
    return {'op': 'empty', 'kind': 'metric', 'seed': 0, 'iface': 'classic'}


def _gen_kind(kind, rng, mdib, cat, memo):
    if kind in STATE_OPS:
        pool = cat[kind]
        if not pool:
            return None
        k = min(len(pool), rng.choice([1, 1, 1, 2, 3, 5]))
        return {'op': kind, 'handles': rng.sample(pool, k)}
    if kind == 'context':
        if not cat['context']:
            return None
        descr = rng.choice(cat['context'])
        existing = sorted(s.Handle for s in mdib.context_states.descriptor_handle.get(descr, []))
        sub = rng.choice(['new', 'new_assoc', 'update', 'update2', 'disassociate', 'new_and_update'])
        if sub in ('update', 'update2', 'new_and_update') and not existing:
            sub = 'new'
        op = {'op': 'context', 'sub': sub, 'descr': descr, 'new_handle': f'ctx{memo["n"]}_{rng.randrange(1000)}'}
        if sub in ('update', 'new_and_update'):
            op['handles'] = [rng.choice(existing)]
        if sub == 'update2':
            op['handles'] = rng.sample(existing, min(len(existing), 2))
        return op
    if kind == 'ctx_delete':
        have = [d for d in cat['context'] if mdib.context_states.descriptor_handle.get(d)]
        if not have:
            return None
        descr = rng.choice(have)
        existing = sorted(s.Handle for s in mdib.context_states.descriptor_handle.get(descr, []))
        sub = rng.choice(['delete', 'delete', 'delete_and_update', 'delete_and_new'])
        if sub == 'delete_and_update' and len(existing) < 2:
            sub = 'delete'
        victims = rng.sample(existing, 1 if sub != 'delete' or len(existing) < 2 else rng.choice([1, 2]))
        return {'op': 'ctx_delete', 'sub': sub, 'descr': descr, 'victims': victims, 'iface': 'entity',
                'other': next((h for h in existing if h not in victims), None), 'new_handle': f'ctxd{memo["n"]}_{rng.randrange(1000)}'}
    if kind == 'descr_ctx_entity':
        if not cat['context']:
            return None
        descr = rng.choice(cat['context'])
        existing = sorted(s.Handle for s in mdib.context_states.descriptor_handle.get(descr, []))
        sub = rng.choice(['update_descr_only', 'update_state', 'add_state'] + (['remove_state'] if weights_allow_ctx_delete(memo) else []))
        if sub in ('update_state', 'remove_state') and not existing:
            sub = 'update_descr_only'
        return {'op': 'descr_ctx_entity', 'sub': sub, 'descr': descr, 'state': rng.choice(existing) if existing else None,
                'new_handle': f'ctxe{memo["n"]}_{rng.randrange(1000)}', 'iface': 'entity'}
    if kind == 'location':
        locs = [d for d in cat['context'] if mdib.descriptions.handle.get_one(d).NODETYPE == pm.LocationContextDescriptor]
        if not locs:
            return None
        return {'op': 'location', 'descr': rng.choice(locs), 'loc': {k: rng.choice([None, rng.choice(STR_POOL)]) for k in ('fac', 'poc', 'bed', 'bldng', 'flr', 'rm')}}
    if kind == 'descr_update':
        pool = cat['metric'] + cat['alert'] + cat['channel'] + cat['vmd'] + cat['context'] * 2
        if not pool:
            return None
        return {'op': 'descr_update', 'handles': sorted(set(rng.sample(pool, min(len(pool), rng.choice([1, 1, 2])))))}
    if kind == 'descr_create':
        if not cat['channel']:
            return None
        return {'op': 'descr_create', 'parent': rng.choice(cat['channel']), 'handle': f'new{memo["n"]}_{rng.randrange(1000)}',
                'with_state': rng.random() < 0.8}
    if kind == 'descr_delete':
        pool = [h for h in memo['created'] if h in mdib.descriptions.handle] or cat['leaf_metric'][-3:]
        # now and then a context descriptor that owns several context states (all of them must go)
        multi = [h for h in cat['context'] if len(mdib.context_states.descriptor_handle.get(h, [])) >= 2]
        if multi and len(cat['context']) >= 2 and rng.random() < 0.35:
            pool = multi
        if not pool:
            return None
        return {'op': 'descr_delete', 'handle': rng.choice(pool)}
    if kind == 'descr_recreate':
        pool = [h for h in memo['deleted'] if h not in mdib.descriptions.handle]
        if not pool or not cat['channel']:
            return None
        return {'op': 'descr_create', 'parent': rng.choice(cat['channel']), 'handle': rng.choice(pool), 'with_state': rng.random() < 0.8,
                'recreate': True}
    if kind == 'descr_parent_child':
        if not cat['channel']:
            return None
        parent = rng.choice(cat['channel'])
        children = sorted(d.Handle for d in mdib.descriptions.parent_handle.get(parent, []))
        sub = rng.choice(['update_parent+add_child', 'add_child+update_parent', 'update_parent+update_child', 'update_child+update_parent',
                          'update_parent+remove_child', 'remove_child+update_parent',
                          # the parent is re-versioned several times by child operations before / after it is updated itself
                          'add_child+add_child+update_parent', 'add_child+remove_child+update_parent', 'remove_child+add_child+update_parent',
                          'update_parent+add_child+add_child', 'add_child+update_parent+add_child', 'remove_child+remove_child+update_parent'])
        need = sub.count('remove_child') + sub.count('update_child')
        if need > len(children):
            return None
        old_children = rng.sample(children, need)
        new_children = [f'pc{memo["n"]}{"abc"[i]}_{rng.randrange(1000)}' for i in range(sub.count('add_child'))]
        child = (old_children + new_children)[0]
        return {'op': 'descr_parent_child', 'sub': sub, 'parent': parent, 'child': child, 'old_children': old_children, 'new_children': new_children}
    if kind == 'descr_multi':
        # several related descriptors in ONE transaction
        sub = rng.choice(['two_children', 'child_then_parent', 'parent_then_child', 'delete_two_siblings', 'create_and_delete_sibling',
                          'recreate_in_one', 'child_then_grandparent', 'grandparent_then_child', 'create_then_delete_parent'])
        if sub == 'create_then_delete_parent' and not memo.get('_exotic'):
            sub = 'two_children'   # a descriptor that exists only inside one transaction: only the provider-only workloads (C02, C03) use it
        chans = [c for c in cat['channel']]
        if not chans:
            return None
        parent = rng.choice(chans)
        children = sorted(d.Handle for d in mdib.descriptions.parent_handle.get(parent, []))
        n = memo['n']
        if sub == 'two_children':
            steps = [['create', f'm{n}a_{rng.randrange(1000)}', parent], ['create', f'm{n}b_{rng.randrange(1000)}', parent]]
        elif sub in ('child_then_parent', 'parent_then_child'):
            withkids = [c for c in chans if mdib.descriptions.parent_handle.get(c)]
            if not withkids or len(chans) < 2:
                return None
            parent = rng.choice(withkids)
            child = sorted(d.Handle for d in mdib.descriptions.parent_handle.get(parent, []))[0]
            steps = [['delete', child], ['delete', parent]] if sub == 'child_then_parent' else [['delete', parent], ['delete', child]]
        elif sub in ('child_then_grandparent', 'grandparent_then_child'):
            withkids = [c for c in chans if mdib.descriptions.parent_handle.get(c)]
            if not withkids or len(cat['vmd']) < 2:
                return None
            parent = rng.choice(withkids)
            child = sorted(d.Handle for d in mdib.descriptions.parent_handle.get(parent, []))[0]
            grand = mdib.descriptions.handle.get_one(parent).parent_handle
            steps = [['delete', child], ['delete', grand]] if sub == 'child_then_grandparent' else [['delete', grand], ['delete', child]]
        elif sub == 'create_then_delete_parent':   # a child is created under a descriptor that the same transaction removes afterwards
            if len(chans) < 2:
                return None
            steps = [['create', f'm{n}d_{rng.randrange(1000)}', parent], ['delete', parent]]
        elif sub == 'delete_two_siblings':
            if len(children) < 2:
                return None
            steps = [['delete', c] for c in rng.sample(children, 2)]
        elif sub == 'create_and_delete_sibling':
            if not children:
                return None
            steps = [['create', f'm{n}c_{rng.randrange(1000)}', parent], ['delete', rng.choice(children)]]
            rng.shuffle(steps)
        else:  # delete a descriptor and create the same handle again in one transaction is rejected by the API ('already in updated set')
            if not children:
                return None
            steps = [['delete', children[0]], ['create', children[0], parent]]
        return {'op': 'descr_multi', 'sub': sub, 'steps': steps, 'iface': 'classic'}
    if kind == 'entity_stash':
        pool = cat['metric'] + cat['alert'] + cat['channel'] + cat['vmd']
        if not pool:
            return None
        return {'op': 'entity_stash', 'handle': rng.choice(pool)}
    if kind == 'entity_write_stashed':
        if not memo.get('_stash'):
            return None
        return {'op': 'entity_write_stashed', 'handle': rng.choice(sorted(memo['_stash']))}
    if kind == 'descr_with_state':
        pool = cat['metric'] + cat['alert']
        if not pool:
            return None
        return {'op': 'descr_with_state', 'handle': rng.choice(pool), 'order': rng.choice(['descr_first', 'state_after_mutation'])}
    if kind == 'empty':
        return {'op': 'empty', 'kind': rng.choice(['metric', 'alert', 'component', 'operational', 'context', 'descriptor', 'rt'])}
    if kind == 'abort':
        base = _gen_kind(rng.choice(['metric', 'alert', 'component', 'context', 'descr_update', 'descr_create', 'descr_recreate', 'descr_recreate',
                                     'descr_delete', 'descr_multi', 'descr_ctx_entity'] + (['ctx_delete'] if weights_allow_ctx_delete(memo) else [])),
                         rng, mdib, cat, memo)
        if base is None:
            return None
        base['abort_at'] = rng.choice(['start', 'middle', 'end'])
        return base
    if kind == 'unget':
        if len(cat['metric']) < 2:
            return None
        return {'op': 'unget', 'handles': rng.sample(cat['metric'], 2)}
    if kind == 'reject':
        return {'op': 'reject', 'sub': rng.choice(['wrong_kind', 'unknown_handle', 'twice', 'existing_descriptor', 'ctx_handle_in_use',
                                                    'state_without_descriptor']),
                'metric': rng.choice(cat['metric']) if cat['metric'] else None,
                'alert': rng.choice(cat['alert']) if cat['alert'] else None,
                'context': rng.choice(cat['context']) if cat['context'] else None}
    return None


# ------------------------------------------------------------------------------------------------
# execution
# ------------------------------------------------------------------------------------------------
_TR = {'metric': 'metric_state_transaction', 'alert': 'alert_state_transaction', 'component': 'component_state_transaction',
       'operational': 'operational_state_transaction', 'rt': 'rt_sample_state_transaction', 'context': 'context_state_transaction',
       'descriptor': 'descriptor_transaction'}


def apply_op(mdib, op: dict, memo: dict | None = None) -> Applied:
    rng = random.Random(op.get('seed', 0))
    ap = Applied(op, 'commit')
    if 'abort_at' in op:
        ap.expect = 'abort'
    if op['op'] in ('entity_stash', 'entity_write_stashed'):
        op = dict(op, _memo=memo)
    try:
        _EXEC[op['op']](mdib, op, rng, ap)
        ap.outcome = 'ok'
    except BodyAbort as ex:
        ap.outcome = 'raised:BodyAbort'
        ap.exception = ex
    except Exception as ex:  # noqa: BLE001
        ap.outcome = f'raised:{type(ex).__name__}'
        ap.exception = ex
        import traceback
        ap.tb = [f'{f.filename.rsplit("/", 1)[-1]}:{f.lineno}:{f.name}' for f in traceback.extract_tb(ex.__traceback__)][-6:]
    if memo is not None and ap.outcome == 'ok' and ap.expect == 'commit':
        memo.setdefault('created', []).extend(sorted(ap.created))
        memo.setdefault('deleted', []).extend(sorted(ap.deleted))
    return ap


def _maybe_abort(op, where):
    if op.get('abort_at') == where:
        raise BodyAbort(where)


def _x_state(mdib, op, rng, ap):
    kind = op['op']
    handles = op['handles']
    with getattr(mdib, _TR[kind])() as mgr:
        _maybe_abort(op, 'start')
        for i, h in enumerate(handles):
            if op.get('iface') == 'entity':
                ent = mdib.entities.by_handle(h)
                mutate_state(ent.state, rng)
                mgr.write_entity(ent)
            else:
                st = mgr.get_state(h)
                mutate_state(st, rng)
            ap.touched_states.add(h)
            if i == 0:
                _maybe_abort(op, 'middle')
        _maybe_abort(op, 'end')


def _x_context(mdib, op, rng, ap):
    sub = op['sub']
    descr = op['descr']
    assoc = pm_types.ContextAssociation
    with mdib.context_state_transaction() as mgr:
        _maybe_abort(op, 'start')
        if sub in ('new', 'new_assoc', 'new_and_update'):
            if op.get('iface') == 'entity':
                ent = mdib.entities.by_handle(descr)
                st = ent.new_state(op['new_handle'])
                mutate_context_state(st, rng)
                if sub == 'new_assoc':
                    for h in mgr.disassociate_all(descr):
                        ap.touched_ctx.add(h)
                    st.ContextAssociation = assoc.ASSOCIATED
                    st.BindingMdibVersion = mgr.new_mdib_version
                    st.BindingStartTime = 1_700_000_000.5
                mgr.write_entity(ent, [st.Handle])
            else:
                if sub == 'new_assoc':
                    for h in mgr.disassociate_all(descr):
                        ap.touched_ctx.add(h)
                st = mgr.mk_context_state(descr, op['new_handle'], set_associated=(sub == 'new_assoc'))
                mutate_context_state(st, rng)
            ap.touched_ctx.add(op['new_handle'])
        _maybe_abort(op, 'middle')
        if sub in ('update', 'update2', 'new_and_update'):
            for h in op['handles']:
                if op.get('iface') == 'entity':
                    ent = mdib.entities.by_handle(descr)
                    mutate_context_state(ent.states[h], rng)
                    mgr.write_entity(ent, [h])
                else:
                    st = mgr.get_context_state(h)
                    mutate_context_state(st, rng)
                ap.touched_ctx.add(h)
        if sub == 'disassociate':
            for h in mgr.disassociate_all(descr):
                ap.touched_ctx.add(h)
            if not ap.touched_ctx:
                ap.expect = 'empty' if ap.expect == 'commit' else ap.expect
        _maybe_abort(op, 'end')


def _x_ctx_delete(mdib, op, rng, ap):
    """a context state is removed through the entity interface (+ optionally another state updated / created in the same transaction)"""
    ent = mdib.entities.by_handle(op['descr'])
    handles = list(op['victims'])
    for h in op['victims']:
        del ent.states[h]
    if op['sub'] == 'delete_and_update' and op.get('other') in ent.states:
        mutate_context_state(ent.states[op['other']], rng)
        handles.append(op['other'])
    if op['sub'] == 'delete_and_new':
        st = ent.new_state(op['new_handle'])
        mutate_context_state(st, rng)
        handles.append(st.Handle)
    rng.shuffle(handles)
    with mdib.context_state_transaction() as mgr:
        _maybe_abort(op, 'start')
        mgr.write_entity(ent, handles)
        _maybe_abort(op, 'middle')
        _maybe_abort(op, 'end')
    ap.touched_ctx |= set(handles)
    ap.deleted_ctx = set(op['victims'])


def _x_descr_ctx_entity(mdib, op, rng, ap):
    """a context entity (descriptor + all its states) written in a DESCRIPTOR transaction"""
    ent = mdib.entities.by_handle(op['descr'])
    mutate_descriptor(ent.descriptor, rng)
    if op['sub'] == 'update_state':
        mutate_context_state(ent.states[op['state']], rng)
    elif op['sub'] == 'remove_state':
        del ent.states[op['state']]
        ap.deleted_ctx = {op['state']}
    elif op['sub'] == 'add_state':
        st = ent.new_state(op['new_handle'])
        mutate_context_state(st, rng)
    with mdib.descriptor_transaction() as mgr:
        _maybe_abort(op, 'start')
        mgr.write_entity(ent)
        _maybe_abort(op, 'middle')
        _maybe_abort(op, 'end')
    ap.touched_descr.add(op['descr'])
    ap.touched_ctx |= {s.Handle for s in mdib.context_states.descriptor_handle.get(op['descr'], [])} | ({op['state']} if op['state'] else set())


def _x_location(mdib, op, rng, ap):
    loc = SdcLocation(**op['loc'])
    before = {s.Handle for s in mdib.context_states.descriptor_handle.get(op['descr'], [])}
    mdib.xtra.set_location(loc, location_context_descriptor_handle=op['descr'])
    after = {s.Handle for s in mdib.context_states.descriptor_handle.get(op['descr'], [])}
    ap.touched_ctx |= before | after  # set_location may disassociate every older state of that descriptor


def _x_descr_update(mdib, op, rng, ap):
    with mdib.descriptor_transaction() as mgr:
        _maybe_abort(op, 'start')
        for i, h in enumerate(op['handles']):
            if op.get('iface') == 'entity':
                ent = mdib.entities.by_handle(h)
                mutate_descriptor(ent.descriptor, rng)
                mgr.write_entity(ent)
            else:
                d = mgr.get_descriptor(h)
                mutate_descriptor(d, rng)
            ap.touched_descr.add(h)
            if i == 0:
                _maybe_abort(op, 'middle')
        _maybe_abort(op, 'end')


def _new_numeric(mdib, handle, parent, rng):
    cls = mdib.data_model.get_descriptor_container_class(pm.NumericMetricDescriptor)
    d = cls(handle=handle, parent_handle=parent)
    d.Type = _coded(rng)
    d.Unit = _coded(rng)
    d.Resolution = Decimal('0.1')
    d.MetricCategory = pm_types.MetricCategory.MEASUREMENT
    d.MetricAvailability = pm_types.MetricAvailability.CONTINUOUS
    return d


def _x_descr_create(mdib, op, rng, ap):
    with mdib.descriptor_transaction() as mgr:
        _maybe_abort(op, 'start')
        if op.get('iface') == 'entity':
            ent = mdib.entities.new_entity(pm.NumericMetricDescriptor, op['handle'], op['parent'])
            d = ent.descriptor
            d.Type, d.Unit, d.Resolution = _coded(rng), _coded(rng), Decimal('0.1')
            d.MetricCategory = pm_types.MetricCategory.MEASUREMENT
            d.MetricAvailability = pm_types.MetricAvailability.CONTINUOUS
            mutate_state(ent.state, rng)
            _maybe_abort(op, 'middle')
            mgr.write_entity(ent)
        else:
            d = _new_numeric(mdib, op['handle'], op['parent'], rng)
            if op.get('with_state', True):
                st = mdib.data_model.mk_state_container(d)
                mutate_state(st, rng)
                _maybe_abort(op, 'middle')
                mgr.add_descriptor(d, state_container=st)
            else:
                _maybe_abort(op, 'middle')
                mgr.add_descriptor(d)
        ap.created.add(op['handle'])
        ap.touched_descr |= {op['handle'], op['parent']}
        ap.touched_states |= {op['handle'], op['parent']}
        _maybe_abort(op, 'end')


def _subtree(mdib, handle):
    d = mdib.descriptions.handle.get_one(handle, allow_none=True)
    if d is None:
        return set()
    return {x.Handle for x in mdib.get_all_descriptors_in_subtree(d)}


def _x_descr_delete(mdib, op, rng, ap):
    sub = _subtree(mdib, op['handle'])
    d = mdib.descriptions.handle.get_one(op['handle'], allow_none=True)
    parent = d.parent_handle if d is not None else None
    with mdib.descriptor_transaction() as mgr:
        _maybe_abort(op, 'start')
        if op.get('iface') == 'entity':
            mgr.remove_entity(mdib.entities.by_handle(op['handle']))
        else:
            mgr.remove_descriptor(op['handle'])
        _maybe_abort(op, 'middle')
        _maybe_abort(op, 'end')
    ap.deleted |= sub
    ap.touched_descr |= sub | {parent}
    ap.touched_states |= sub | {parent}


def _x_parent_child(mdib, op, rng, ap):
    steps = op['sub'].split('+')
    parent = op['parent']
    old_children, new_children = list(op.get('old_children', [op['child']])), list(op.get('new_children', [op['child']]))
    touched_children = set()
    with mdib.descriptor_transaction() as mgr:
        for step in steps:
            if step in ('update_child', 'remove_child'):
                child = old_children.pop(0)
                touched_children.add(child)
                if step == 'remove_child':
                    ap.deleted |= _subtree(mdib, child)
            elif step == 'add_child':
                child = new_children.pop(0)
                touched_children.add(child)
            if step == 'update_parent':
                if op.get('iface') == 'entity':
                    ent = mdib.entities.by_handle(parent)
                    mutate_descriptor(ent.descriptor, rng)
                    mgr.write_entity(ent)
                else:
                    mutate_descriptor(mgr.get_descriptor(parent), rng)
            elif step == 'add_child':
                if op.get('iface') == 'entity':
                    ent = mdib.entities.new_entity(pm.NumericMetricDescriptor, child, parent)
                    d = ent.descriptor
                    d.Type, d.Unit, d.Resolution = _coded(rng), _coded(rng), Decimal('0.1')
                    d.MetricCategory = pm_types.MetricCategory.MEASUREMENT
                    d.MetricAvailability = pm_types.MetricAvailability.CONTINUOUS
                    mgr.write_entity(ent)
                else:
                    d = _new_numeric(mdib, child, parent, rng)
                    mgr.add_descriptor(d, state_container=mdib.data_model.mk_state_container(d))
                ap.created.add(child)
            elif step == 'update_child':
                if op.get('iface') == 'entity':
                    ent = mdib.entities.by_handle(child)
                    mutate_descriptor(ent.descriptor, rng)
                    mgr.write_entity(ent)
                else:
                    mutate_descriptor(mgr.get_descriptor(child), rng)
            elif step == 'remove_child':
                mgr.remove_descriptor(child)
    ap.touched_descr |= {parent} | touched_children | ap.deleted
    ap.touched_states |= {parent} | touched_children | ap.deleted


def _x_descr_multi(mdib, op, rng, ap):
    if op['sub'] == 'recreate_in_one':
        ap.expect = 'reject'
    for step in op['steps']:
        if step[0] == 'delete':
            ap.deleted |= _subtree(mdib, step[1])
            d = mdib.descriptions.handle.get_one(step[1], allow_none=True)
            if d is not None:
                ap.touched_descr.add(d.parent_handle)
    with mdib.descriptor_transaction() as mgr:
        _maybe_abort(op, 'start')
        for i, step in enumerate(op['steps']):
            if step[0] == 'create':
                d = _new_numeric(mdib, step[1], step[2], rng)
                st = mdib.data_model.mk_state_container(d)
                mutate_state(st, rng)
                mgr.add_descriptor(d, state_container=st)
                ap.created.add(step[1])
                ap.touched_descr |= {step[1], step[2]}
            elif step[0] == 'delete':
                mgr.remove_descriptor(step[1])
            if i == 0:
                _maybe_abort(op, 'middle')
        _maybe_abort(op, 'end')
    ap.touched_descr |= ap.deleted
    ap.touched_states |= ap.touched_descr


def _x_descr_with_state(mdib, op, rng, ap):
    h = op['handle']
    with mdib.descriptor_transaction() as mgr:
        d = mgr.get_descriptor(h)
        if op['order'] == 'descr_first':
            st = mgr.get_state(h)
            mutate_descriptor(d, rng)
            mutate_state(st, rng)
        else:
            mutate_descriptor(d, rng)
            st = mgr.get_state(h)
            mutate_state(st, rng)
    ap.touched_descr.add(h)
    ap.touched_states.add(h)


def _x_entity_stash(mdib, op, rng, ap):
    """the application keeps an entity for later (no transaction)"""
    ap.expect = 'empty'
    memo = op.get('_memo')
    ent = mdib.entities.by_handle(op['handle'])
    if memo is not None and ent is not None and not ent.is_multi_state:
        memo.setdefault('_stash', {})[op['handle']] = ent


def _x_entity_write_stashed(mdib, op, rng, ap):
    """... and writes it in a state transaction after other transactions may have re-versioned its descriptor"""
    memo = op.get('_memo') or {}
    ent = memo.get('_stash', {}).pop(op['handle'], None)
    if ent is None:
        ap.expect = 'empty'
        return
    st = ent.state
    kind = ('rt' if st.is_realtime_sample_array_metric_state else 'metric' if st.is_metric_state else 'alert' if st.is_alert_state
            else 'operational' if st.is_operational_state else 'component')
    mutate_state(st, rng)
    with getattr(mdib, _TR[kind])() as mgr:
        mgr.write_entity(ent)
    ap.touched_states.add(op['handle'])


def _x_empty(mdib, op, rng, ap):
    ap.expect = 'empty'
    with getattr(mdib, _TR[op['kind']])():
        pass


def _x_unget(mdib, op, rng, ap):
    a, b = op['handles']
    with mdib.metric_state_transaction() as mgr:
        st_a = mgr.get_state(a)
        mutate_state(st_a, rng)
        st_b = mgr.get_state(b)
        mutate_state(st_b, rng)
        mgr.unget_state(st_b)
    ap.touched_states.add(a)


def _x_reject(mdib, op, rng, ap):
    """API calls the transaction must reject: the call raises, the exception leaves the with-block, nothing changes."""
    ap.expect = 'reject'
    sub = op['sub']
    if sub == 'wrong_kind' and op['alert']:
        with mdib.metric_state_transaction() as mgr:
            mgr.get_state(op['alert'])
    elif sub == 'unknown_handle':
        with mdib.metric_state_transaction() as mgr:
            if op['metric']:
                mutate_state(mgr.get_state(op['metric']), rng)
            mgr.get_state('does-not-exist')
    elif sub == 'twice' and op['metric']:
        with mdib.metric_state_transaction() as mgr:
            mutate_state(mgr.get_state(op['metric']), rng)
            mgr.get_state(op['metric'])
    elif sub == 'existing_descriptor' and op['metric']:
        with mdib.descriptor_transaction() as mgr:
            d = mdib.descriptions.handle.get_one(op['metric'])
            mgr.add_descriptor(_new_numeric(mdib, op['metric'], d.parent_handle, rng))
    elif sub == 'ctx_handle_in_use' and op['context']:
        existing = sorted(s.Handle for s in mdib.context_states.objects)
        if not existing:
            raise BodyAbort('nothing to collide with')
        with mdib.context_state_transaction() as mgr:
            mgr.mk_context_state(op['context'], existing[0])
    elif sub == 'state_without_descriptor' and op['metric']:
        with mdib.descriptor_transaction() as mgr:
            mgr.get_state(op['metric'])  # descriptor not part of the transaction
    else:
        raise BodyAbort('not applicable')


_EXEC = {'metric': _x_state, 'alert': _x_state, 'component': _x_state, 'operational': _x_state, 'rt': _x_state,
         'context': _x_context, 'location': _x_location, 'descr_update': _x_descr_update, 'descr_create': _x_descr_create,
         'descr_delete': _x_descr_delete, 'descr_multi': _x_descr_multi, 'descr_parent_child': _x_parent_child, 'descr_with_state': _x_descr_with_state,
         'empty': _x_empty, 'unget': _x_unget, 'reject': _x_reject, 'ctx_delete': _x_ctx_delete, 'descr_ctx_entity': _x_descr_ctx_entity,
         'entity_stash': _x_entity_stash, 'entity_write_stashed': _x_entity_write_stashed}


def op_shape(ap: Applied):
    op = ap.op
    return (op['op'], op.get('sub'), op.get('iface'), op.get('abort_at'), len(op.get('handles', [])), ap.outcome)
