"""Thread-less / socket-less harness around the real WS-Discovery classes (C14, C15)."""
from __future__ import annotations

import logging
import threading
import types


class VClock:
    """module-like object replacing ``time`` in a library module: one logical clock, sleep() advances it."""

    def __init__(self, start=1_790_000_000.0):
        self.now = start
        self.sleeps = 0
        self.lock = threading.Lock()

    def time(self):
        return self.now

    def monotonic(self):
        return self.now

    def perf_counter(self):
        return self.now

    def sleep(self, seconds):
        with self.lock:
            self.sleeps += 1
            self.now += max(seconds, 0)


class EnumRandom:
    """module-like replacement of ``random``: returns the values the harness dictates and records the bounds asked for."""

    def __init__(self):
        self.randint_value = 0
        self.randrange_value = 0
        self.calls = []

    def randint(self, a, b):
        self.calls.append(('randint', a, b))
        v = self.randint_value
        if not a <= v <= b:
            raise AssertionError(f'harness: randint value {v} outside requested [{a},{b}]')
        return v

    def randrange(self, a, b=None):
        if b is None:
            a, b = 0, a
        self.calls.append(('randrange', a, b))
        v = self.randrange_value
        if not a <= v < b:
            raise AssertionError(f'harness: randrange value {v} outside requested [{a},{b})')
        return v


class FakeSock:
    def __init__(self, clock):
        self.clock = clock
        self.sent = []

    def sendto(self, data, addr):
        self.sent.append((self.clock.time(), data, addr))

    def getsockname(self):
        return ('127.0.0.1', 40000)

    def close(self):
        pass

    def setblocking(self, flag):
        pass

    def fileno(self):
        return -1


class FakeSelector:
    def __init__(self, socks):
        self.socks = socks

    def select(self, timeout=None):
        return [(types.SimpleNamespace(fileobj=s), 4) for s in self.socks]

    def register(self, *a, **k):
        pass

    def close(self):
        pass


def mk_networking_thread(wsd, clock, rnd=None):
    """Real NetworkingThread with fake sockets; module globals time/random replaced by clock / rnd."""
    from sdc11073.wsdiscovery import networkingthread as nt

    class NT(nt.NetworkingThread):
        def _create_multicast_in_socket(self, addr, port):
            return FakeSock(clock)

        def _create_multi_out_uni_in_out_socket(self, addr, multicast_ttl):
            return FakeSock(clock)

    nt.time = clock
    if rnd is not None:
        nt.random = rnd
    thread = NT('127.0.0.1', wsd, logging.getLogger('vf.wsd'), 3702, 1)
    try:
        thread._inbound_selector.close()
        thread._outbound_selector.close()
    except Exception:  # noqa: BLE001
        pass
    thread._outbound_selector = FakeSelector([thread.multi_out_uni_in_out])
    thread._inbound_selector = FakeSelector([])
    return thread


class RecordingNetworkingThread:
    """Stands in for WSDiscovery._networking_thread: records add_outbound_message."""

    def __init__(self):
        self.out = []

    def add_outbound_message(self, msg, addr, port, repeat_params):
        self.out.append((msg, addr, port, repeat_params))

    def schedule_stop(self):
        pass

    def join(self):
        pass
