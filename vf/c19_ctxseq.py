"""C19 helper: call sequences of certloader.mk_ssl_contexts / mk_ssl_contexts_from_folder judged by a per-call model.

Model: the container returned by a call that was given CA file X requires the peer certificate on both contexts and trusts exactly X - whatever
was called before or afterwards: as a server it serves a client whose certificate X signed and refuses one signed by another CA and one without
certificate; as a client it connects to a server whose certificate X signed and refuses a server signed by another CA.  Calls without CA file are
part of the history only (the statement says nothing about their result).

Every sequence works on its own copy of the key material (fresh paths), so sequences do not influence each other.  Only C19 uses this module."""
from __future__ import annotations

import os
import pathlib
import shutil
import ssl
import tempfile

KEYS = ('provider', 'consumer', 'untrusted')  # key pairs of the fixture PKI; provider / consumer are signed by ca.pem, untrusted by otherca.pem
SIGNED_BY = {'ca.pem': 'consumer', 'otherca.pem': 'untrusted'}  # a peer certificate signed by that CA
CYPHERS = (None, 'HIGH:!aNULL:!MD5')
DIRECTED = (
    [('provider', None, None, 'direct'), ('provider', 'ca.pem', None, 'direct')],
    [('provider', 'ca.pem', None, 'direct'), ('provider', None, None, 'direct')],
    [('provider', 'otherca.pem', None, 'direct'), ('provider', 'ca.pem', None, 'direct')],
    [('consumer', None, 'HIGH:!aNULL:!MD5', 'direct'), ('consumer', 'ca.pem', 'HIGH:!aNULL:!MD5', 'direct')],
    [('consumer', None, None, 'folder'), ('consumer', 'ca.pem', None, 'folder')],
    [('consumer', None, None, 'direct'), ('consumer', 'ca.pem', None, 'folder'), ('consumer', 'otherca.pem', 'HIGH:!aNULL:!MD5', 'folder')],
    [('provider', None, None, 'direct'), ('consumer', 'ca.pem', None, 'direct'), ('provider', 'ca.pem', 'HIGH:!aNULL:!MD5', 'direct')],
    [('untrusted', 'otherca.pem', None, 'direct'), ('untrusted', None, None, 'direct'), ('untrusted', 'otherca.pem', None, 'direct')],
)


def gen_sequence(rng, length):
    return [(rng.choice(KEYS[:2] if rng.random() < 0.8 else KEYS), rng.choice((None, None, 'ca.pem', 'ca.pem', 'otherca.pem')), rng.choice(CYPHERS),
             rng.choice(('direct', 'direct', 'folder'))) for _ in range(length)]


def handshake(client_ctx: ssl.SSLContext, server_ctx: ssl.SSLContext) -> tuple[bool, str]:
    """in-memory TLS handshake + one application data round trip (TLS 1.3: the client may be done before the server verified its certificate)."""
    c_in, c_out, s_in, s_out = ssl.MemoryBIO(), ssl.MemoryBIO(), ssl.MemoryBIO(), ssl.MemoryBIO()
    c = client_ctx.wrap_bio(c_in, c_out, server_side=False)
    s = server_ctx.wrap_bio(s_in, s_out, server_side=True)
    done_c = done_s = False
    for _ in range(50):
        if not done_c:
            try:
                c.do_handshake()
                done_c = True
            except ssl.SSLWantReadError:
                pass
            except ssl.SSLError as ex:
                return False, f'client: {ex.reason}'
        data = c_out.read()
        if data:
            s_in.write(data)
        if not done_s:
            try:
                s.do_handshake()
                done_s = True
            except ssl.SSLWantReadError:
                pass
            except ssl.SSLError as ex:
                return False, f'server: {ex.reason}'
        data = s_out.read()
        if data:
            c_in.write(data)
        if done_c and done_s:
            try:
                c.write(b'ping')
                s_in.write(c_out.read())
                s.read(4)
                s.write(b'pong')
                c_in.write(s_out.read())
                c.read(4)
                return True, ''
            except ssl.SSLWantReadError:
                continue
            except ssl.SSLError as ex:
                return False, f'post-handshake: {ex.reason}'
    return False, 'no progress'


class Peers:
    """the harness' own peers, built with the ssl module only."""

    def __init__(self, pki: pathlib.Path):
        self.client, self.server = {}, {}
        for name in ('consumer', 'untrusted'):
            c = ssl.SSLContext(ssl.PROTOCOL_TLS_CLIENT)
            c.check_hostname = False
            c.verify_mode = ssl.CERT_NONE  # the context under test decides alone
            c.load_cert_chain(pki / f'{name}.pem', pki / f'{name}.key')
            self.client[name] = c
            s = ssl.SSLContext(ssl.PROTOCOL_TLS_SERVER)  # asks for no client certificate: only the client under test verifies
            s.load_cert_chain(pki / f'{name}.pem', pki / f'{name}.key')
            self.server[name] = s
        anon = ssl.SSLContext(ssl.PROTOCOL_TLS_CLIENT)
        anon.check_hostname = False
        anon.verify_mode = ssl.CERT_NONE
        self.client['no_certificate'] = anon


def judge(ctx, peers: Peers, container, ca: str, label: dict, phase: str):
    """the model for one container that was built from CA file ``ca``."""
    other = 'otherca.pem' if ca == 'ca.pem' else 'ca.pem'
    for side, sc in (('client', container.client_context), ('server', container.server_context)):
        ctx.count('contexts.history.verify_mode_checked')
        if sc.verify_mode != ssl.CERT_REQUIRED:
            ctx.witness(f'contexts.history.verify_mode.{side}', f'{side} context returned by a call with a CA file does not require the peer certificate '
                        '(other calls for the same key pair preceded / followed)', {**label, 'phase': phase, 'verify_mode': str(sc.verify_mode)})
    for peer, client_ctx, expect in (('own_ca', peers.client[SIGNED_BY[ca]], True), ('other_ca', peers.client[SIGNED_BY[other]], False),
                                     ('no_certificate', peers.client['no_certificate'], False)):
        ok, why = handshake(client_ctx, container.server_context)
        ctx.count('contexts.history.handshakes')
        if ok != expect:
            ctx.witness(f'contexts.history.handshake.client_{peer}.{"accepted" if ok else "rejected"}',
                        f'server context of a call with a CA file: a client with {peer} certificate was {"served" if ok else "refused"}',
                        {**label, 'phase': phase, 'why': why})
    for peer, server_ctx, expect in (('own_ca', peers.server[SIGNED_BY[ca]], True), ('other_ca', peers.server[SIGNED_BY[other]], False)):
        ok, why = handshake(container.client_context, server_ctx)
        ctx.count('contexts.history.handshakes')
        if ok != expect:
            ctx.witness(f'contexts.history.handshake.server_{peer}.{"accepted" if ok else "rejected"}',
                        f'client context of a call with a CA file: a server with {peer} certificate was {"accepted" if ok else "refused"}',
                        {**label, 'phase': phase, 'why': why})


def run_sequence(ctx, pki: pathlib.Path, peers: Peers, seq, origin: str):
    from sdc11073.certloader import mk_ssl_contexts, mk_ssl_contexts_from_folder
    tmp = pathlib.Path(tempfile.mkdtemp(prefix='vf_c19_seq_'))
    try:
        for name in KEYS:
            shutil.copy(pki / f'{name}.key', tmp / f'{name}.key')
            shutil.copy(pki / f'{name}.pem', tmp / f'{name}.pem')
        for ca in ('ca.pem', 'otherca.pem'):
            shutil.copy(pki / ca, tmp / ca)
        with open(tmp / 'cyphers.txt', 'w') as f:
            f.write('# cipher suites\n' + CYPHERS[1] + '\n')
        results = []
        shape = tuple((k, ca, cy is not None, via) for k, ca, cy, via in seq)
        for i, (key, ca, cyphers, via) in enumerate(seq):
            label = {'sequence': [list(x) for x in seq], 'call': i, 'origin': origin}
            if via == 'folder':
                container = mk_ssl_contexts_from_folder(tmp, private_key=f'{key}.key', certificate=f'{key}.pem', ca_public_key=ca,
                                                        cyphers_file='cyphers.txt' if cyphers else None)
            else:
                container = mk_ssl_contexts(tmp / f'{key}.key', tmp / f'{key}.pem', tmp / ca if ca else None, cyphers=cyphers)
            ctx.count('contexts.history.calls')
            if ca is not None:
                if i > 0:
                    ctx.count('contexts.history.calls_with_ca_after_other_calls')
                if any(k == key and c != ca for k, c, _cy, _v in seq[:i]):
                    ctx.count('contexts.history.calls_with_ca_after_same_key_other_ca_setting')
                judge(ctx, peers, container, ca, label, 'fresh')
                results.append((container, ca, label))
        # what earlier calls returned is still what it was after all later calls
        for container, ca, label in results[:-1]:
            ctx.count('contexts.history.rechecked_after_later_calls')
            judge(ctx, peers, container, ca, label, 'after_later_calls')
        ctx.case(('ctx-sequence',) + shape)
    finally:
        shutil.rmtree(tmp, ignore_errors=True)


def run(ctx, pki):
    pki = pathlib.Path(pki)
    peers = Peers(pki)
    for seq in DIRECTED:
        run_sequence(ctx, pki, peers, list(seq), 'directed')
    rng = ctx.rng('c19-ctxseq')
    for _ in range(ctx.pick(10, 120)):
        run_sequence(ctx, pki, peers, gen_sequence(rng, rng.randint(2, 5)), 'generated')
