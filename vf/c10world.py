"""C10 helpers: sample MDIBs widened by more context descriptors / SetContextState operations, the provider world with the
tutorial ``ExtendedExampleProduct`` (patient + location + ensemble context providers), and the commit recorder.

The sample files contain one PatientContext + one LocationContext and a single SetContextState operation (patient).  ``derive``
adds (data only, schema-valid): two EnsembleContext descriptors per SystemContext, Patient/LocationContext where a SystemContext
(second MDS of mdib_two_mds.xml) has none - which gives an MDIB with two location context descriptors -, and one
SetContextStateOperationDescriptor per context descriptor in the first SCO.
"""
from __future__ import annotations

import threading

from lxml import etree

from sdc11073 import observableproperties as properties
from sdc11073.provider.providerimpl import RoleProviderComponents

from . import mdibharness

PM = 'http://standards.ieee.org/downloads/11073/11073-10207-2017/participant'
XSI = 'http://www.w3.org/2001/XMLSchema-instance'
_orig_loader = mdibharness.load_mdib_bytes


def _q(name):
    return f'{{{PM}}}{name}'


def derive(name: str) -> bytes:
    root = etree.fromstring(_orig_loader(name))
    sco = next(root.iter(_q('Sco')))
    prefix = next((p for p, ns in sco.nsmap.items() if ns == PM), None)
    xsi_type = ('' if prefix is None else prefix + ':') + 'SetContextStateOperationDescriptor'
    have_ops = {op.get('OperationTarget') for op in sco if op.get(f'{{{XSI}}}type', '').endswith('SetContextStateOperationDescriptor')}
    targets = []
    for sc in root.iter(_q('SystemContext')):
        sch = sc.get('Handle')
        kids = {etree.QName(c).localname: c for c in sc}
        pos = 0
        for i, c in enumerate(sc):  # Patient/LocationContext come first (after an optional Extension / Type)
            if etree.QName(c).localname in ('Extension', 'Type', 'PatientContext', 'LocationContext'):
                pos = i + 1
        if 'PatientContext' not in kids and 'LocationContext' not in kids:
            for tag, h in (('PatientContext', f'PCy.{sch}'), ('LocationContext', f'LCy.{sch}')):
                sc.insert(pos, etree.Element(_q(tag), Handle=h, DescriptorVersion='0'))
                pos += 1
        for n in (1, 2):
            sc.insert(pos, etree.Element(_q('EnsembleContext'), Handle=f'EC{n}.{sch}', DescriptorVersion='0'))
            pos += 1
        for c in sc:
            if etree.QName(c).localname in ('PatientContext', 'LocationContext', 'EnsembleContext'):
                targets.append(c.get('Handle'))
    for t in targets:
        if t in have_ops:
            continue
        op = etree.SubElement(sco, _q('Operation'), Handle=f'opSetCtx.{t}', DescriptorVersion='0', OperationTarget=t)
        op.set(f'{{{XSI}}}type', xsi_type)
    return etree.tostring(root, xml_declaration=True, encoding='utf-8')


def _loader(name: str) -> bytes:
    if name.startswith('c10:'):
        return derive(name[4:])
    return _orig_loader(name)


def mk_world(mdib_file: str, **kwargs):
    """World on the widened MDIB with the tutorial ExtendedExampleProduct (no waveform provider)."""
    from tutorial.productandroles import exampleproduct
    mdibharness.load_mdib_bytes = _loader
    exampleproduct.EXAMPLE_ROLE_PROVIDER_COMPONENTS = RoleProviderComponents(role_provider_class=exampleproduct.ExtendedExampleProduct)
    return mdibharness.World('c10:' + mdib_file, role_provider='no_waveform', **kwargs)


# ------------------------------------------------------------------------------------------------
CTX_FIELDS = ('DescriptorHandle', 'ContextAssociation', 'BindingMdibVersion', 'UnbindingMdibVersion', 'BindingStartTime', 'BindingEndTime',
              'StateVersion')


def ctx_snapshot(mdib) -> dict:
    """what C10 talks about: every context state (handle -> members), all descriptor handles, duplicates.  Call inside mdib_lock."""
    states = {}
    dup = []
    for st in mdib.context_states.objects:
        rec = {f: getattr(st, f) for f in CTX_FIELDS}
        rec['ContextAssociation'] = rec['ContextAssociation'].value if rec['ContextAssociation'] is not None else None
        if st.Handle in states:
            dup.append(st.Handle)
        states[st.Handle] = rec
    return {'v': mdib.mdib_version, 'states': states, 'dup': dup, 'descr': {d.Handle for d in mdib.descriptions.objects}}


class CtxHistory:
    """records a context snapshot for every commit, inside the commit critical section (the ``transaction`` observable fires while
    the MDIB lock is held, after the tables and mdib_version were updated)."""

    def __init__(self, mdib):
        self.mdib = mdib
        self.lock = threading.Lock()
        self.by_version = {}
        self.commits = []  # (version, handles of the context states in the transaction result)
        self.ever_disassociated = set()  # handles of states the monitor saw leaving Assoc (reach counter for 'a second time')
        self.bound_at = {}    # handle -> MdibVersion at which the monitor saw the state become associated (while it stays associated)
        self.unbound_at = {}  # handle -> MdibVersion at which the monitor saw the state stop being associated (while it stays Dis)
        self.changed = {}     # MdibVersion -> handles of the states whose association changed in that commit (for the report monitor)
        with mdib.mdib_lock:
            self.by_version[mdib.mdib_version] = ctx_snapshot(mdib)
        properties.strongbind(mdib, transaction=self._on_commit)

    def _on_commit(self, tr):
        with self.lock:
            s = ctx_snapshot(self.mdib)
            self.by_version[s['v']] = s
            self.commits.append((s['v'], sorted(st.Handle for st in tr.ctxt_updates)))

    def take_new(self):
        with self.lock:
            out, self.commits = self.commits, []
        return out
