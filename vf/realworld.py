"""Provider + consumer(s) over REAL localhost sockets with the library's DEFAULT components (own HTTP servers, real http.client / aiohttp
SOAP clients, compression, chunking, deferred notification dispatcher with its worker thread).  Only WS-Discovery is a stub.

The loop-back World replaces the HTTP layer; this one does not - it is the 'nothing replaced' workload of the MDIB level properties.
Quiescence is reached with a barrier, not with sleeps: a sentinel is put on the consumer's dispatcher queue behind the notifications
the provider has already handed over (the provider's send returns after the consumer acknowledged = enqueued them)."""
from __future__ import annotations

import threading
import uuid

from sdc11073.consumer.consumerimpl import SdcConsumer
from sdc11073.definitions_sdc import SdcV1Definitions
from sdc11073.mdib import ProviderMdib
from sdc11073.mdib.consumermdib import ConsumerMdib
from sdc11073.provider import SdcProvider
from sdc11073.provider.providerimpl import provider_components_async_factory, provider_components_sync_factory

from .loopback import WsdStub
from .mdibharness import load_mdib_bytes, mk_model_and_device

BARRIER_TIMEOUT = 60.0  # wall-clock watchdog of one barrier; firing = inconclusive, never a verdict


class RealWorld:
    def __init__(self, mdib_file='70041_MDIB_Final.xml', *, async_mgr=True, chunk_size=0, contextstates_in_getmdib=True, instance_id=1,
                 max_subscription_duration=7200, ssl_context_container=None, role_provider=False):
        self.mdib = ProviderMdib.from_string(load_mdib_bytes(mdib_file))
        self.mdib.instance_id = instance_id
        comps = provider_components_async_factory() if async_mgr else provider_components_sync_factory()
        model, device = mk_model_and_device()
        role_components = None
        if role_provider:
            from tutorial.productandroles.exampleproduct import EXAMPLE_ROLE_PROVIDER_COMPONENTS
            role_components = EXAMPLE_ROLE_PROVIDER_COMPONENTS
        self.provider = SdcProvider(WsdStub('127.0.0.1'), model, device, self.mdib, epr=uuid.UUID(int=0x4321), components=comps,
                                    max_subscription_duration=max_subscription_duration, chunk_size=chunk_size,
                                    ssl_context_container=ssl_context_container, role_provider_components=role_components)
        self.provider.contextstates_in_getmdib = contextstates_in_getmdib
        self.provider.start_all(start_rtsample_loop=False)
        self.chunk_size = chunk_size
        self.ssl_context_container = ssl_context_container
        self.consumers: list[SdcConsumer] = []

    @property
    def provider_address(self) -> str:
        return self.provider.get_xaddrs()[0]

    def add_consumer(self, *, with_mdib=True, chunk_size=None, not_subscribed_actions=None, max_realtime_samples=100):
        consumer = SdcConsumer(self.provider_address, SdcV1Definitions, ssl_context_container=self.ssl_context_container,
                               request_chunk_size=self.chunk_size if chunk_size is None else chunk_size,
                               epr=uuid.UUID(int=0x6000 + len(self.consumers)))
        consumer.start_all(not_subscribed_actions=not_subscribed_actions)
        self.consumers.append(consumer)
        cmdib = None
        if with_mdib:
            cmdib = ConsumerMdib(consumer, max_realtime_samples=max_realtime_samples)
            cmdib.init_mdib()
        return consumer, cmdib

    @staticmethod
    def barrier(consumer: SdcConsumer) -> bool:
        """True when everything that was enqueued at the consumer's notification dispatcher before this call has been processed."""
        disp = consumer._services_dispatcher  # noqa: SLF001
        q = getattr(disp, '_queue', None)
        if q is None:
            return True  # synchronous dispatcher
        done = threading.Event()
        q.put((lambda _request: done.set(), None, 'vf-barrier'))
        return done.wait(BARRIER_TIMEOUT)

    def stop(self):
        for c in self.consumers:
            try:
                c.stop_all(unsubscribe=False)
            except Exception:  # noqa: BLE001
                pass
        try:
            self.provider.stop_all(send_subscription_end=False)
        except Exception:  # noqa: BLE001
            pass
