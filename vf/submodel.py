"""C08 - executable reference model of WS-Eventing subscription liveness + the virtual clock that drives library and model.

``SubModel`` is the oracle: it is written from the property statement only (it never looks into the library) and is fed with the
same request / fault / time sequence as the real subscription manager.  All times are seconds on the harness' logical clock.

Liveness predicate (statement): a subscriber is sent a notification iff, at send time, its subscription has been accepted, has not
expired, has not been unsubscribed or ended, has not exceeded the delivery-failure limit, and the action is in its filter.
"""
from __future__ import annotations

import threading
import time as _real_time

TOL = 0.01  # the library rounds remaining times to 10 ms; nothing is decided closer than this to an expiry instant
EPS = 1e-6
GRACE = 2.0  # housekeeping runs once per second and drops an unsubscribed entry at the first tick later than unsubscribed_at + 1 s


class Sub:
    def __init__(self, key, now, granted, actions, notify, end):
        self.key, self.accepted_at, self.expires_at = key, now, now + granted
        self.actions = frozenset(actions)  # filter action set
        self.notify, self.end = notify, end  # EPRs: (address, ((tag, text), ...)); end may be None
        self.unsubscribed_at = None
        self.ended = False
        self.failures, self.failed_at, self.fail_kinds = 0, None, []


class SubModel:
    """one instance per subscription manager (event source)."""

    def __init__(self, max_duration: float, failure_limit: int):
        self.max, self.limit = max_duration, failure_limit
        self.subs: dict = {}
        self.stopped = False

    def grant(self, requested):
        """upper bound of a granted expiry: never above the requested duration, never above the provider maximum."""
        return self.max if requested is None else min(requested, self.max)

    def subscribe(self, key, now, granted, actions, notify, end):
        """granted = the expiry the provider stated in its response (checked against grant() by the caller)."""
        self.subs[key] = Sub(key, now, granted, actions, notify, end)
        return self.subs[key]

    def renew(self, key, now, granted):
        self.subs[key].expires_at = now + granted

    def remaining(self, key, now):
        return max(self.subs[key].expires_at - now, 0.0)

    def unsubscribe(self, key, now):
        self.subs[key].unsubscribed_at = now

    def delivery(self, key, now, ok: bool, kind=None):
        """outcome of one delivery attempt as seen at the subscriber's endpoint (2xx answer = ok)."""
        s = self.subs[key]
        if ok:
            s.failures, s.fail_kinds = 0, []
        else:
            s.failures += 1
            s.fail_kinds.append(kind)
            if s.failures >= self.limit and s.failed_at is None:
                s.failed_at = now

    def dead_reason(self, key, now):
        """None = live; 'near_expiry' = within the rounding tolerance of the expiry instant (not decided); else the reason."""
        s = self.subs.get(key)
        if s is None:
            return 'unknown'
        if self.stopped or s.ended:
            return 'ended'
        if s.unsubscribed_at is not None:
            return 'unsubscribed'
        if s.failures >= self.limit:
            return 'failure_limit'
        if now >= s.expires_at - EPS:
            return 'expired'
        if now > s.expires_at - TOL - EPS:
            return 'near_expiry'
        return None

    def should_send(self, key, now, action):
        """True / False / None (not decided: rounding zone)."""
        reason = self.dead_reason(key, now)
        if reason == 'near_expiry':
            return None if action in self.subs[key].actions else False
        return reason is None and action in self.subs[key].actions

    def must_fault(self, key, now):
        """Renew / GetStatus / Unsubscribe naming key: True = fault demanded, False = must be served, None = either
        (entry is dead but may still be known to the provider until housekeeping removed it)."""
        if key not in self.subs or self.stopped:
            return True
        reason = self.dead_reason(key, now)
        if reason is None:
            return False
        if reason == 'near_expiry':
            return None
        s = self.subs[key]  # (a subscription beyond the failure limit is not sent anything; the statement does not say it is forgotten)
        since = [t for t in (s.unsubscribed_at, s.expires_at if now >= s.expires_at - EPS else None) if t is not None]
        return True if since and now - min(since) > GRACE + TOL else None

    def stop(self, now, send_end: bool):
        """-> {key: expected SubscriptionEnd EPR | None | 'undecided'}; afterwards nothing is known any more."""
        out = {}
        for key, s in self.subs.items():
            reason = self.dead_reason(key, now)
            if reason == 'near_expiry':
                out[key] = 'undecided'
            elif reason is None and send_end:
                out[key] = s.end if s.end is not None else s.notify
                s.ended = True
            else:
                out[key] = None
        self.stopped = True
        return out


class ParkingClock:
    """module-like replacement of ``time`` in subscriptionmgr_base.  ``sleep()`` parks the calling library thread until the
    harness advances the logical clock past its wake-up time; ``advance()`` returns when every woken thread has parked again, so
    the real housekeeping loop body runs exactly once per virtual second, in a fixed order, at a frozen logical time."""

    def __init__(self, wall0=1_790_000_000.0, mono0=5_000.0):
        self.now = 0.0  # logical seconds since start
        self._wall0, self._mono0 = wall0, mono0
        self.cond = threading.Condition()
        self.free = False
        self.parked: dict[int, float] = {}
        self.calls: dict[int, int] = {}
        self.ticks = 0
        self._pending: dict[int, int] = {}

    def time(self):
        return self._wall0 + self.now

    def monotonic(self):
        return self._mono0 + self.now

    def perf_counter(self):
        return _real_time.perf_counter()

    def sleep(self, seconds):
        if self.free:
            _real_time.sleep(0.0005)
            return
        tid = threading.get_ident()
        with self.cond:
            wake = self.now + seconds
            self.parked[tid] = wake
            self.calls[tid] = self.calls.get(tid, 0) + 1
            self.cond.notify_all()
            while not self.free and self.now < wake - 1e-9:
                self.cond.wait()
            self.parked.pop(tid, None)

    def wait_parked(self, n, budget=2000):
        with self.cond:
            for _ in range(budget):
                if len(self.parked) >= n:
                    return True
                self.cond.wait(0.01)
        return False

    def advance(self, dt, budget=3000):
        """-> False if a woken thread did not come back (harness problem, never a verdict)."""
        target = self.now + dt
        with self.cond:
            while True:
                due = [w for w in self.parked.values() if w <= target + 1e-9]
                if not due:
                    self.now = target
                    return True
                self.now = max(self.now, min(due))
                woken = {tid: self.calls[tid] for tid, w in self.parked.items() if w <= self.now + 1e-9}
                self.ticks += len(woken)
                self.cond.notify_all()
                for _ in range(budget):
                    if not any(self.calls[tid] == c for tid, c in woken.items()):
                        break
                    self.cond.wait(0.01)
                else:
                    self._pending = woken
                    return False

    def settle(self, budget=3000):
        """after an advance() that gave up: wait until the threads it woke have parked again."""
        with self.cond:
            for _ in range(budget):
                if not any(self.calls[tid] == c for tid, c in self._pending.items()):
                    self._pending = {}
                    return True
                self.cond.wait(0.01)
        return False

    def release(self):
        """switch to free-running so that stop_all() can join the housekeeping threads; the logical time stays frozen."""
        with self.cond:
            self.free = True
            self.cond.notify_all()
