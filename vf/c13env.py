"""Socket-free provider + consumer for C13 / C17, wired through the L2 harness (vf.httpl2).

* ``Net``: registry netloc -> FakeServer, wire log of every HTTP exchange (raw request bytes as the library's own clients
  render them with http.client, raw response bytes);
* ``loop_soap_client(net)``: subclass of the real SoapClient overriding only ``_mk_http_connection``; the fake connection is a
  real ``http.client.HTTPConnection`` on a fake socket, the request bytes are fed to the addressed FakeServer through
  ``httpl2.feed`` (= real DispatchingRequestHandler), the response is parsed by the real http.client;
* ``mk_provider`` / ``mk_consumer``: real SdcProvider / SdcConsumer with ``shared_http_server`` = FakeServer and a WS-Discovery
  stub, so nothing binds a socket;
* ``snap_provider``: canonical dump of the three MDIB tables + versions and of the subscription tables.
"""
from __future__ import annotations

import http.client
import io
import os
import threading
import time
import uuid

from . import core, httpl2

PROVIDER_PORT = 50001
CONSUMER_PORT = 50002


class Net:
    def __init__(self):
        self.servers: dict[str, httpl2.FakeServer] = {}
        self.log: list[dict] = []
        self.record = True
        self.lock = threading.Lock()
        self.blackhole_ok = True   # unknown destinations answer 202 with an empty body (nothing is ever connected)
        self.monitor = None        # optional callable(netloc, request_bytes, L2Result)

    def add_server(self, port: int, chunk_size=0, supported_encodings=None) -> httpl2.FakeServer:
        from sdc11073.dispatch import PathElementRegistry
        srv = httpl2.FakeServer(PathElementRegistry(), chunk_size, supported_encodings)
        srv.server_address = ('127.0.0.1', port)
        self.servers[f'127.0.0.1:{port}'] = srv
        return srv

    def deliver(self, netloc: str, request: bytes) -> bytes:
        srv = self.servers.get(netloc)
        if srv is None:
            out = b'HTTP/1.1 202 Accepted\r\nContent-Length: 0\r\n\r\n'
            res = None
        else:
            res = httpl2.feed(srv, request)
            out = res.out
        if self.monitor is not None:
            self.monitor(netloc, request, res)
        if self.record:
            with self.lock:
                self.log.append({'netloc': netloc, 'request': request, 'response': out,
                                 'escaped': repr(res.escaped) if res is not None and res.escaped else None})
        return out


class _ClientSock:
    def __init__(self, net: Net, netloc: str):
        self.net = net
        self.netloc = netloc
        self.buf = bytearray()

    def sendall(self, data):
        self.buf += bytes(data)

    def makefile(self, mode='rb', bufsize=-1):
        request = bytes(self.buf)
        self.buf.clear()
        return io.BytesIO(self.net.deliver(self.netloc, request))

    def getsockname(self):
        return ('127.0.0.1', 40404)

    def getpeername(self):
        host, _, port = self.netloc.partition(':')
        return (host, int(port or 80))

    def settimeout(self, t):
        pass

    def setsockopt(self, *a):
        pass

    def close(self):
        pass


def loop_connection_class(net: Net):
    class LoopHTTPConnection(http.client.HTTPConnection):
        def connect(self):
            self.sock = _ClientSock(net, f'{self.host}:{self.port}')
    return LoopHTTPConnection


def loop_soap_client(net: Net):
    from sdc11073.pysoap.soapclient import SoapClient
    conn_cls = loop_connection_class(net)

    class LoopSoapClient(SoapClient):
        created: list = []

        def __init__(self, *a, **k):
            super().__init__(*a, **k)
            LoopSoapClient.created.append(self)

        def _mk_http_connection(self):
            return conn_cls(self._netloc, timeout=self._socket_timeout)
    LoopSoapClient.created = []
    return LoopSoapClient


class _AsyncResp:
    def __init__(self, raw: bytes):
        r = httpl2.parse_responses(raw)
        self._p = r[0] if r else None
        self.status = self._p.status if self._p else 0
        self.reason = self._p.reason if self._p else ''

    async def text(self):
        if self._p is None:
            raise ConnectionError('no response')
        body = self._p.body
        enc = self._p.header('content-encoding')
        if enc:
            body = httpl2.ref_decode(enc, body)
        return body.decode('utf-8')

    async def __aenter__(self):
        return self

    async def __aexit__(self, *a):
        return False


class _AsyncSession:
    """What SoapClientAsync uses of aiohttp.ClientSession; renders the request as HTTP/1.1 bytes and feeds the L2 server."""

    def __init__(self, net, netloc):
        self.net, self.netloc = net, netloc

    def post(self, path, data=None, headers=None):
        hdrs = [('Host', self.netloc)] + list((headers or {}).items())
        raw = httpl2.mk_request('POST', path, hdrs, data)
        return _AsyncResp(self.net.deliver(self.netloc, raw))

    async def close(self):
        pass


def loop_soap_client_async(net: Net):
    """SoapClientAsync on a fake aiohttp session that behaves like aiohttp (auto_decompress, Content-Length, chunked=True, read()/headers)
    - needed as soon as the async client stops using resp.text() / pre-chunked bodies (proposed fix scratch/c17_fix_1.diff)."""
    from . import c17_aio
    return c17_aio.loop_soap_client_async(net)


class WsdStub:
    def __init__(self, address='127.0.0.1'):
        self.active_address = address
        self.published = []

    def publish_service(self, *a, **k):
        self.published.append(a)

    def clear_service(self, epr):
        pass


def repo_file(*parts):
    return os.path.join(core.REPO_DIR, *parts)


def mk_provider(net: Net, mdib_file='mdib_tns.xml', mode='sync', chunk_size=0, max_subscription_duration=7200,
                epr=None, port=PROVIDER_PORT, stop_housekeeping=True, rt_loop=False):
    """Real SdcProvider; its endpoint is net.servers['127.0.0.1:<port>'].  mode: 'sync' | 'async' subscription managers."""
    from sdc11073.mdib import ProviderMdib
    from sdc11073.provider import SdcProvider
    from sdc11073.provider.providerimpl import provider_components_async_factory, provider_components_sync_factory
    from sdc11073.xml_types.dpws_types import ThisDeviceType, ThisModelType
    from tutorial.productandroles.exampleproduct import ExtendedExampleProduct
    from tutorial.productandroles.waveformprovider.waveformproviderimpl import GenericWaveformProvider
    from sdc11073.provider import RoleProviderComponents
    from sdc11073.location import SdcLocation

    if mode == 'sync':
        comps = provider_components_sync_factory()
        comps.soap_client_class = loop_soap_client(net)
    else:
        comps = provider_components_async_factory()
        comps.soap_client_class = loop_soap_client_async(net)
    from sdc11073.definitions_sdc import SdcV1Definitions
    mdib = ProviderMdib.from_mdib_file(repo_file('tests', mdib_file), protocol_definition=SdcV1Definitions)
    mdib.instance_id = 1
    model = ThisModelType(manufacturer='Verif', manufacturer_url='www.example.com', model_name='L2', model_number='1.0',
                          model_url='www.example.com/model', presentation_url='www.example.com/presentation')
    device = ThisDeviceType(friendly_name='L2 device', firmware_version='0.1', serial_number='4711')
    roles = RoleProviderComponents(role_provider_class=ExtendedExampleProduct, waveform_provider_class=GenericWaveformProvider)
    srv = net.servers.get(f'127.0.0.1:{port}') or net.add_server(port, chunk_size)
    provider = SdcProvider(WsdStub(), model, device, mdib, epr=epr or uuid.UUID(int=0x5dc11073_0000_4000_8000_000000000001),
                           components=comps, role_provider_components=roles, chunk_size=chunk_size,
                           max_subscription_duration=max_subscription_duration)
    srv.supported_encodings = provider._compression_methods   # same wiring as the internal server gets
    provider.start_all(start_rtsample_loop=rt_loop, shared_http_server=srv)
    provider.set_location(SdcLocation(fac='fac1', poc='poc1', bed='bed1'))
    # the example product updates the AlertSystem self-check states every few seconds from a thread of its own: stop it, the
    # monitor attributes every MDIB change to the request it has just fed
    for product in provider.product_lookup.values():
        for rp in getattr(product, '_ordered_role_providers', []):
            if type(rp).__name__ == 'AlertSystemStateMaintainer':
                rp.stop()
    if stop_housekeeping:
        # expiry / delayed removal by the housekeeping threads would change the subscription table behind the monitor's back
        for mgr in provider._subscriptions_managers.values():
            deadline = time.time() + 5
            while not mgr._run_housekeeping_thread and time.time() < deadline:
                time.sleep(0.005)
            mgr._run_housekeeping_thread = False
        for mgr in provider._subscriptions_managers.values():
            mgr._housekeeping_thread.join(3)
    return provider, srv


def mk_consumer(net: Net, provider, deferred=False, port=CONSUMER_PORT, chunk_size=0, start=True):
    from sdc11073.consumer.consumerimpl import SdcConsumer
    from sdc11073.consumer.consumerimpl import default_components_factory
    from sdc11073.definitions_sdc import SdcV1Definitions
    from sdc11073.dispatch import RequestDispatcher
    comps = default_components_factory()
    comps.soap_client_class = loop_soap_client(net)
    if not deferred:
        comps.action_dispatcher_class = RequestDispatcher
    srv = net.servers.get(f'127.0.0.1:{port}') or net.add_server(port)
    xaddr = provider.get_xaddrs()[0]
    consumer = SdcConsumer(xaddr, SdcV1Definitions, None, epr=uuid.UUID(int=0x5dc11073_0000_4000_8000_000000000002),
                           components=comps, request_chunk_size=chunk_size)
    srv.supported_encodings = consumer._compression_methods
    if start:
        consumer.start_all(shared_http_server=srv, fixed_renew_interval=100000)
    return consumer, srv


# ---------------------------------------------------------------------------------------------------------------
# snapshots
# ---------------------------------------------------------------------------------------------------------------
def _canon_value(v, depth=0):
    from decimal import Decimal
    from enum import Enum
    from lxml import etree
    if v is None or isinstance(v, (bool, int, str, float)):
        return v
    if isinstance(v, Decimal):
        return ('D', str(v.normalize()))
    if isinstance(v, Enum):
        return ('E', v.value)
    if isinstance(v, etree.QName):
        return ('Q', v.text)
    if isinstance(v, (list, tuple)):
        return tuple(_canon_value(x, depth + 1) for x in v)
    if isinstance(v, dict):
        return tuple(sorted((str(k), _canon_value(x, depth + 1)) for k, x in v.items()))
    if isinstance(v, etree._Element):
        return ('X', etree.tostring(v, method='c14n', exclusive=True))
    if hasattr(v, 'sorted_container_properties') and depth < 12:
        return tuple((n, _canon_value(getattr(v, n), depth + 1)) for n in _prop_names(v))
    return ('R', repr(v))


_NAMES: dict = {}


def _prop_names(obj):
    """names of the declared properties of a container / PropertyBasedPMType, cached per class (the walk over the MRO is slow)."""
    cls = type(obj)
    names = _NAMES.get(cls)
    if names is None:
        names = _NAMES[cls] = tuple(n for n, _ in obj.sorted_container_properties())
    return names


def canon_container(c):
    items = [(n, _canon_value(getattr(c, n))) for n in _prop_names(c)]
    extra = [('cls', type(c).__name__)]
    for n in ('parent_handle', 'source_mds', 'DescriptorHandle', 'Handle'):
        if hasattr(c, n):
            extra.append((n, getattr(c, n)))
    return tuple(extra + items)


def snap_mdib(mdib) -> dict:
    with mdib.mdib_lock:
        d = {
            'versions': (mdib.mdib_version, mdib.sequence_id, mdib.instance_id),
            'descriptions': {c.Handle: core.h(canon_container(c)) for c in mdib.descriptions.objects},
            'states': {c.DescriptorHandle: core.h(canon_container(c)) for c in mdib.states.objects},
            'context_states': {c.Handle: core.h(canon_container(c)) for c in mdib.context_states.objects},
        }
        d['sizes'] = (len(mdib.descriptions.objects), len(mdib.states.objects), len(mdib.context_states.objects))
    return d


def snap_subscriptions(provider) -> dict:
    out = {}
    for name, mgr in provider._subscriptions_managers.items():
        with mgr._subscriptions.lock:
            for s in mgr._subscriptions.objects:
                out[f'{name}:{s.identifier_uuid.hex}'] = (
                    s.notify_to_address, s.end_to_address, s.mode,
                    tuple(getattr(s, 'actions_filter', ())), s._expire_seconds, s._started,
                    s.unsubscribed_at is not None, s._is_closed, s.path_suffix,
                    tuple(rp.text for rp in s.reference_parameters))
    return out


def snap_provider(provider) -> dict:
    return {'mdib': snap_mdib(provider.mdib), 'subscriptions': snap_subscriptions(provider)}


def snap_diff(a: dict, b: dict) -> list:
    """Human readable differences between two snap_provider results (empty = equal)."""
    diffs = []
    if a['mdib']['versions'] != b['mdib']['versions']:
        diffs.append(('versions', a['mdib']['versions'], b['mdib']['versions']))
    for tbl in ('descriptions', 'states', 'context_states'):
        ta, tb = a['mdib'][tbl], b['mdib'][tbl]
        for k in sorted(set(ta) | set(tb), key=str):
            if ta.get(k) != tb.get(k):
                diffs.append((tbl, k, 'added' if k not in ta else 'removed' if k not in tb else 'changed'))
    sa, sb = a['subscriptions'], b['subscriptions']
    for k in sorted(set(sa) | set(sb)):
        if sa.get(k) != sb.get(k):
            diffs.append(('subscription', k, 'added' if k not in sa else 'removed' if k not in sb else ('changed', sa[k], sb[k])))
    return diffs
