"""C18 helper (only used by vf/props/c18.py).

(a) ``w_foreign``: lexical negatives made of a VALID literal plus one character that Python tolerates where XML Schema does not: every
    code point for which ``str.isspace()`` is true except the four XML white space characters (str.strip() / int() / Decimal() drop them
    silently), zero-width / format characters, look-alike signs and decimal points, non-ASCII decimal digits.  A literal padded with XML
    white space is the positive control.
(b) ``w_props``: every scalar property that the library's XML types DECLARE (xml_structure.py: attribute, list attribute, element text, text
    list, date of birth) is driven through real XML text (lxml serialise -> parse): Python -> XML -> Python, XML -> Python -> XML and the
    lexical negatives, decided by the same arithmetic / lexical oracles as the converter level monitors.
"""
from __future__ import annotations

import datetime
import enum
import inspect
import re
import unicodedata
from decimal import Decimal
from fractions import Fraction

from . import core

XML_WS = ' \t\r\n'

# written from XSD part 2 (3.2.7 dateTime, 3.2.9 date, 3.2.10 gYearMonth, 3.2.11 gYear), union as in pm:DateOfBirth
RX_DATE_UNION = re.compile(
    r'^-?([1-9][0-9]{3,}|0[0-9]{3})'
    r'(-(0[1-9]|1[0-2])'
    r'(-(0[1-9]|[12][0-9]|3[01])'
    r'(T(([01][0-9]|2[0-3]):[0-5][0-9]:[0-5][0-9](\.[0-9]+)?|24:00:00(\.0+)?))?'
    r')?)?'
    r'(Z|[+-]((0[0-9]|1[0-3]):[0-5][0-9]|14:00))?$', re.ASCII)

REJECT = (ValueError, TypeError, ArithmeticError, KeyError)


def xml_legal(c: str) -> bool:
    """XML 1.0 production [2] Char: such a character can arrive inside an attribute value / element text."""
    o = ord(c)
    return o in (0x9, 0xA, 0xD) or 0x20 <= o <= 0xD7FF or 0xE000 <= o <= 0xFFFD or 0x10000 <= o <= 0x10FFFF


_CACHE: dict = {}


def foreign_spaces() -> list[str]:
    """every character Python regards as white space (str.strip() removes it, int() / Decimal() / float() skip it) that is NOT XML white space"""
    if 'sp' not in _CACHE:
        _CACHE['sp'] = [chr(i) for i in range(0x110000) if not 0xD800 <= i <= 0xDFFF and chr(i).isspace() and chr(i) not in XML_WS]
    return _CACHE['sp']


INVISIBLE = ['\u200b', '\u200c', '\u200d', '\u2060', '\ufeff', '\u00ad', '\u180e', '\u061c', '\u200e']
SIGN_LIKE = {'-': ['\u2212', '\uff0d', '\ufe63', '\u2010', '\u2013'], '+': ['\uff0b', '\ufe62', '\u207a']}
POINT_LIKE = ['\uff0e', '\u066b', '\u2024', ',', '\u00b7']


def foreign_digits() -> list[str]:
    """non-ASCII characters of category Nd: int() and Decimal() read them as digits"""
    if 'nd' not in _CACHE:
        _CACHE['nd'] = [chr(i) for i in range(0x80, 0x110000) if not 0xD800 <= i <= 0xDFFF and unicodedata.category(chr(i)) == 'Nd']
    return _CACHE['nd']


def _base():
    from .props import c18
    return c18


def char_class(c: str) -> str:
    if c in foreign_spaces():
        return 'space' if xml_legal(c) else 'space_ctl'
    if c in INVISIBLE:
        return 'invisible'
    if unicodedata.category(c) == 'Nd':
        return 'digit'
    return 'lookalike'


# ---------------------------------------------------------------------------------------------
# literals of every scalar type and the functions that read them
# ---------------------------------------------------------------------------------------------
def _types():
    """name -> (reader(s), recogniser, valid literals, python value of a literal (exact))"""
    base = _base()
    from sdc11073.xml_types import dataconverters as dc
    from sdc11073.xml_types import isoduration

    def dur_value(s):
        m = re.fullmatch(r'PT(?:([0-9]+)H)?(?:([0-9]+)M)?(?:([0-9]+)(?:\.([0-9]+))?S)?', s)
        h, mi, se, fr = m.groups()
        return Fraction(int(h or 0)) * 3600 + Fraction(int(mi or 0)) * 60 + Fraction(int(se or 0)) + (Fraction(int(fr), 10 ** len(fr)) if fr else 0)

    return {
        'integer': ([('IntegerConverter', dc.IntegerConverter.to_py), ('UnsignedIntConverter', dc.UnsignedIntConverter.to_py),
                     ('UnsignedLongConverter', dc.UnsignedLongConverter.to_py)],
                    base.RX_INTEGER, ['42', '-17', '+7', '0', '18446744073709551615', '007'], lambda s: Fraction(int(s))),
        'decimal': ([('DecimalConverter', dc.DecimalConverter.to_py)],
                    base.RX_DECIMAL, ['36.6', '-0.5', '+42', '.5', '1.', '0', '120.123456789'], lambda s: Fraction(Decimal(s))),
        'timestamp': ([('TimestampConverter', dc.TimestampConverter.to_py)],
                      base.RX_UNSIGNED, ['1700000000123', '0', '1', '86400000'], lambda s: Fraction(int(s), 1000)),
        'duration': ([('DurationConverter', dc.DurationConverter.to_py), ('parse_duration', isoduration.parse_duration)],
                     base.RX_DURATION_SDPI, ['PT1S', 'PT1H2M3.5S', 'PT0.001S', 'PT90M'], dur_value),
        'date': ([('parse_date_time', isoduration.parse_date_time)],
                 RX_DATE_UNION, ['2020', '2020-02', '2020-02-29', '2020-02-29T10:11:12.5Z', '2020-02-29+05:30', '-0044-03-15'], None),
    }


def _value_ok(tname, got, want) -> bool:
    if want is None:
        return True
    try:
        f = Fraction(got)
    except (TypeError, ValueError):
        return False
    if tname in ('timestamp', 'duration'):
        return abs(f - want) <= Fraction(1, 10 ** 6) if tname == 'duration' else abs(f - want) < Fraction(1, 1000)
    return f == want


def _placements(lit: str, c: str, klass: str):
    """(shape, text) - where the foreign character is put"""
    if klass in ('space', 'space_ctl', 'invisible'):
        yield 'prefix', c + lit
        yield 'suffix', lit + c
        yield 'both', c + lit + c
        yield 'xmlws+prefix', ' ' + c + lit
        yield 'suffix+xmlws', lit + c + '\n'
        if len(lit) > 1:
            yield 'inside', lit[:1] + c + lit[1:]
            yield 'inside_end', lit[:-1] + c + lit[-1:]
    elif klass == 'digit':
        idx = [i for i, ch in enumerate(lit) if ch in '0123456789']
        if idx:
            yield 'digit_first', lit[:idx[0]] + c + lit[idx[0] + 1:]
            yield 'digit_last', lit[:idx[-1]] + c + lit[idx[-1] + 1:]
            yield 'digit_appended', lit[:idx[-1] + 1] + c + lit[idx[-1] + 1:]


def w_foreign(ctx: core.Ctx, arg):
    """lexical negatives: valid literal + one character that Python tolerates and XML Schema does not; converter level."""
    base = _base()
    rng = ctx.rng('foreign', arg['i'])
    types = _types()
    spaces = foreign_spaces()
    ctx.extra['foreign_space_characters'] = [f'U+{ord(c):04X}' for c in spaces]
    digits = foreign_digits()
    # all spaces and invisibles always; digits: the classics always + a seeded stride over the whole Nd category
    k = arg.get('digit_stride', 9)
    off = rng.randrange(k)
    # the characters that can really arrive in XML text first (the first witnesses of a key are the ones that are stored)
    chars = [(c, char_class(c)) for c in sorted(spaces, key=lambda ch: (not xml_legal(ch), ch)) + INVISIBLE]
    chars += [(c, 'digit') for c in ['\u0661', '\uff11', '\u0967', '\U0001d7cf', '\u06f1'] + digits[off::k]]
    for tname, (readers, rx, literals, value_of) in types.items():
        key = f'lex.{tname}.accepts_invalid'
        # --- positive control: XML white space around a valid literal; when the value is accepted it must be the exact value ------------
        for lit in literals:
            for pad in (' ', '\t', '\n', '\r', ' \t\r\n'):
                for rname, reader in readers:
                    s = pad + lit + pad
                    ctx.count('lex.xmlspace.evaluated')
                    try:
                        got = reader(s)
                    except REJECT:
                        ctx.count(f'lex.xmlspace.rejected.{tname}')   # not demanded by the statement; counted only
                        continue
                    ctx.count('lex.xmlspace.accepted')
                    if value_of is not None and not _value_ok(tname, got, value_of(lit)):
                        ctx.witness(f'lex.{tname}.padded_value', 'a literal padded with XML white space is read as a different value',
                                    {'reader': rname, 'xml': s, 'got': repr(got)})
        # --- negatives ------------------------------------------------------------------------------------------------------------
        cases = []
        for c, klass in chars:
            for lit in literals:
                for shape, s in _placements(lit, c, klass):
                    cases.append((klass, shape, s))
        for lit in literals:
            for sign, likes in SIGN_LIKE.items():
                for c in likes:
                    if lit.startswith(sign):
                        cases.append(('lookalike', 'sign_replaced', c + lit[1:]))
                    elif lit[:1] in '0123456789.' and tname in ('integer', 'decimal'):
                        cases.append(('lookalike', 'sign_prepended', c + lit))
            if '.' in lit:
                for c in POINT_LIKE:
                    cases.append(('lookalike', 'point_replaced', lit.replace('.', c, 1)))
        for klass, shape, s in cases:
            if rx.match(base.collapse(s)) and base.collapse(s) != 'PT':
                continue  # cannot happen for these characters; kept so that the oracle, not the generator, decides
            for rname, reader in readers:
                ctx.count('lex.foreign.negatives')
                ctx.count(f'lex.foreign.negatives.{klass}')
                ctx.case(('foreign', tname, rname, klass, shape))
                try:
                    got = reader(s)
                except REJECT:
                    ctx.count('lex.foreign.rejected')
                    continue
                except Exception:  # noqa: BLE001
                    ctx.count('lex.foreign.rejected_other')
                    continue
                ctx.witness(key, f'string outside the {tname} lexical space is coerced to a value (valid literal + a character that is no XML '
                                 f'white space / ASCII digit / sign: {klass}, {shape})', {'reader': rname, 'xml': s, 'xml_ascii': ascii(s), 'got': repr(got)})
    ctx.sample({'kind': 'foreign character negatives', 'spaces': len(spaces), 'digits_tested': len([1 for _, k2 in chars if k2 == 'digit'])})


# ---------------------------------------------------------------------------------------------
# (b) declared properties through real XML text
# ---------------------------------------------------------------------------------------------
class _Inst:
    """stands in for the container instance: the property descriptors only need an object with a __dict__"""


def _is_conv(conv, klass) -> bool:
    return (isinstance(conv, type) and issubclass(conv, klass)) or isinstance(conv, klass)


def _kind_of(prop):
    from sdc11073.xml_types import dataconverters as dc
    from sdc11073.xml_types import xml_structure as xs
    conv = getattr(prop, '_converter', None)
    if isinstance(prop, xs.DateOfBirthProperty):
        return 'date', 'element_text'
    if isinstance(prop, xs.SubElementTextListProperty):
        return ('integer', 'text_list') if getattr(prop, '_value_class', None) is int else (None, None)
    if isinstance(prop, xs.NodeEnumQNameProperty):
        return None, None
    if isinstance(prop, xs._AttributeListBase):  # noqa: SLF001
        if isinstance(conv, dc.ListConverter) and _is_conv(conv._element_converter, dc.DecimalConverter):  # noqa: SLF001
            return 'decimal', 'list_attribute'
        return None, None
    if isinstance(prop, xs._AttributeBase):  # noqa: SLF001
        layer = 'attribute'
    elif isinstance(prop, xs.NodeTextProperty):
        layer = 'element_text'
    else:
        return None, None
    for klass, kind in ((dc.TimestampConverter, 'timestamp'), (dc.DecimalConverter, 'decimal'), (dc.IntegerConverter, 'integer'),
                        (dc.DurationConverter, 'duration'), (dc.BooleanConverter, 'boolean')):
        if _is_conv(conv, klass):
            return kind, layer
    if isinstance(conv, dc.EnumConverter) and isinstance(conv._klass, type) and issubclass(conv._klass, enum.Enum):  # noqa: SLF001
        return 'enum', layer
    return None, None


def scalar_props():
    """[(owner, member name, property object, kind, layer)] - every scalar property declared by the library's XML types"""
    import sdc11073.mdib.descriptorcontainers as dcs
    import sdc11073.mdib.statecontainers as scs
    import sdc11073.pysoap.soapenvelope as soapenv
    import sdc11073.xml_types.addressing_types as wsa
    import sdc11073.xml_types.dpws_types as dpws
    import sdc11073.xml_types.eventing_types as ev
    import sdc11073.xml_types.mex_types as mex
    import sdc11073.xml_types.msg_types as msg
    import sdc11073.xml_types.pm_types as pm
    import sdc11073.xml_types.wsd_types as wsd
    from sdc11073.xml_types import xml_structure as xs
    out, seen = [], set()
    for mod in (pm, msg, ev, wsd, wsa, dpws, mex, dcs, scs, soapenv):
        for _, cls in inspect.getmembers(mod, inspect.isclass):
            for name, prop in vars(cls).items():
                if not isinstance(prop, xs._XmlStructureBaseProperty) or id(prop) in seen:  # noqa: SLF001
                    continue
                seen.add(id(prop))
                kind, layer = _kind_of(prop)
                if kind:
                    out.append((f'{cls.__module__.rsplit(".", 1)[-1]}.{cls.__name__}', name, prop, kind, layer))
    out.sort(key=lambda t: (t[0], t[1]))
    return out


class _NotOnWire(Exception):
    pass


def _wire(prop, layer, raw):
    """a node, parsed from serialised XML text, that carries ``raw`` where the property reads its value"""
    from lxml import etree
    root = etree.Element('{urn:vf:c18}probe')
    try:
        if layer in ('attribute', 'list_attribute'):
            root.set(prop._attribute_name, raw)  # noqa: SLF001
        elif layer == 'text_list':
            for r in raw:
                etree.SubElement(root, prop._sub_element_name).text = r  # noqa: SLF001
        elif prop._sub_element_name is None:  # noqa: SLF001
            root.text = raw
        else:
            etree.SubElement(root, prop._sub_element_name).text = raw  # noqa: SLF001
    except ValueError as ex:   # lxml refuses characters that are not XML characters
        raise _NotOnWire from ex
    node = etree.fromstring(etree.tostring(root))
    if _text_of(prop, layer, node) != raw:
        raise _NotOnWire    # the parser normalised the text: not the case that was meant
    return node


def _text_of(prop, layer, node):
    if layer in ('attribute', 'list_attribute'):
        return node.get(prop._attribute_name)  # noqa: SLF001
    if layer == 'text_list':
        return [n.text or '' for n in node.findall(prop._sub_element_name)]  # noqa: SLF001
    sub = node if prop._sub_element_name is None else node.find(prop._sub_element_name)  # noqa: SLF001
    return None if sub is None else (sub.text or '')


def _write(prop, layer, value):
    """python value -> property -> node -> XML text -> parsed node; returns (text on the wire, parsed node)"""
    from lxml import etree
    inst = _Inst()
    prop.__set__(inst, value)
    root = etree.Element('{urn:vf:c18}probe')
    prop.update_xml_value(inst, root)
    node = etree.fromstring(etree.tostring(root))
    return _text_of(prop, layer, node), node


def _read(prop, node):
    return prop.get_py_value_from_node(_Inst(), node)


def _noncanonical_int(rng, v: int) -> str:
    s = str(abs(v))
    s = '0' * rng.choice([0, 0, 1, 3]) + s
    return ('-' if v < 0 else rng.choice(['', '', '+'])) + s


def _rand_decimal_plain(rng):
    """(lexical, exact value): an xsd:decimal of at most 18 digits in plain notation, not necessarily canonical"""
    base = _base()
    nd = rng.randrange(1, 19)
    digits = ''.join(rng.choice('0123456789') for _ in range(nd))
    scale = rng.randrange(-3, nd + 4)
    sign = rng.choice(['', '', '-', '+'])
    s = base._plain(sign, digits, scale)  # noqa: SLF001
    return s, Fraction(int(digits)) / Fraction(10) ** scale * (-1 if sign == '-' else 1)


def _rand_decimal_py(rng):
    tricky = [Decimal('1E+2'), Decimal(100).normalize(), Decimal('1E-7'), Decimal('2.50E+3'), Decimal('0E-9'), Decimal('-1E+1'),
              Decimal(5).scaleb(3), Decimal('123.4500'), Decimal('7E-12'), Decimal('-0'), Decimal('0.000001'), Decimal('1E+17')]
    if rng.random() < 0.4:
        return rng.choice(tricky)
    nd = rng.randrange(1, 19)
    return Decimal(rng.randrange(0, 10 ** nd)).scaleb(rng.randrange(-18, 19 - nd)) * rng.choice([1, -1])


def _negatives(rng, kind, layer, literal_of_enum=None):
    """raw texts outside the lexical space of the type (the oracle re-checks that)"""
    sp = [c for c in foreign_spaces() if xml_legal(c)]
    pads = ['\u00a0', '\u2003'] + rng.sample(sp, 3) + [rng.choice(INVISIBLE)]
    fixed = {
        'integer': ['1_0', '\u0661\u0662', '\uff11\uff12', '1.0', '1e3', '0x10', 'NaN', '+', '1 2', '--1', '\U0001d7cf\U0001d7d0', '\u22127'],
        'decimal': ['NaN', 'INF', 'Infinity', '-Infinity', '1e3', '1E-7', '1_0.5', '\u0661.\u0665', '1,5', '1.2.3', '.', '\u221236.6', '36\uff0e6', 'sNaN'],
        'timestamp': ['-1', '1.5', '1e3', '1_0', '\u0661\u0662', '1_000_000', '0x1', 'NaN', '12 34'],
        'duration': ['PT', 'P1D', 'PT1.5M', 'pt1s', 'PT-1S', 'PT\u0661S', 'PT1e3S', 'PT1_0S', 'P1Y', '1', 'PT1.S', 'PT.5S', 'PT\uff11S'],
        'date': ['99', '2020-13', '2020-01-32', '2020-01-01T25:00:00', '\uff12\uff10\uff12\uff10', '2020-01-01T10:00:00+15:00', '2020-1', '+2020',
                 '2020-01-01T10:00', '2\u066020', '2020-01-01T10:00:00.\u0665', '2020-01-01t10:00:00'],
        'boolean': ['True', 'FALSE', 'yes', '2', 'banana'],
    }
    good = {'integer': ['42', '-7'], 'decimal': ['36.6', '-0.5', '.5'], 'timestamp': ['1700000000123'], 'duration': ['PT1S', 'PT2M3.5S'],
            'date': ['2020', '2020-02-29', '2020-02-29T10:11:12Z'], 'boolean': ['true', '0']}
    if kind == 'enum':
        lits = literal_of_enum
        out = [('case', lit.swapcase()) for lit in lits[:3] if lit.swapcase() not in lits]
        out += [('unknown', lits[0] + 'x'), ('unknown', 'x' + lits[0])]
        # (XML white space is not used here: the enumerations restrict xsd:string, whose white space is preserved - but a reader that
        # collapses it does not change the meaning, so that is not counted)
        out += [('space', lits[0] + pads[2]), ('space', pads[3] + lits[0]), ('space', lits[-1] + pads[4])]
        return out
    out = [('fixed', s) for s in fixed[kind]]
    for p in pads:
        klass = 'space' if p in sp else 'invisible'
        lit = rng.choice(good[kind])
        out += [(klass, lit + p), (klass, p + lit), (klass, ' ' + p + lit + p + ' ')]
    if layer == 'attribute':
        out.append(('fixed', ''))
    return out


_LEX_TYPE = {'integer': 'integer', 'decimal': 'decimal', 'timestamp': 'timestamp', 'duration': 'duration', 'date': 'date', 'boolean': 'boolean',
             'enum': 'enum'}


def w_props(ctx: core.Ctx, arg):  # noqa: C901, PLR0912, PLR0915
    base = _base()
    from sdc11073.xml_types import isoduration
    from sdc11073.xml_types import xml_structure as xs
    rng = ctx.rng('props', arg['i'])
    n = arg['n']
    props = scalar_props()
    ctx.extra['scalar_properties_declared'] = len(props)
    recognisers = {'integer': base.RX_INTEGER, 'decimal': base.RX_DECIMAL, 'timestamp': base.RX_UNSIGNED, 'duration': base.RX_DURATION_SDPI,
                   'date': RX_DATE_UNION, 'boolean': base.RX_BOOLEAN}
    first = True
    for owner, name, prop, kind, layer in props:
        where = f'{owner}.{name}'
        ctx.count(f'props.{kind}.{layer}')
        shape = (type(prop).__name__, kind, layer)

        def wit(key, what, detail):
            detail = dict(detail)
            detail['property'] = where
            ctx.witness(key, f'{what} [{type(prop).__name__}]', detail)

        # ------------------------------------------------------------------ Python -> XML -> Python --------------------------------
        can_write = not isinstance(prop, xs.CurrentTimestampAttributeProperty)
        for _ in range(n if can_write else 0):
            try:
                if kind == 'timestamp':
                    v = rng.choice([rng.randrange(0, 2 ** 53 // 1000) / 1000, 1.79e9 + rng.random() * 1e6, rng.randrange(0, 2 ** 40),
                                    Decimal(rng.randrange(0, 10 ** 15)) / 1000, float(rng.randrange(0, 10 ** 10)) + rng.choice([0.0005, 0.9995, 0.4999])])
                    text, node = _write(prop, layer, v)
                    back = _read(prop, node)
                    ctx.count('props.py_xml_py.evaluated')
                    ctx.case(('props', 'w') + shape)
                    if not base.RX_UNSIGNED.match(text or '') or text.startswith('+'):
                        wit(f'ts.to_xml_lexical.{layer}', 'timestamp written in a form that is not an xsd:unsignedLong', {'x': repr(v), 'xml': text})
                    elif abs(Fraction(back) - Fraction(v)) >= Fraction(1, 1000):
                        wit(f'ts.py_xml_py.{layer}', 'Python->XML->Python changes a timestamp by >= 1 ms', {'x': repr(v), 'xml': text, 'back': repr(back)})
                elif kind == 'decimal':
                    vals = [_rand_decimal_py(rng) for _ in range(rng.randrange(1, 6))] if layer == 'list_attribute' else _rand_decimal_py(rng)
                    text, node = _write(prop, layer, vals)
                    ctx.count('props.py_xml_py.evaluated')
                    ctx.case(('props', 'w') + shape)
                    toks = (text or '').split(' ') if layer == 'list_attribute' else [text or '']
                    if text is None or 'E' in text or 'e' in text or not all(base.RX_DECIMAL.match(t) for t in toks):
                        wit(f'dec.exponent_written.{layer}', 'a decimal is written with exponent notation / not as xsd:decimal lexical',
                            {'value': repr(vals), 'xml': text})
                        continue
                    back = _read(prop, node)
                    want = vals if isinstance(vals, list) else [vals]
                    got = back if isinstance(back, list) else [back]
                    if [Fraction(b) for b in got] != [Fraction(w) for w in want]:
                        wit(f'dec.value_changed.{layer}', 'a decimal (<= 18 digits) changes on Python->XML->Python', {'value': repr(vals), 'xml': text, 'back': repr(back)})
                elif kind == 'integer':
                    mag = rng.choice([rng.randrange(0, 10 ** rng.randrange(1, 21)), 0, 2 ** 31, 2 ** 32 - 1, 2 ** 63, 2 ** 64 - 1])
                    v = [rng.randrange(0, 1000) for _ in range(rng.randrange(1, 4))] if layer == 'text_list' else mag
                    text, node = _write(prop, layer, v)
                    back = _read(prop, node)
                    ctx.count('props.py_xml_py.evaluated')
                    ctx.case(('props', 'w') + shape)
                    texts = text if isinstance(text, list) else [text]
                    if not all(base.RX_INTEGER.match(t or '') for t in texts) or back != v:
                        wit(f'int.roundtrip.{layer}', 'integer not written / read back exactly', {'value': repr(v), 'xml': text, 'back': repr(back)})
                elif kind == 'duration':
                    v = rng.choice([rng.randrange(0, 400000), rng.randrange(0, 10 ** 9) / 1000, rng.random() * 10 ** rng.randrange(-3, 7),
                                    Decimal(rng.randrange(0, 10 ** 12)) / Decimal(10 ** rng.randrange(0, 7)), 0, 0.000001, 3599.999999, 86400])
                    text, node = _write(prop, layer, v)
                    back = _read(prop, node)
                    ctx.count('props.py_xml_py.evaluated')
                    ctx.case(('props', 'w') + shape)
                    tol = Fraction(1, 10 ** 6) + Fraction(abs(float(v))) * Fraction(1, 2 ** 51)
                    if not base.RX_DURATION_SDPI.match(text or '') or text == 'PT':
                        wit(f'dur.to_xml_lexical.{layer}', 'duration string outside the SDPi duration lexical space', {'x': repr(v), 'xml': text})
                    elif abs(Fraction(back) - Fraction(v)) > tol:
                        wit(f'dur.py_xml_py.{layer}', 'duration changes by more than 1 us on Python->XML->Python', {'x': repr(v), 'xml': text, 'back': repr(back)})
                elif kind == 'boolean':
                    v = rng.random() < 0.5
                    text, node = _write(prop, layer, v)
                    back = _read(prop, node)
                    ctx.count('props.py_xml_py.evaluated')
                    ctx.case(('props', 'w') + shape)
                    if text not in ('true', 'false') or back is not v:
                        wit(f'bool.roundtrip.{layer}', 'boolean does not round trip', {'value': v, 'xml': text, 'back': repr(back)})
                elif kind == 'enum':
                    for member in prop._converter._klass:  # noqa: SLF001
                        text, node = _write(prop, layer, member)
                        back = _read(prop, node)
                        ctx.count('props.py_xml_py.evaluated')
                        if back is not member or text != member.value:
                            wit(f'enum.roundtrip.{layer}', 'enum member -> literal -> member is not the identity', {'member': repr(member), 'xml': text})
                    ctx.case(('props', 'w') + shape)
                    break
                elif kind == 'date':
                    sec = rng.choice([rng.randrange(60), float(rng.randrange(60)), rng.randrange(0, 60 * 10 ** 6) / 10 ** 6, 0, 30, 1e-05, 59.999999])
                    tz = rng.choice([None, datetime.timezone.utc, datetime.timezone(datetime.timedelta(minutes=rng.randrange(-14 * 60, 14 * 60 + 1)))])
                    v = isoduration.XsdDateInformation(rng.randrange(1, 10000), rng.randrange(1, 13), rng.randrange(1, 29), rng.randrange(24),
                                                       rng.randrange(60), sec, tz_info=tz)
                    text, node = _write(prop, layer, v)
                    ctx.count('props.py_xml_py.evaluated')
                    ctx.case(('props', 'w') + shape)
                    if not RX_DATE_UNION.match(text or ''):
                        wit('date.to_xml_lexical', 'date/time written in a form outside the xsd date/time union', {'value': repr(v), 'xml': text})
                        continue
                    back = _read(prop, node)
                    same = (back.year, back.month, back.day, back.hour, back.minute) == (v.year, v.month, v.day, v.hour, v.minute) and \
                        abs(Fraction(back.second) - Fraction(sec)) <= Fraction(1, 10 ** 6) and \
                        (None if back.tz_info is None else back.tz_info.utcoffset(None)) == (None if tz is None else tz.utcoffset(None))
                    if not same:
                        wit(f'date.py_xml_py.{layer}', 'a constructed date/time value does not round-trip (py->xml->py)', {'value': repr(v), 'xml': text, 'back': repr(back)})
            except Exception as ex:  # noqa: BLE001
                wit(f'props.raises.{kind}.{layer}', 'writing / reading back a valid value through the declared property raises', {'ex': repr(ex)[:300]})
                break
        # ------------------------------------------------------------------ XML -> Python (-> XML), valid lexicals -------------------
        for _ in range(n):
            try:
                if kind == 'timestamp':
                    m = rng.choice([rng.randrange(0, 2 ** 53 // 1000), 1_790_000_000_000 + rng.randrange(10 ** 9), rng.randrange(0, 10 ** 7)])
                    raw = str(m)
                    got = _read(prop, _wire(prop, layer, raw))
                    ctx.count('props.xml_py.evaluated')
                    ctx.case(('props', 'r') + shape)
                    if abs(Fraction(got) - Fraction(m, 1000)) >= Fraction(1, 1000):
                        wit(f'ts.to_py_wrong_value.{layer}', 'timestamp read as a value off by >= 1 ms', {'xml': raw, 'got': repr(got)})
                    elif can_write:
                        text, _node = _write(prop, layer, got)
                        if text != raw:
                            wit(f'ts.xml_py_xml.{layer}', 'millisecond timestamp does not survive XML->Python->XML', {'xml': raw, 'py': repr(got), 'back': text})
                elif kind == 'decimal' and layer == 'list_attribute':
                    items = [_rand_decimal_plain(rng) for _ in range(rng.randrange(1, 6))]
                    sep = rng.choice([' ', ' ', '  '])
                    raw = rng.choice(['', ' ']) + sep.join(s for s, _ in items) + rng.choice(['', ' '])
                    got = _read(prop, _wire(prop, layer, raw))
                    ctx.count('props.xml_py.evaluated')
                    ctx.case(('props', 'r') + shape)
                    if [Fraction(g) for g in got] != [f for _, f in items]:
                        wit(f'dec.to_py_value.{layer}', 'list of xsd:decimal read as different values', {'xml': raw, 'got': repr(got)})
                elif kind == 'decimal':
                    raw, want = _rand_decimal_plain(rng)
                    got = _read(prop, _wire(prop, layer, raw))
                    ctx.count('props.xml_py.evaluated')
                    ctx.case(('props', 'r') + shape)
                    if Fraction(got) != want:
                        wit(f'dec.to_py_value.{layer}', 'xsd:decimal read as a different numeric value', {'xml': raw, 'got': repr(got)})
                    else:
                        text, _node = _write(prop, layer, got)
                        if text is None or not base.RX_DECIMAL.match(text) or Fraction(Decimal(text)) != want:
                            wit(f'dec.value_changed.{layer}', 'a decimal (<= 18 digits) changes on XML->Python->XML', {'xml_in': raw, 'py': repr(got), 'xml_out': text})
                elif kind == 'integer':
                    vals = [rng.randrange(-10 ** 6, 10 ** rng.randrange(1, 21)) for _ in range(rng.randrange(1, 4) if layer == 'text_list' else 1)]
                    raws = [_noncanonical_int(rng, v) for v in vals]
                    got = _read(prop, _wire(prop, layer, raws if layer == 'text_list' else raws[0]))
                    ctx.count('props.xml_py.evaluated')
                    ctx.case(('props', 'r') + shape)
                    if (got if layer == 'text_list' else [got]) != vals or any(isinstance(g, bool) for g in (got if layer == 'text_list' else [got])):
                        wit(f'int.value.{layer}', 'integer read as a different value', {'xml': raws, 'got': repr(got)})
                elif kind == 'duration':
                    hh, mm, ss = rng.choice([None, rng.randrange(0, 10000)]), rng.choice([None, rng.randrange(0, 1000)]), rng.randrange(0, 100000)
                    frac = rng.choice([None, ''.join(rng.choice('0123456789') for _ in range(rng.randrange(1, 9)))])
                    raw = 'PT' + (f'{hh}H' if hh is not None else '') + (f'{mm}M' if mm is not None else '') + f'{ss}' + (f'.{frac}' if frac else '') + 'S'
                    want = Fraction(hh or 0) * 3600 + Fraction(mm or 0) * 60 + ss + (Fraction(int(frac), 10 ** len(frac)) if frac else 0)
                    got = _read(prop, _wire(prop, layer, raw))
                    ctx.count('props.xml_py.evaluated')
                    ctx.case(('props', 'r') + shape)
                    if abs(Fraction(got) - want) > Fraction(1, 10 ** 6) + want * Fraction(1, 2 ** 51):
                        wit(f'dur.to_py_value.{layer}', 'duration read as a value off by more than 1 us', {'xml': raw, 'got': repr(got)})
                elif kind == 'boolean':
                    raw = rng.choice(['true', 'false', '1', '0'])
                    got = _read(prop, _wire(prop, layer, raw))
                    ctx.count('props.xml_py.evaluated')
                    ctx.case(('props', 'r') + shape)
                    if got is not (raw in ('true', '1')):
                        wit(f'bool.value.{layer}', 'boolean literal mapped to the wrong value', {'xml': raw, 'got': repr(got)})
                elif kind == 'date':
                    raw = rng.choice(['2020', '1999-12', '2020-02-29', '2020-02-29T10:11:12.5Z', '2020-02-29+05:30', '-0044-03-15', '12345-01-01T24:00:00-00:30',
                                      '2001-10-26T21:32:52.126789', '2020-12-31T23:59:59.999999+14:00'])
                    got = _read(prop, _wire(prop, layer, raw))
                    ctx.count('props.xml_py.evaluated')
                    ctx.case(('props', 'r') + shape)
                    text, _node = _write(prop, layer, got)
                    if text != raw:
                        wit(f'date.xml_py_xml.{layer}', 'date/time value does not round-trip identically', {'xml': raw, 'out': text})
                else:
                    break
            except _NotOnWire:
                ctx.count('props.not_on_wire')
            except Exception as ex:  # noqa: BLE001
                wit(f'props.raises.{kind}.{layer}', 'reading a valid lexical value through the declared property raises', {'ex': repr(ex)[:300]})
                break
        # ------------------------------------------------------------------ lexical negatives over the wire ---------------------------
        lits = [m.value for m in prop._converter._klass if isinstance(m.value, str)] if kind == 'enum' else None  # noqa: SLF001
        if kind == 'enum' and not lits:
            continue
        for klass, raw in _negatives(rng, kind, layer, lits):
            if kind == 'enum':
                if raw in lits:
                    continue
            else:
                toks = [raw] if layer != 'list_attribute' else None
                if toks and recognisers[kind].match(base.collapse(raw)) and base.collapse(raw) != 'PT':
                    continue
            if layer == 'list_attribute':
                wire_raw = rng.choice(['1 ', '', '2.5 0 ']) + raw + rng.choice(['', ' 3'])
                if not raw or all(base.RX_DECIMAL.match(t) for t in base.collapse(wire_raw).split(' ')):   # XML list: items separated by XML white space
                    continue
            elif layer == 'text_list':
                wire_raw = [raw] if rng.random() < 0.5 else ['5', raw]
                if not raw:
                    continue
            else:
                wire_raw = raw
            try:
                node = _wire(prop, layer, wire_raw)
            except _NotOnWire:
                ctx.count('props.not_on_wire')
                continue
            ctx.count('lex.props.negatives')
            ctx.count(f'lex.props.negatives.{klass}')
            ctx.case(('props', 'neg', klass) + shape)
            try:
                got = _read(prop, node)
            except REJECT:
                ctx.count('lex.props.rejected')
                continue
            except Exception:  # noqa: BLE001
                ctx.count('lex.props.rejected_other')
                continue
            if got is None:
                ctx.count('lex.props.read_as_missing')   # no value at all: not a coercion
                continue
            key = 'lex.boolean.accepts_invalid' if kind == 'boolean' else f'lex.{_LEX_TYPE[kind]}.accepts_invalid.{layer}'
            wit(key, f'text outside the {kind} lexical space, received in XML, is coerced to a value ({klass})',
                {'xml': wire_raw, 'xml_ascii': ascii(wire_raw), 'got': repr(got)})
        if first:
            ctx.sample({'kind': 'declared property over the wire', 'property': where, 'class': type(prop).__name__, 'type': kind, 'layer': layer})
            first = False
