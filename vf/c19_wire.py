"""C19 helpers: structural address monitor over serialised messages, and a raw subscriber (hand-written WS-Eventing requests whose
request-controlled parts - wsa:To, Host header, NotifyTo, EndTo - are varied) for the loop-back transport.

Only C19 uses this module."""
from __future__ import annotations

import re
import uuid
from urllib.parse import urlparse

from lxml import etree

NS_WSA = 'http://www.w3.org/2005/08/addressing'
NS_WSE = 'http://schemas.xmlsoap.org/ws/2004/08/eventing'
NS_DPWS = 'http://docs.oasis-open.org/ws-dd/ns/dpws/2009/01'
NS_WSX = 'http://schemas.xmlsoap.org/ws/2004/09/mex'
NS_WSD = 'http://docs.oasis-open.org/ws-dd/ns/discovery/2009/01'

# every way the bytes of a message can name host:port with a scheme: 'https://h:p', and the '//'-less form 'https:h:p' that
# SubscriptionBase.send_notification_end_message writes
RX_URL = re.compile(rb'(?<![A-Za-z0-9+.\-])([Hh][Tt][Tt][Pp][Ss]?):(?://)?([A-Za-z0-9_.\-]+):(\d+)')


def _tag(ns, name):
    return f'{{{ns}}}{name}'


def transport_addresses(data: bytes):
    """-> list of (kind, address text) of every element of the message that names a transport address of its sender:
    provider side: subscription_manager (SubscribeResponse, SubscriptionEnd), hosted_endpoint (dpws:Hosted EPRs), wsdl_location (mex Location),
    xaddrs (ProbeMatches / Hello);  subscriber side: notify_to, end_to.  Returns None if data is no XML."""
    try:
        root = etree.fromstring(data)
    except (etree.XMLSyntaxError, ValueError):
        return None
    found = []
    for el in root.iter(_tag(NS_WSE, 'SubscriptionManager'), _tag(NS_WSE, 'NotifyTo'), _tag(NS_WSE, 'EndTo')):
        kind = {'SubscriptionManager': 'subscription_manager', 'NotifyTo': 'notify_to', 'EndTo': 'end_to'}[etree.QName(el).localname]
        for adr in el.findall(_tag(NS_WSA, 'Address')):
            found.append((kind, (adr.text or '').strip()))
    for hosted in root.iter(_tag(NS_DPWS, 'Hosted')):
        for epr in hosted.findall(_tag(NS_WSA, 'EndpointReference')):
            for adr in epr.findall(_tag(NS_WSA, 'Address')):
                found.append(('hosted_endpoint', (adr.text or '').strip()))
    for loc in root.iter(_tag(NS_WSX, 'Location')):
        found.append(('wsdl_location', (loc.text or '').strip()))
    for xa in root.iter(_tag(NS_WSD, 'XAddrs')):
        for token in (xa.text or '').split():
            found.append(('xaddrs', token))
    return found


def scheme_of(address: str) -> str:
    return urlparse(address).scheme.lower()


# ------------------------------------------------------------------------------------------------
SUBSCRIBE = ('<?xml version="1.0" encoding="UTF-8"?>\n'
             '<s12:Envelope xmlns:s12="http://www.w3.org/2003/05/soap-envelope" xmlns:wse="http://schemas.xmlsoap.org/ws/2004/08/eventing" '
             'xmlns:wsa="http://www.w3.org/2005/08/addressing"><s12:Header>{to}'
             '<wsa:Action>http://schemas.xmlsoap.org/ws/2004/08/eventing/Subscribe</wsa:Action>'
             '<wsa:MessageID>{msgid}</wsa:MessageID></s12:Header><s12:Body><wse:Subscribe>{endto}'
             '<wse:Delivery Mode="http://schemas.xmlsoap.org/ws/2004/08/eventing/DeliveryModes/Push"><wse:NotifyTo><wsa:Address>{notify}</wsa:Address>'
             '</wse:NotifyTo></wse:Delivery><wse:Expires>PT1M</wse:Expires>'
             '<wse:Filter Dialect="http://docs.oasis-open.org/ws-dd/ns/dpws/2009/01/Action">{actions}</wse:Filter></wse:Subscribe></s12:Body></s12:Envelope>')
TRANSFER_GET = ('<?xml version="1.0" encoding="UTF-8"?>\n'
                '<s12:Envelope xmlns:s12="http://www.w3.org/2003/05/soap-envelope" xmlns:wsa="http://www.w3.org/2005/08/addressing"><s12:Header>'
                '<wsa:To>{to}</wsa:To><wsa:Action>http://schemas.xmlsoap.org/ws/2004/09/transfer/Get</wsa:Action>'
                '<wsa:MessageID>{msgid}</wsa:MessageID></s12:Header><s12:Body/></s12:Envelope>')
ACTIONS = ('http://standards.ieee.org/downloads/11073/11073-20701-2018/StateEventService/EpisodicMetricReport '
           'http://standards.ieee.org/downloads/11073/11073-20701-2018/StateEventService/EpisodicAlertReport '
           'http://standards.ieee.org/downloads/11073/11073-20701-2018/ContextService/EpisodicContextReport')
HEADERS = {'Content-type': 'application/soap+xml; charset=utf-8', 'user_agent': 'vf-raw', 'Connection': 'keep-alive'}

TO_KINDS = ('advertised', 'http_scheme', 'upper_http_scheme', 'other_host', 'other_host_http', 'http_no_port', 'urn', 'path_only', 'absent')
HOST_KINDS = ('absent', 'bound', 'localhost', 'foreign')
SINK_KINDS = ('https', 'http_written', 'http_written_named')
END_KINDS = ('absent', 'same_netloc', 'other_netloc', 'other_netloc_http_written')
DIRECTED = (('advertised', 'absent', 'https', 'absent'),
            ('http_scheme', 'bound', 'http_written', 'other_netloc'),
            ('other_host', 'foreign', 'https', 'other_netloc_http_written'),
            ('other_host_http', 'foreign', 'http_written_named', 'same_netloc'),
            ('absent', 'localhost', 'https', 'same_netloc'),
            ('upper_http_scheme', 'absent', 'http_written', 'absent'),
            ('http_no_port', 'bound', 'https', 'other_netloc'),
            ('urn', 'absent', 'https', 'absent'),
            ('path_only', 'foreign', 'http_written', 'other_netloc'))


class Sink:
    """stand-in for an event sink: accepts every POST."""

    def __init__(self):
        self.got = []

    def do_post(self, _msg, path, _peer, body):
        self.got.append((path, body))
        return 200, 'OK', b''

    def do_get(self, _msg, path, _peer):
        return 404, 'not found', b'', 'text/plain'


class RawSubscriber:
    """Subscribes at the provider with hand-written requests (no library consumer involved).  Every request / response is on the network's
    wire log, tagged ``extra['vf_raw']`` (the request part of such an entry is harness input, only the response is the provider's)."""

    def __init__(self, net, provider_netloc: str, device_address: str, sink_scheme: str = 'https'):
        self.net, self.provider_netloc, self.device_address = net, provider_netloc, device_address
        self.port = int(provider_netloc.rsplit(':', 1)[1])
        # the sinks speak what the provider is configured to speak (they are reachable for it), whatever scheme the Subscribe writes
        self.sink_a = net.new_server(scheme=sink_scheme)
        self.sink_b = net.new_server(scheme=sink_scheme)
        self.sinks = {}
        for srv in (self.sink_a, self.sink_b):
            s = Sink()
            srv.dispatcher.register_instance('sink', s)
            self.sinks[srv.server_port] = s
            net.servers[f'sink.example:{srv.server_port}'] = srv  # the same sink under a host name
        self.ports = set(self.sinks)
        self.hosted = None  # address of the StateEvent hosted service as the provider advertises it

    def _post(self, path, headers, body: str, what: str):
        return self.net.transmit(self.provider_netloc, 'POST', path, {**HEADERS, **headers, 'Content-Length': str(len(body.encode()))}, body.encode(),
                                 bypass_policy=True, extra={'vf_raw': what})

    def discover(self):
        """TransferGet -> address of the hosted service that offers the state event reports."""
        path = urlparse(self.device_address).path
        e = self._post(path, {}, TRANSFER_GET.format(to=self.device_address, msgid=uuid.uuid4().urn), 'transfer_get')
        found = transport_addresses(e.response or b'') or []
        candidates = [a for k, a in found if k == 'hosted_endpoint']
        state = [a for a in candidates if a.rstrip('/').endswith('StateEvent')]
        self.hosted = (state or candidates or [None])[0]
        return self.hosted

    def subscribe(self, to_kind, host_kind, sink_kind, end_kind):
        """-> (wire entry, list of (kind, address) found in the response)."""
        adv = urlparse(self.hosted)
        rest = f'{adv.netloc}{adv.path}'
        to = {'advertised': self.hosted, 'http_scheme': f'http://{rest}', 'upper_http_scheme': f'HTTP://{rest}',
              'other_host': f'https://device.example:{self.port}{adv.path}', 'other_host_http': f'http://device.example:{self.port}{adv.path}',
              'http_no_port': f'http://{adv.hostname}{adv.path}', 'urn': uuid.UUID(int=0x1234).urn, 'path_only': adv.path, 'absent': None}[to_kind]
        host = {'absent': None, 'bound': adv.netloc, 'localhost': f'localhost:{self.port}', 'foreign': f'device.example:{self.port}'}[host_kind]
        pa, pb = self.sink_a.server_port, self.sink_b.server_port
        ident = uuid.uuid4().hex[:8]
        notify = {'https': f'https://127.0.0.1:{pa}/sink/n{ident}', 'http_written': f'http://127.0.0.1:{pa}/sink/n{ident}',
                  'http_written_named': f'http://sink.example:{pa}/sink/n{ident}'}[sink_kind]
        end = {'absent': None, 'same_netloc': f'https://127.0.0.1:{pa}/sink/e{ident}', 'other_netloc': f'https://127.0.0.1:{pb}/sink/e{ident}',
               'other_netloc_http_written': f'http://sink.example:{pb}/sink/e{ident}'}[end_kind]
        body = SUBSCRIBE.format(to=f'<wsa:To>{to}</wsa:To>' if to is not None else '', msgid=uuid.uuid4().urn, notify=notify, actions=ACTIONS,
                                endto=f'<wse:EndTo><wsa:Address>{end}</wsa:Address></wse:EndTo>' if end is not None else '')
        e = self._post(adv.path, {'Host': host} if host else {}, body, 'subscribe')
        return e, (transport_addresses(e.response or b'') or [])

    def received(self) -> int:
        return sum(len(s.got) for s in self.sinks.values())
