"""Schedule control at lock granularity (DESIGN 2.4).

``instrument(mdib)`` replaces ``mdib.mdib_lock`` and the three table locks *on the instance* by proxies around the real RLocks
that report the events of the observed thread:  ('before', name) before an outermost acquire, ('released', name) after an
outermost release.  A hook installed with ``set_hook`` may run complete foreign transactions synchronously at such a point -
equivalent to another thread being scheduled there - provided the observed thread does not hold ``mdib_lock`` at that moment
(otherwise no writer could run: the point is skipped).
"""
from __future__ import annotations

import threading


class LockProxy:
    def __init__(self, real, name, owner: 'Instrumented'):
        self._real = real
        self._name = name
        self._owner = owner
        self._depth = threading.local()

    def _d(self):
        return getattr(self._depth, 'n', 0)

    def acquire(self, blocking=True, timeout=-1):
        outer = self._d() == 0
        if outer:
            self._owner.event('before', self._name)
        ok = self._real.acquire(blocking, timeout)
        if ok:
            self._depth.n = self._d() + 1
            if outer:
                self._owner.event('acquired', self._name)
        return ok

    def release(self):
        self._depth.n = self._d() - 1
        self._real.release()
        if self._d() == 0:
            self._owner.event('released', self._name)

    __enter__ = acquire

    def __exit__(self, *a):
        self.release()

    def held(self):
        return self._d() > 0


class Instrumented:
    def __init__(self, mdib):
        self.mdib = mdib
        self.hook = None
        self.observed_thread = None
        self.in_hook = False
        self.locks = {}
        self.locks['mdib'] = mdib.mdib_lock = LockProxy(mdib.mdib_lock, 'mdib', self)
        for tname in ('descriptions', 'states', 'context_states'):
            table = getattr(mdib, tname)
            proxy = LockProxy(table._lock, tname, self)
            table._lock = proxy
            for idx in table._idx_defs.values():
                idx.set_lock(proxy)
            self.locks[tname] = proxy

    def set_hook(self, hook, thread=None):
        self.hook = hook
        self.observed_thread = thread or threading.current_thread()

    def clear_hook(self):
        self.hook = None

    def event(self, kind, name):
        hook = self.hook
        if hook is None or self.in_hook or threading.current_thread() is not self.observed_thread:
            return
        if kind == 'acquired':
            return
        if self.locks['mdib'].held():
            return  # the observed thread holds the mdib lock: no transaction can be scheduled here
        self.in_hook = True
        try:
            hook(kind, name)
        finally:
            self.in_hook = False
