"""C17 helper: a scripted HTTP/1.1 peer on a REAL loop-back socket, for the library's clients with their REAL transports.

The socket-free harness (vf.c13env) replaces aiohttp by a fake session that decodes every content coding with the reference decoders
and renders the request itself - what aiohttp really puts on the wire, and what it really does with a coded response, is invisible
there.  Here SoapClientAsync runs on the real aiohttp.ClientSession and SoapClient on the real http.client over TCP:

* ``RawPeer``: accept thread + one thread per connection; reads every request exactly as framed (header block, then chunked body
  or Content-Length body), keeps the raw bytes, answers with the bytes its ``script(request)`` returns (keep-alive: the next request
  of the connection is read afterwards).  It never interprets the body - the judging is done by the caller with the reference
  chunk grammar / decoders of vf.httpl2.
* ``xml_body``: well-formed XML documents (the clients hand the response to an XML reader) of the usual body classes;
* ``ref_encode_var``: reference encoders with varying, standard options (gzip level; lz4 frame: linked / independent blocks,
  with / without content size and checksum) - every conforming decoder must accept all of them;
* ``XmlReader``: stand-in for the MessageReader of the clients: parses with lxml like the real one (not well-formed = rejected).

Wall-clock only appears as watchdog (socket time-outs): a time-out is reported as ``timed_out`` and turns into 'inconclusive'.
"""
from __future__ import annotations

import socket
import threading

WATCHDOG_S = 90.0


class Req:
    def __init__(self):
        self.raw_head = b''
        self.method = ''
        self.target = ''
        self.headers: list = []       # (name, value) in wire order
        self.raw_body = b''           # exactly the bytes after the header block that belong to this request
        self.chunked = False
        self.problem = None           # the peer could not even delimit the message
        self.conn_index = 0           # n-th request on its connection

    def header(self, name, default=None):
        name = name.lower()
        for k, v in self.headers:
            if k.lower() == name:
                return v
        return default

    def all_headers(self, name):
        name = name.lower()
        return [v for k, v in self.headers if k.lower() == name]


class RawPeer:
    def __init__(self):
        self.sock = socket.socket(socket.AF_INET, socket.SOCK_STREAM)
        self.sock.setsockopt(socket.SOL_SOCKET, socket.SO_REUSEADDR, 1)
        self.sock.bind(('127.0.0.1', 0))
        self.sock.listen(16)
        self.port = self.sock.getsockname()[1]
        self.netloc = f'127.0.0.1:{self.port}'
        self.script = None            # callable(Req) -> bytes
        self.requests: list[Req] = []
        self.timed_out = 0            # watchdog fired INSIDE a request (an idle keep-alive connection that times out is not counted)
        self.idle_closed = 0
        self.send_failed = 0          # the client had closed the connection before the whole response was written (its business)
        self.connections = 0
        self.errors: list = []        # exceptions of the script (harness bugs)
        self._stop = False
        self._conns: list = []
        self._thr = threading.Thread(target=self._accept, name='c17_rawpeer', daemon=True)
        self._thr.start()

    def _accept(self):
        while not self._stop:
            try:
                conn, _ = self.sock.accept()
            except OSError:
                return
            self.connections += 1
            self._conns.append(conn)
            threading.Thread(target=self._serve, args=(conn,), name='c17_rawpeer_conn', daemon=True).start()

    def _serve(self, conn):
        conn.settimeout(WATCHDOG_S)
        f = conn.makefile('rb')
        n = 0
        state = {'in_request': False}
        try:
            while not self._stop:
                state['in_request'] = False
                req = self._read_request(f, state)
                if req is None:
                    return
                req.conn_index = n
                n += 1
                self.requests.append(req)
                out = self.script(req) if self.script is not None else b'HTTP/1.1 200 OK\r\nContent-Length: 0\r\n\r\n'
                try:
                    conn.sendall(out)
                except OSError:
                    self.send_failed += 1
                    return
                if req.problem is not None:
                    return
        except socket.timeout:
            if state['in_request']:
                self.timed_out += 1
            else:
                self.idle_closed += 1
        except OSError:
            if state['in_request']:
                self.requests.append(_problem(Req(), b'', 'connection reset inside a request'))
        except Exception as ex:  # noqa: BLE001   a bug of the script: visible to the caller
            self.errors.append('script: ' + repr(ex))
        finally:
            try:
                f.close()
                conn.close()
            except OSError:
                pass

    @staticmethod
    def _read_request(f, state):
        req = Req()
        head = bytearray()
        while True:
            line = f.readline(1 << 16)
            if not line:
                return None if not head else _problem(req, head, 'connection closed inside the header block')
            state['in_request'] = True
            head += line
            if line in (b'\r\n', b'\n'):
                break
        req.raw_head = bytes(head)
        lines = bytes(head).split(b'\r\n')
        parts = lines[0].split(b' ')
        req.method = parts[0].decode('latin-1')
        req.target = parts[1].decode('latin-1') if len(parts) > 1 else ''
        for ln in lines[1:]:
            if ln:
                k, _, v = ln.partition(b':')
                req.headers.append((k.decode('latin-1').strip(), v.decode('latin-1').strip(' \t')))
        te = [v.lower() for v in req.all_headers('transfer-encoding')]
        if any('chunked' in v for v in te):
            req.chunked = True
            body = bytearray()
            while True:
                line = f.readline(1 << 16)
                body += line
                try:
                    size = int(line.split(b';')[0].strip(), 16)
                except ValueError:
                    req.problem = f'chunk-size line {bytes(line[:30])!r}'
                    break
                if size == 0:
                    while True:     # trailer section, closed by an empty line
                        line = f.readline(1 << 16)
                        body += line
                        if line in (b'\r\n', b'\n', b''):
                            break
                    break
                data = f.read(size + 2)
                body += data
                if len(data) < size + 2:
                    req.problem = 'connection closed inside a chunk'
                    break
            req.raw_body = bytes(body)
        else:
            cl = req.header('content-length')
            if cl is not None and cl.strip().isdigit():
                req.raw_body = f.read(int(cl.strip()))
                if len(req.raw_body) < int(cl.strip()):
                    req.problem = 'connection closed inside the body'
        return req

    def stop(self):
        self._stop = True
        try:
            self.sock.close()
        except OSError:
            pass
        for c in self._conns:
            try:
                c.shutdown(socket.SHUT_RDWR)
            except OSError:
                pass
            try:
                c.close()
            except OSError:
                pass


def _problem(req, head, why):
    req.raw_head = bytes(head)
    req.problem = why
    return req


def mk_response(status=200, reason='OK', headers=(), body=b'', chunk_sizes=None, upper=False, content_type='application/soap+xml; charset=utf-8'):
    """Response bytes; framing: Content-Length, or chunked (reference writer) when chunk_sizes is given."""
    from . import httpl2 as L
    lines = [f'HTTP/1.1 {status} {reason}'.encode('latin-1')]
    if content_type:
        lines.append(b'Content-Type: ' + content_type.encode('latin-1'))
    for k, v in headers:
        lines.append(k.encode('latin-1') + b': ' + v.encode('latin-1'))
    if chunk_sizes:
        lines.append(b'Transfer-Encoding: chunked')
        wire = L.ref_chunk(body, chunk_sizes, upper=upper)
    else:
        lines.append(b'Content-Length: %d' % len(body))
        wire = body
    return b'\r\n'.join(lines) + b'\r\n\r\n' + wire


XML_DECL = b"<?xml version='1.0' encoding='utf-8'?>\n"
_SAFE = 'abcdefghijklmnopqrstuvwxyzABCDEFGHIJKLMNOPQRSTUVWXYZ0123456789 _-.:/=+'
_WIDE = _SAFE + 'äöüß€中文\U0001f600'


def xml_body(rng, n, kind=None):
    """-> (bytes of a well-formed XML document of about n bytes payload, kind)."""
    kind = kind or rng.choice(['repeat', 'noise', 'wide', 'nested'])
    if kind == 'repeat':
        unit = ''.join(rng.choice(_SAFE) for _ in range(rng.randrange(1, 12)))
        text = (unit * (n // len(unit) + 1))[:n]
    elif kind == 'noise':      # practically incompressible for the codings
        text = ''.join(rng.choices(_SAFE, k=n))
    elif kind == 'wide':
        text = ''.join(rng.choices(_WIDE, k=max(0, n // 2)))
    else:
        item = '<m:Metric xmlns:m="urn:x" Handle="h%d"><m:Value V="%d"/></m:Metric>'
        text = ''.join(item % (i, rng.randrange(1000)) for i in range(max(0, n // 70)))
    return XML_DECL + b'<a>' + text.encode('utf-8') + b'</a>', kind


def ref_encode_var(rng, coding: str, data: bytes):
    """Reference encoders with standard option variety -> (encoded, options description)."""
    c = coding.lower()
    if c == 'gzip':
        import gzip
        level = rng.choice([1, 6, 9])
        return gzip.compress(data, compresslevel=level, mtime=rng.choice([0, 1700000000])), f'gzip.level{level}'
    if c in ('lz4', 'x-lz4'):
        import lz4.frame
        opt = {'block_linked': rng.random() < 0.5, 'content_checksum': rng.random() < 0.5, 'store_size': rng.random() < 0.5,
               'block_size': rng.choice([lz4.frame.BLOCKSIZE_DEFAULT, lz4.frame.BLOCKSIZE_MAX64KB, lz4.frame.BLOCKSIZE_MAX256KB])}
        return lz4.frame.compress(data, **opt), 'lz4.' + ''.join(str(int(bool(opt[k]))) for k in ('block_linked', 'content_checksum', 'store_size'))
    if c == 'deflate':
        import zlib
        return zlib.compress(data), 'deflate'
    raise ValueError(coding)


class XmlReader:
    """What the clients need of a MessageReader; like the real one it parses the bytes with lxml first (XMLSyntaxError = rejected)."""

    def read_received_message(self, data, validate=True):  # noqa: ARG002
        from lxml import etree
        etree.fromstring(data)

        class R:
            action = 'x'
            p_msg = None
        r = R()
        r.data = data
        return r


class Created:
    def __init__(self, data):
        self.data = data
        self.p_msg = None

    def serialize(self, **kw):  # noqa: ARG002
        return self.data


# ---------------------------------------------------------------------------------------------------------------
# socket-free stand-in for aiohttp.ClientSession that behaves like aiohttp where it matters for C17
# ---------------------------------------------------------------------------------------------------------------
class FakeAioResponse:
    """What aiohttp.ClientResponse offers of a response (status, reason, headers, read(), text()); like aiohttp it decodes gzip / deflate
    itself when the session was created with auto_decompress (the default) and hands every other content coding through untouched."""

    def __init__(self, raw: bytes, auto_decompress: bool):
        from multidict import CIMultiDict
        from . import httpl2
        r = httpl2.parse_responses(raw)
        self._p = r[0] if r else None
        self.status = self._p.status if self._p else 0
        self.reason = self._p.reason if self._p else ''
        self.headers = CIMultiDict(self._p.headers if self._p else [])
        self._auto = auto_decompress

    async def read(self):
        from . import httpl2
        if self._p is None:
            raise ConnectionError('no response')
        body = self._p.body
        enc = (self.headers.get('Content-Encoding') or '').lower()
        if self._auto and enc in ('gzip', 'deflate') and body:
            body = httpl2.ref_decode(enc, body)      # raises for a corrupt stream, like aiohttp (ClientPayloadError)
        return body

    async def text(self, encoding=None, errors='strict'):
        return (await self.read()).decode(encoding or 'utf-8', errors)

    async def __aenter__(self):
        return self

    async def __aexit__(self, *a):
        return False


class _PostCtx:
    """session.post(...) of aiohttp is awaitable and an async context manager; the request is rendered when it is entered."""

    def __init__(self, session, path, data, headers, chunked):
        self.args = (session, path, data, headers, chunked)

    async def _run(self):
        from . import httpl2
        session, path, data, headers, chunked = self.args
        hdrs = [('Host', session.netloc)] + list((headers or {}).items())
        names = {k.lower() for k, _ in hdrs}
        if hasattr(data, '__aiter__'):
            pieces = [bytes(p) async for p in data]
            if chunked is None and 'content-length' not in names:
                chunked = True
            data = pieces
        if chunked:
            # aiohttp writes one chunk per write() of the payload
            if 'transfer-encoding' in names:
                raise ValueError('chunked can not be set if "Transfer-Encoding: chunked" header is set')
            if 'content-length' in names:
                raise ValueError('chunked can not be set if Content-Length header is set')
            hdrs.append(('Transfer-Encoding', 'chunked'))
            pieces = data if isinstance(data, list) else ([data] if data else [])
            body = b''.join(b'%x\r\n' % len(p) + p + b'\r\n' for p in pieces if p) + b'0\r\n\r\n'
        else:
            body = b''.join(data) if isinstance(data, list) else (data or b'')
            if 'content-length' not in names:
                hdrs.append(('Content-Length', str(len(body))))      # aiohttp does so whenever it was not asked to chunk itself
        if 'accept-encoding' not in names:
            hdrs.append(('Accept-Encoding', 'gzip, deflate'))        # aiohttp's default header
        raw = httpl2.mk_request('POST', path, hdrs, body)
        return FakeAioResponse(session.net.deliver(session.netloc, raw), session.auto_decompress)

    def __await__(self):
        return self._run().__await__()

    async def __aenter__(self):
        return await self._run()

    async def __aexit__(self, *a):
        return False


class FakeAioSession:
    def __init__(self, net, netloc, auto_decompress=True):
        self.net, self.netloc, self.auto_decompress = net, netloc, auto_decompress

    def post(self, path, data=None, headers=None, chunked=None, **kw):  # noqa: ARG002
        return _PostCtx(self, path, data, headers, chunked)

    async def close(self):
        pass


def loop_soap_client_async(net):
    """SoapClientAsync whose REAL _mk_http_connection runs with aiohttp's ClientSession / TCPConnector replaced: the fake session gets the
    keyword arguments the library passes (auto_decompress ...), so it behaves like the session the library asked for."""
    import sdc11073.pysoap.soapclient_async as mod

    class LoopSoapClientAsync(mod.SoapClientAsync):
        created: list = []

        def __init__(self, *a, **k):
            super().__init__(*a, **k)
            LoopSoapClientAsync.created.append(self)

        async def _mk_http_connection(self):
            netloc = self._netloc

            def session(base_url=None, connector=None, timeout=None, **kw):  # noqa: ARG001
                return FakeAioSession(net, netloc, auto_decompress=kw.get('auto_decompress', True))
            orig = (mod.ClientSession, mod.TCPConnector)
            mod.ClientSession, mod.TCPConnector = session, (lambda *a, **k: None)
            try:
                return await mod.SoapClientAsync._mk_http_connection(self)     # no await inside: the swap is not visible to other tasks
            finally:
                mod.ClientSession, mod.TCPConnector = orig
    LoopSoapClientAsync.created = []
    return LoopSoapClientAsync


def install_async_fake(env):
    """make vf.c13env (only inside the calling process) build async providers / clients on the faithful fake session"""
    env.loop_soap_client_async = loop_soap_client_async
