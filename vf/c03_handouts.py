"""C03, second half of the statement: more hand-out paths (helper module of vf/props/c03.py, used by no other property).

w_entity_refresh   an entity that the application KEEPS and refreshes with update() after foreign commits (states update() refreshes in place,
                   states update() adds, the descriptor) - every nested path mutated once, the MDIB must not change
w_periodic         provider started with periodic reports: what a commit published is also what the pending periodic report shows, whatever
                   the application does afterwards with the transaction result / the objects of its transaction (store watched after every
                   single mutation; then the REAL periodic loop thread sends and the Periodic*Report is compared with the Episodic*Report)
w_isolation_more   hand-outs the first isolation workload does not reach: context-transaction objects after the commit, TransactionResult members
                   ctxt_updates / descr_updated / descr_created / descr_deleted, *_by_handle observables, entities.by_node_type / items(),
                   entities after write_entity + commit, new_entity, descriptor_transaction.get_state / add_state
"""
from __future__ import annotations

import threading
import types
from decimal import Decimal

from lxml import etree

from . import core, mdibops
from .history import canon, canon_descriptor, first_difference, snap, snap_equal, xml_canon
from .mdibharness import MDIB_FILES, World
from .props import c03 as base


# ------------------------------------------------------------------------------------------------
class Judge:
    """Every nested path of a handed-out object is mutated once; after EACH single mutation the MDIB snapshot and everything that was
    recorded as 'published by an earlier commit' must be what it was."""

    def __init__(self, ctx: core.Ctx, mdib, mdib_file: str):
        self.ctx, self.mdib, self.mdib_file = ctx, mdib, mdib_file
        self.recorded = []   # [label, object, canonical form when it was published]

    def publish(self, label, obj):
        if not any(r[1] is obj and r[0] == label for r in self.recorded):
            self.recorded.append([label, obj, canon(obj)])

    def forget(self, obj, label):
        """obj is going to be mutated as hand-out <label>: it is no longer a witness of what was published under that label (if the SAME object
        is also recorded under another label - e.g. retained for the periodic report - that record stays: it must not be the same object)."""
        self.recorded[:] = [r for r in self.recorded if not (r[1] is obj and r[0] == label)]

    def _light(self, obj):
        """the MDIB objects that carry the handle(s) of obj + the version group: cheap, looked at after every single mutation."""
        mdib = self.mdib
        out = [(mdib.mdib_version, mdib.sequence_id, mdib.instance_id, getattr(mdib, 'mddescription_version', None),
                getattr(mdib, 'mdstate_version', None))]
        for h in sorted({getattr(obj, 'Handle', None), getattr(obj, 'DescriptorHandle', None)} - {None}):
            d = mdib.descriptions.handle.get_one(h, allow_none=True)
            out.append(canon_descriptor(d) if d is not None else None)
            st = mdib.states.descriptor_handle.get_one(h, allow_none=True)
            out.append(canon(st) if st is not None else None)
            st = mdib.context_states.handle.get_one(h, allow_none=True)
            out.append(canon(st) if st is not None else None)
            out.append(tuple(canon(x) for x in mdib.context_states.descriptor_handle.get(h, [])))
        return out

    def _published_intact(self, label, cls_name, path):
        for rec in list(self.recorded):
            rlabel, robj, rcanon = rec
            now = canon(robj)
            if now != rcanon:
                self.ctx.witness(f'isolation.published_changed.{rlabel}.via.{label}',
                                 f'mutating an object handed out by the MDIB ({label}) changed what an earlier commit published ({rlabel})',
                                 {'class': cls_name, 'path': path, 'diff': first_difference(rcanon, now), 'mdib_file': self.mdib_file})
                self.recorded.remove(rec)
                return False
        return True

    def mutate_all(self, label, obj, counter=None):
        """-> number of mutations done.  Stops at the first mutation that shows through (one witness per object).

        After EVERY mutation: the MDIB objects with the handle(s) of obj, the version group, everything recorded as published.  Before the first
        and after the last mutation of the object: the full snapshot (content of all tables, saved versions, sizes)."""
        if obj is None:
            return 0
        ctx = self.ctx
        self.forget(obj, label)   # the object itself may of course change
        cls_name = type(obj).__name__
        counter = counter or f'reach.{label}'
        full_before = snap(self.mdib, with_index_check=False)
        light = self._light(obj)
        n = 0
        ok = True
        for path, thunk in list(base.deep_mutations(obj)):
            try:
                thunk()
            except Exception:  # noqa: BLE001  (a value the container refuses)
                continue
            n += 1
            ctx.case((label, cls_name, path))
            ctx.count('isolation.mutations')
            ctx.count(counter)
            now = self._light(obj)
            if now != light:
                ctx.witness(f'isolation.{label}', f'mutating an object handed out by the MDIB ({label}) changed the MDIB without a commit',
                            {'class': cls_name, 'path': path, 'diff': first_difference(tuple(light), tuple(now)), 'mdib_file': self.mdib_file})
                ok = False
                break
            if not self._published_intact(label, cls_name, path):
                ok = False
                break
        if ok and n:
            full_after = snap(self.mdib, with_index_check=False)
            diffs = snap_equal(full_before, full_after)
            if diffs or full_before['hvl'] != full_after['hvl'] or full_before['sizes'] != full_after['sizes']:
                ctx.witness(f'isolation.{label}', f'mutating an object handed out by the MDIB ({label}) changed the MDIB without a commit',
                            {'class': cls_name, 'path': '(one of the paths of this object; the change is not in the MDIB objects of its own handle)',
                             'diff': diffs[:2], 'mdib_file': self.mdib_file})
        return n


def _rich_context_state(mdib, st, rng, tag):
    """fill a context state with values at several nesting depths (lists of containers, containers with lists)."""
    pm_types = mdib.data_model.pm_types
    st.Identification = [pm_types.InstanceIdentifier(root=f'urn:{tag}:{k}', extension_string=rng.choice(mdibops.STR_POOL)) for k in range(2)]
    st.Identification[0].Type = pm_types.CodedValue('4711')
    st.Identification[0].IdentifierName = [pm_types.LocalizedText('name'), pm_types.LocalizedText('nom', lang='fr')]
    st.Validator = [pm_types.InstanceIdentifier(root=f'urn:validator:{tag}')]
    if hasattr(type(st), 'CoreData'):
        st.CoreData = pm_types.PatientDemographicsCoreData()
        st.CoreData.Givenname = rng.choice(mdibops.STR_POOL)
        st.CoreData.Familyname = rng.choice(mdibops.STR_POOL)
        st.CoreData.Middlename = ['M', rng.choice(mdibops.STR_POOL)]
        st.CoreData.Sex = pm_types.Sex.FEMALE
    if hasattr(type(st), 'LocationDetail'):
        st.LocationDetail = pm_types.LocationDetail(poc='poc', room=rng.choice(mdibops.STR_POOL), bed='b1')


GETTERS = ('by_handle', 'by_node_type', 'by_parent_handle', 'items')


def _entity_via(mdib, getter, handle):
    d = mdib.descriptions.handle.get_one(handle)
    if getter == 'by_handle':
        return mdib.entities.by_handle(handle)
    if getter == 'by_node_type':
        pool = mdib.entities.by_node_type(d.NODETYPE)
    elif getter == 'by_parent_handle':
        pool = mdib.entities.by_parent_handle(d.parent_handle)
    else:
        pool = [e for _h, e in mdib.entities.items()]
    return next(e for e in pool if e.handle == handle)


# ------------------------------------------------------------------------------------------------
def w_entity_refresh(ctx: core.Ctx, arg):
    rng = ctx.rng('refresh', arg['i'])
    mdib_file = MDIB_FILES[arg['i'] % len(MDIB_FILES)]
    world, sink = base._mk_world(mdib_file)
    mdib = world.mdib
    judge = Judge(ctx, mdib, mdib_file)
    cat = mdibops.catalog(mdib)
    pm_types = mdib.data_model.pm_types

    def refresh(ent, what):
        try:
            ent.update()
            ctx.count(f'entity_update.{what}.ok')
        except Exception as ex:  # noqa: BLE001  (not judged here: the MDIB is what it was; what update() did before it raised is judged)
            ctx.count(f'entity_update.{what}.raised.{type(ex).__name__}')

    # -- multi-state entities ---------------------------------------------------------------------
    # directed rounds: entity from each getter, ALL kinds of foreign commits before update().  Extra rounds (seeded): a random subset of the
    # foreign commits in random order, the entity is refreshed and edited in several cycles.
    acts_all = ('update_existing', 'new_classic', 'new_entity_and_delete', 'descriptor')
    rounds = [(n, getter, acts_all, 1) for n in range(min(2, len(cat['context']))) for getter in (GETTERS if n == 0 else GETTERS[:1])]
    for _ in range(arg.get('extra', 2)):
        acts = [a for a in acts_all if rng.random() < 0.7] or ['new_classic']
        rng.shuffle(acts)
        rounds.append((rng.randrange(min(2, len(cat['context']))), rng.choice(GETTERS), tuple(acts), rng.choice((1, 2, 3))))
    for rnd, (n, getter, acts, cycles) in enumerate(rounds if cat['context'] else []):
        dh = cat['context'][n]
        tag = f'er{rnd}'
        for k in range(3):
            with mdib.context_state_transaction() as mgr:
                _rich_context_state(mdib, mgr.mk_context_state(dh, f'{tag}_{k}'), rng, f'{tag}_{k}')
        ent = _entity_via(mdib, getter, dh)           # the application keeps this entity
        for cycle in range(cycles):
            held = set(ent.states)
            n_res = len(sink.results)
            # foreign commits (another part of the application, an operation handler ...)
            for act in acts:
                if act == 'update_existing':
                    with mdib.context_state_transaction() as mgr:
                        st = mgr.get_context_state(f'{tag}_0')
                        _rich_context_state(mdib, st, rng, f'{tag}_0b{cycle}')
                elif act == 'new_classic':
                    with mdib.context_state_transaction() as mgr:
                        _rich_context_state(mdib, mgr.mk_context_state(dh, f'{tag}_new{cycle}', set_associated=True), rng, f'{tag}_new')
                elif act == 'new_entity_and_delete':
                    ent_other = mdib.entities.by_handle(dh)
                    _rich_context_state(mdib, ent_other.new_state(f'{tag}_new2{cycle}'), rng, f'{tag}_new2')
                    victim = f'{tag}_2' if cycle == 0 else f'{tag}_new2{cycle - 1}'
                    ent_other.states.pop(victim, None)
                    with mdib.context_state_transaction() as mgr:
                        mgr.write_entity(ent_other, [f'{tag}_new2{cycle}'] + ([victim] if mdib.context_states.handle.get_one(victim, allow_none=True) else []))
                else:
                    with mdib.descriptor_transaction() as mgr:
                        d = mgr.get_descriptor(dh)
                        d.Type = pm_types.CodedValue(str(123 + cycle), coding_system='urn:cs')
                        d.Type.ConceptDescription = [pm_types.LocalizedText('concept')]
                        d.SafetyClassification = rng.choice(list(pm_types.SafetyClassification))
            for tr in sink.results[n_res:]:
                for st in tr.ctxt_updates:
                    judge.publish('TransactionResult.ctxt_updates', st)
            refresh(ent, 'multi_state')
            added = [h for h in ent.states if h not in held]
            ctx.count('entity_update.states_added_by_update', len(added))
            for h, st in list(ent.states.items()):
                if h in added:
                    judge.mutate_all('entity_update.new_state', st)
                else:
                    judge.mutate_all('entity_update.refreshed_state', st)
            judge.mutate_all('entity_update.descriptor', ent.descriptor)
            ctx.case(('entity_refresh', mdib_file, 'multi', getter, acts, cycle))
            judge.recorded[:] = judge.recorded[-4:]

    # -- single-state entities --------------------------------------------------------------------
    for kind in ('metric', 'alert', 'component', 'operational', 'rt'):
        for rnd, h in enumerate(cat[kind][:2]):
            ent = _entity_via(mdib, GETTERS[rnd % 2], h)
            with getattr(mdib, mdibops._TR[kind])() as mgr:
                st = mgr.get_state(h)
                for _ in range(3):
                    mdibops.mutate_state(st, rng)
                if kind == 'metric':
                    st.BodySite = [pm_types.CodedValue('1'), pm_types.CodedValue('2')]
                    st.PhysicalConnector = pm_types.PhysicalConnectorInfo([pm_types.LocalizedText('plug')], 3)
            if kind in ('metric', 'alert'):
                with mdib.descriptor_transaction() as mgr:
                    d = mgr.get_descriptor(h)
                    mdibops.mutate_descriptor(d, rng)
                    d.Type = pm_types.CodedValue('124', coding_system='urn:cs')
                    d.Type.ConceptDescription = [pm_types.LocalizedText('concept')]
            refresh(ent, 'single_state')
            judge.mutate_all('entity_update.refreshed_state', ent.state)
            judge.mutate_all('entity_update.descriptor', ent.descriptor)
            ctx.case(('entity_refresh', mdib_file, kind, rnd))
    world.stop()


# ------------------------------------------------------------------------------------------------
class _GateTimer:
    """stands in for intervaltimer.IntervalTimer of the periodic-reports loop: the workload decides when a period begins, the loop THREAD and all
    the code it runs are the library's.  (Ordering by events, never by wall-clock.)"""

    instances: list = []
    created = threading.Event()

    def __init__(self, period_in_seconds):
        self.period_in_seconds = period_in_seconds
        self.gate = threading.Semaphore(0)
        self.at_gate = threading.Event()
        _GateTimer.instances.append(self)
        _GateTimer.created.set()

    def wait_next_interval_begin(self):
        self.at_gate.set()      # everything of the previous period was handed to the send functions
        self.gate.acquire()

    def remaining_time(self):
        return 0.0

    def one_period(self, timeout=120.0) -> bool:
        """let the loop run through exactly one period; False = the loop thread did not come back (watchdog, inconclusive)."""
        if not self.at_gate.wait(timeout):
            return False
        self.at_gate.clear()
        self.gate.release()
        return self.at_gate.wait(timeout)


_STORE_LISTS = {'metric': '_periodic_metric_reports', 'alert': '_periodic_alert_reports', 'component': '_periodic_component_state_reports',
                'context': '_periodic_context_state_reports', 'operational': '_periodic_operational_state_reports'}
_RESULT_MEMBER = {'metric': 'metric_updates', 'alert': 'alert_updates', 'component': 'comp_updates', 'context': 'ctxt_updates',
                  'operational': 'op_updates', 'rt': 'rt_updates'}


def _wire_states(entries, netloc):
    """{(report name, DescriptorHandle, Handle, StateVersion): canonical XML of the state element} of all reports in the wire entries."""
    found = {}   # report name -> {(DescriptorHandle, Handle): {StateVersion: canonical xml}}
    for e in entries:
        if e.netloc != netloc or not e.body:
            continue
        try:
            root = etree.fromstring(e.body)
        except etree.XMLSyntaxError:
            continue
        for part in root.iter():
            if not isinstance(part.tag, str) or etree.QName(part).localname != 'ReportPart':
                continue
            report = etree.QName(part.getparent()).localname
            for child in part:
                if isinstance(child.tag, str) and child.get('DescriptorHandle') is not None:
                    tag, attrs, text, children = xml_canon(child)
                    if any(k.endswith('}type') and v.endswith('ClockState') for k, v in attrs):
                        attrs = tuple(a for a in attrs if a[0] != 'DateAndTime')   # written with the time of serialisation: not MDIB content
                    found.setdefault(report, {}).setdefault((child.get('DescriptorHandle'), child.get('Handle')), {})[
                        child.get('StateVersion', '0')] = (tag, attrs, text, children)
    return found


_EPISODIC_OF = {'PeriodicMetricReport': 'EpisodicMetricReport', 'PeriodicAlertReport': 'EpisodicAlertReport',
                'PeriodicComponentReport': 'EpisodicComponentReport', 'PeriodicContextReport': 'EpisodicContextReport',
                'PeriodicOperationalStateReport': 'EpisodicOperationalStateReport'}


def w_periodic(ctx: core.Ctx, arg):
    from sdc11073.provider import periodicreports
    rng = ctx.rng('periodic', arg['i'])
    mdib_file = MDIB_FILES[arg['i'] % len(MDIB_FILES)]
    real_module = periodicreports.intervaltimer
    periodicreports.intervaltimer = types.SimpleNamespace(IntervalTimer=_GateTimer)   # only the periodic-reports module sees the gate
    _GateTimer.instances.clear()
    _GateTimer.created.clear()
    world = None
    try:
        world = World(mdib_file, role_provider=False, periodic_reports_interval=3600)
        consumer, _ = world.add_consumer(with_mdib=False)
        sink = base.Sink(world, consumer)
        mdib = world.mdib
        handler = world.provider._periodic_reports_handler
        judge = Judge(ctx, mdib, mdib_file)
        cat = mdibops.catalog(mdib)
        episodic = {}      # what the commits of the running period published on the wire, per report kind

        def note_episodic(n_log):
            for report, states in _wire_states(world.network.log[n_log:], sink.netloc).items():
                for key, versions in states.items():
                    episodic.setdefault(report, {}).setdefault(key, {}).update(versions)

        n_log = len(world.network.log)
        for h in cat['context'][:2]:
            with mdib.context_state_transaction() as mgr:
                _rich_context_state(mdib, mgr.mk_context_state(h, f'pr_{h}'), rng, 'pr')
        note_episodic(n_log)

        def watch_store():
            n = 0
            for kind, lst_name in _STORE_LISTS.items():
                with handler._periodic_reports_lock:
                    entries = list(getattr(handler, lst_name))
                for ps in entries:
                    for st in ps.states:
                        judge.publish(f'periodic_store.{kind}', st)
                        n += 1
            return n

        for rnd in range(arg['rounds']):
            for kind in ('metric', 'alert', 'component', 'operational', 'context'):
                pool = cat[kind]
                if not pool:
                    continue
                iface = ('classic', 'entity')[(rnd + len(kind)) % 2]
                handles = rng.sample(pool, min(2, len(pool)))
                held = []          # the application's own objects of this transaction
                n_log, n_res, n_obs = len(world.network.log), len(sink.results), len(sink.observed)
                with getattr(mdib, mdibops._TR[kind])() as mgr:
                    for h in handles:
                        if kind == 'context':
                            if iface == 'entity':
                                ent = mdib.entities.by_handle(h)
                                for st in ent.states.values():
                                    _rich_context_state(mdib, st, rng, f'pr{rnd}')
                                    held.append(st)
                                mgr.write_entity(ent, list(ent.states))
                            else:
                                for sh in [s.Handle for s in mdib.context_states.descriptor_handle.get(h, [])]:
                                    st = mgr.get_context_state(sh)
                                    _rich_context_state(mdib, st, rng, f'pr{rnd}')
                                    held.append(st)
                        elif iface == 'entity':
                            ent = mdib.entities.by_handle(h)
                            for _ in range(3):
                                mdibops.mutate_state(ent.state, rng)
                            held.append(ent.state)
                            mgr.write_entity(ent)
                        else:
                            st = mgr.get_state(h)
                            for _ in range(3):
                                mdibops.mutate_state(st, rng)
                            held.append(st)
                if len(sink.results) == n_res:
                    ctx.count('periodic.commit_without_result')
                    continue
                tr = sink.results[-1]
                note_episodic(n_log)
                ctx.count('periodic.store_states_watched', watch_store())
                # the application goes on working with what it got: transaction result (= *_by_handle observables), its own objects
                for st in getattr(tr, _RESULT_MEMBER[kind]):
                    judge.mutate_all(f'TransactionResult.{_RESULT_MEMBER[kind]}', st, counter='periodic.mutations')
                for name, value in sink.observed[n_obs:]:
                    for st in value.values():
                        if not any(st is x for x in tr.all_states()):
                            ctx.count('observable.other_object_than_result')
                            judge.mutate_all(f'observable.{name}', st, counter='periodic.mutations')
                        else:
                            ctx.count('observable.same_object_as_result')
                for st in held:
                    judge.mutate_all(f'{kind}_transaction.{"write_entity" if iface == "entity" else "get_state"}.after_commit', st,
                                     counter='periodic.mutations')
                ctx.case(('periodic', mdib_file, kind, iface))
            # the period ends: the real loop thread sends what was collected
            if not _GateTimer.created.wait(120.0):    # (the loop thread constructs its timer a moment after start_all)
                ctx.not_decided('the periodic-reports loop thread did not start (wall-clock watchdog)')
                break
            n_log = len(world.network.log)
            if not _GateTimer.instances[0].one_period():
                ctx.not_decided('the periodic-reports loop thread did not finish a period (wall-clock watchdog)')
                break
            ctx.count('periodic.periods')
            judge.recorded[:] = [r for r in judge.recorded if not r[0].startswith('periodic_store.')]   # handed to the send functions
            for report, states in _wire_states(world.network.log[n_log:], sink.netloc).items():
                want = episodic.get(_EPISODIC_OF.get(report, ''), {})
                kind = {'PeriodicOperationalStateReport': 'operational'}.get(report, report[len('Periodic'):-len('Report')].lower())
                for key, versions in states.items():
                    if key not in want:
                        ctx.count('periodic.wire_state_without_episodic')   # (nothing of this state went out in an episodic report of this period)
                        continue
                    for version, xml in versions.items():
                        ctx.count('periodic.wire_states_compared')
                        if version not in want[key]:
                            ctx.witness(f'isolation.periodic_report_wire.{kind}',
                                        'the periodic report carries a state under a StateVersion that no commit of the period published (the '
                                        'application only edited its private copies of the transaction results)',
                                        {'report': report, 'state': key, 'version_on_the_wire': version, 'published': sorted(want[key]),
                                         'mdib_file': mdib_file})
                        elif xml != want[key][version]:
                            ctx.witness(f'isolation.periodic_report_wire.{kind}',
                                        'the periodic report carries a state that differs from what the commit published in its episodic report '
                                        'under the same StateVersion (the application only edited its private copies in between)',
                                        {'report': report, 'state': key, 'version': version, 'diff': first_difference(want[key][version], xml),
                                         'mdib_file': mdib_file})
            episodic.clear()
    finally:
        periodicreports.intervaltimer = real_module
        if world is not None:
            world.stop()
        for t in _GateTimer.instances:
            t.gate.release()       # the loop thread sees the stop flag and ends


# ------------------------------------------------------------------------------------------------
def w_isolation_more(ctx: core.Ctx, arg):
    from sdc11073.xml_types import pm_qnames as pm
    rng = ctx.rng('iso_more', arg['i'])
    mdib_file = MDIB_FILES[arg['i'] % len(MDIB_FILES)]
    world, sink = base._mk_world(mdib_file)
    mdib = world.mdib
    judge = Judge(ctx, mdib, mdib_file)
    cat = mdibops.catalog(mdib)
    pm_types = mdib.data_model.pm_types

    def publish_last(n_res):
        for tr in sink.results[n_res:]:
            for member in ('descr_updated', 'descr_created', 'descr_deleted', *_RESULT_MEMBER.values()):
                for obj in getattr(tr, member):
                    judge.publish(f'TransactionResult.{member}', obj)
        return sink.results[n_res:]

    def mutate_results(results):
        for tr in results:
            for member in ('descr_updated', 'descr_created', 'descr_deleted', *_RESULT_MEMBER.values()):
                for obj in getattr(tr, member)[:2]:
                    judge.mutate_all(f'TransactionResult.{member}', obj)

    def mutate_observed(n_obs, results):
        for name, value in sink.observed[n_obs:]:
            for obj in list(value.values())[:1]:
                if any(obj is x for tr in results for x in tr.all_states() + tr.descr_updated + tr.descr_created + tr.descr_deleted):
                    ctx.count('observable.same_object_as_result')
                else:
                    ctx.count('observable.other_object_than_result')
                    judge.mutate_all(f'observable.{name}', obj)

    # -- context transaction: every way to put a state into it, objects kept by the application, results --------------------------------
    for n, dh in enumerate(cat['context'][:2]):
        with mdib.context_state_transaction() as mgr:
            _rich_context_state(mdib, mgr.mk_context_state(dh, f'im{n}_old', set_associated=True), rng, 'old')
        n_res, n_obs = len(sink.results), len(sink.observed)
        with mdib.context_state_transaction() as mgr:
            disassociated = mgr.disassociate_all(dh)
            made = mgr.mk_context_state(dh, f'im{n}_made', set_associated=True)
            _rich_context_state(mdib, made, rng, 'made')
            added = mdib.data_model.mk_state_container(mdib.descriptions.handle.get_one(dh))
            added.Handle = f'im{n}_added'
            _rich_context_state(mdib, added, rng, 'added')
            mgr.add_state(added)
            ent = mdib.entities.by_handle(dh)
            via_entity = ent.new_state(f'im{n}_entity')
            _rich_context_state(mdib, via_entity, rng, 'entity')
            mgr.write_entity(ent, [via_entity.Handle])
            in_transaction = [mgr.context_state_updates[h].new for h in disassociated]
        results = publish_last(n_res)
        ctx.count('context.disassociated', len(disassociated))
        judge.mutate_all('context_transaction.mk_context_state.after_commit', made)
        judge.mutate_all('context_transaction.add_state.after_commit', added)
        judge.mutate_all('context_transaction.write_entity.after_commit', via_entity)
        judge.mutate_all('entity.after_write_commit', ent.descriptor)
        for st in in_transaction:
            judge.mutate_all('context_transaction.disassociate_all.after_commit', st)
        mutate_results(results)
        mutate_observed(n_obs, results)
        ctx.case(('iso_more', mdib_file, 'context', n))

    # -- descriptor transaction: get_state / add_state objects, created / updated / deleted descriptors in the result -------------------
    if cat['channel'] and len(cat['leaf_metric']) >= 3:
        chan = cat['channel'][0]
        m0, m1, m2 = cat['leaf_metric'][:3]
        try:
            with mdib.descriptor_transaction() as mgr:
                d = mgr.get_descriptor(m0)
                st = mgr.get_state(m0)
                judge.mutate_all('descriptor_transaction.get_state', st)
                raise mdibops.BodyAbort
        except mdibops.BodyAbort:
            pass
        n_res, n_obs = len(sink.results), len(sink.observed)
        with mdib.descriptor_transaction() as mgr:
            d = mgr.get_descriptor(m0)
            mdibops.mutate_descriptor(d, rng)
            d.Type = pm_types.CodedValue('125', coding_system='urn:cs')
            d.Type.ConceptDescription = [pm_types.LocalizedText('concept')]
            st = mgr.get_state(m0)
            mdibops.mutate_state(st, rng)
            new_d = mdibops._new_numeric(mdib, f'im_new_{arg["i"]}', chan, rng)
            mgr.add_descriptor(new_d)
            new_st = mdib.data_model.mk_state_container(new_d)
            mdibops.mutate_state(new_st, rng)
            mgr.add_state(new_st)
            new_ent = mdib.entities.new_entity(pm.NumericMetricDescriptor, f'im_new_ent_{arg["i"]}', chan)
            nd = new_ent.descriptor
            nd.Type, nd.Unit, nd.Resolution = mdibops._coded(rng), mdibops._coded(rng), Decimal('0.1')
            nd.MetricCategory, nd.MetricAvailability = pm_types.MetricCategory.MEASUREMENT, pm_types.MetricAvailability.CONTINUOUS
            mdibops.mutate_state(new_ent.state, rng)
            mgr.write_entity(new_ent)
            old_ent = mdib.entities.by_handle(m1)
            mdibops.mutate_descriptor(old_ent.descriptor, rng)
            mdibops.mutate_state(old_ent.state, rng)
            mgr.write_entity(old_ent)
            mgr.remove_descriptor(m2)
        results = publish_last(n_res)
        judge.mutate_all('descriptor_transaction.get_state.after_commit', st)
        judge.mutate_all('descriptor_transaction.add_state.after_commit', new_st)
        judge.mutate_all('descriptor_transaction.add_descriptor.after_commit', new_d)
        judge.mutate_all('new_entity.after_write_commit', new_ent.descriptor)
        judge.mutate_all('new_entity.after_write_commit', new_ent.state)
        judge.mutate_all('entity.after_write_commit', old_ent.descriptor)
        judge.mutate_all('entity.after_write_commit', old_ent.state)
        mutate_results(results)
        mutate_observed(n_obs, results)
        ctx.case(('iso_more', mdib_file, 'descriptor'))

    # -- state transactions through the entity interface; entity getters by_node_type / items() -----------------------------------------
    for kind in ('metric', 'alert', 'component', 'operational', 'rt'):
        pool = [h for h in cat[kind] if mdib.descriptions.handle.get_one(h, allow_none=True) is not None]
        if not pool:
            continue
        h = rng.choice(pool)
        for getter in ('by_node_type', 'items'):
            ent = _entity_via(mdib, getter, h)
            judge.mutate_all(f'entities.{getter}', ent.state)
            judge.mutate_all(f'entities.{getter}', ent.descriptor)
        ent = mdib.entities.by_handle(h)
        for _ in range(3):
            mdibops.mutate_state(ent.state, rng)
        n_res, n_obs = len(sink.results), len(sink.observed)
        with getattr(mdib, mdibops._TR[kind])() as mgr:
            mgr.write_entity(ent)
        results = publish_last(n_res)
        judge.mutate_all('entity.after_write_commit', ent.state)
        mutate_observed(n_obs, results)
        ctx.case(('iso_more', mdib_file, kind))
        judge.recorded[:] = judge.recorded[-8:]
    for getter in ('by_node_type', 'items'):
        for dh in cat['context'][:1]:
            ent = _entity_via(mdib, getter, dh)
            for st in list(ent.states.values())[:2]:
                judge.mutate_all(f'entities.{getter}', st)
    world.stop()
